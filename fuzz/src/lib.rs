//! Shared plumbing of the libFuzzer targets for C22 ("malformed input produces a diagnostic,
//! never a crash").  Every target runs `libwild` in-process (`--no-fork --threads=1`) inside
//! `catch_unwind`.  A panic whose location/message matches an entry of `VERIF_KNOWN_PANICS`
//! (newline-separated substrings, matched against "<file>|<message>|line <n>") is tolerated and counted;
//! any other panic aborts the process so that libFuzzer records a crash artifact.

use std::panic::AssertUnwindSafe;
use std::path::PathBuf;
use std::sync::Mutex;
use std::sync::Once;
use std::sync::atomic::AtomicU64;
use std::sync::atomic::Ordering;

static INIT: Once = Once::new();
static LAST_PANIC: Mutex<Option<String>> = Mutex::new(None);
pub static TOLERATED: AtomicU64 = AtomicU64::new(0);

pub struct Env {
    pub dir: PathBuf,
    pub known: Vec<String>,
    pub aux: PathBuf,
}

static ENV: Mutex<Option<&'static Env>> = Mutex::new(None);

pub fn env() -> &'static Env {
    INIT.call_once(|| {
        // Replace libfuzzer-sys's abort-on-panic hook: record, then let the unwind reach our
        // catch_unwind, which decides whether the panic is a known finding.
        std::panic::set_hook(Box::new(|info| {
            let loc = info
                .location()
                .map(|l| l.file().to_owned())
                .unwrap_or_default();
            let msg = if let Some(s) = info.payload().downcast_ref::<&str>() {
                (*s).to_owned()
            } else if let Some(s) = info.payload().downcast_ref::<String>() {
                s.clone()
            } else {
                String::new()
            };
            let line = info.location().map(|l| l.line()).unwrap_or(0);
            *LAST_PANIC.lock().unwrap() = Some(format!("{loc}|{msg}|line {line}"));
        }));
        let root = std::env::var("VERIF_FUZZ_SCRATCH").unwrap_or_else(|_| "/dev/shm".to_owned());
        let dir = PathBuf::from(root).join(format!("verif-fuzz-{}", std::process::id()));
        std::fs::create_dir_all(&dir).unwrap();
        let known = std::env::var("VERIF_KNOWN_PANICS")
            .unwrap_or_default()
            .lines()
            .filter(|l| !l.is_empty())
            .map(str::to_owned)
            .collect();
        let aux = PathBuf::from(std::env::var("VERIF_FUZZ_AUX").unwrap_or_default());
        let e: &'static Env = Box::leak(Box::new(Env { dir, known, aux }));
        *ENV.lock().unwrap() = Some(e);
    });
    ENV.lock().unwrap().unwrap()
}

static EXECS: AtomicU64 = AtomicU64::new(0);

/// Called at the start of every execution with the raw fuzzer input: keeps `cur.raw` (the unit
/// being executed) and `count` (executions so far) up to date for the external watchdog, because
/// libFuzzer's own SIGALRM-based timeout can deadlock inside malloc.
pub fn begin(raw: &[u8]) {
    let e = env();
    let n = EXECS.fetch_add(1, Ordering::Relaxed) + 1;
    let _ = std::fs::write(e.dir.join("cur.raw"), raw);
    if n % 32 == 1 {
        let _ = std::fs::write(e.dir.join("count"), n.to_string());
    }
}

/// Domain of a known finding (C22 `hang:cpu-bound:libwild::version_script::parse_matcher`): an
/// `extern` block whose `{` is never followed by a `}`.  In-process a hang cannot be tolerated, so
/// such inputs are skipped (the process-level engine excludes the same domain by construction).
pub fn known_extern_hang(text: &[u8]) -> bool {
    let mut i = 0;
    while let Some(p) = find(&text[i..], b"extern") {
        let after = i + p + 6;
        if let Some(b) = text[after..].iter().position(|c| *c == b'{') {
            if !text[after + b..].contains(&b'}') {
                return true;
            }
        }
        i = after;
    }
    false
}

fn find(hay: &[u8], needle: &[u8]) -> Option<usize> {
    hay.windows(needle.len()).position(|w| w == needle)
}

/// Runs `f` and classifies a panic. Returns normally for Ok / Err / tolerated panics; aborts for
/// an unknown panic (after printing its location so that the driver can key the finding).
pub fn guarded(what: &str, f: impl FnOnce()) {
    let e = env();
    *LAST_PANIC.lock().unwrap() = None;
    let r = std::panic::catch_unwind(AssertUnwindSafe(f));
    if r.is_err() {
        let p = LAST_PANIC
            .lock()
            .unwrap()
            .take()
            .unwrap_or_else(|| "unknown".to_owned());
        if e.known.iter().any(|k| p.contains(k.as_str())) {
            TOLERATED.fetch_add(1, Ordering::Relaxed);
            return;
        }
        eprintln!("VERIF-PANIC target={what} at={p}");
        std::process::abort();
    }
}

/// Parses the argument list and, if parsing succeeds, runs the link in-process.
pub fn link(args: &[String]) {
    let mut argv: Vec<String> = vec!["wild".to_owned()];
    argv.extend(args.iter().cloned());
    let Ok(mut a) = libwild::Args::new(|| argv.iter()) else {
        return;
    };
    // Warnings would otherwise flood stderr.
    a.on_warning(Box::new(|_| {}));
    if a.parse(|| argv.iter()).is_err() {
        return;
    }
    let _ = libwild::run(a);
}

pub fn parse_only(args: &[String]) {
    let mut argv: Vec<String> = vec!["wild".to_owned()];
    argv.extend(args.iter().cloned());
    let Ok(mut a) = libwild::Args::new(|| argv.iter()) else {
        return;
    };
    a.on_warning(Box::new(|_| {}));
    let _ = a.parse(|| argv.iter());
}

pub fn s(p: &std::path::Path) -> String {
    p.to_str().unwrap().to_owned()
}
