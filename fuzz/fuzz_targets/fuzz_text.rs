#![no_main]
//! Text inputs: the first byte selects the role of the text (linker script via -T, implicit linker
//! script, version script, dynamic list, export list, response file), the rest is the text.
use libfuzzer_sys::fuzz_target;
use vfuzz::*;

fuzz_target!(|data: &[u8]| {
    if data.is_empty() {
        return;
    }
    let e = env();
    begin(data);
    let mode = data[0] % 6;
    if mode <= 4 && known_extern_hang(&data[1..]) {
        return;
    }
    let text = e.dir.join("in.txt");
    std::fs::write(&text, &data[1..]).unwrap();
    let out = e.dir.join("out");
    let main_o = e.aux.join("main.o");
    let mut args = vec!["--no-fork".to_owned(), "--threads=1".to_owned()];
    match mode {
        0 => {
            args.push("-T".to_owned());
            args.push(s(&text));
            args.push(s(&main_o));
        }
        1 => {
            args.push(s(&main_o));
            args.push(s(&text));
        }
        2 => {
            args.push("-shared".to_owned());
            args.push(format!("--version-script={}", s(&text)));
            args.push(s(&main_o));
        }
        3 => {
            args.push("-shared".to_owned());
            args.push(format!("--dynamic-list={}", s(&text)));
            args.push(s(&main_o));
        }
        4 => {
            args.push("-pie".to_owned());
            args.push(format!("--export-dynamic-symbol-list={}", s(&text)));
            args.push(s(&main_o));
        }
        _ => {
            // Response file: the text supplies arguments; inputs/outputs stay inside the scratch
            // directory because we only *parse* in this mode.
            if data.windows(4).any(|w| w == b"help") {
                return; // `--help` exits the process from inside the parser
            }
            let a = vec![format!("@{}", s(&text))];
            guarded("fuzz_text", || parse_only(&a));
            return;
        }
    }
    args.push("-o".to_owned());
    args.push(s(&out));
    guarded("fuzz_text", || link(&args));
});
