#![no_main]
//! Input-file bytes (object / archive / shared object / implicit linker script): the first byte
//! selects the output kind and a few options, the rest is the file.
use libfuzzer_sys::fuzz_target;
use vfuzz::*;

fuzz_target!(|data: &[u8]| {
    if data.is_empty() {
        return;
    }
    let e = env();
    begin(data);
    let mode = data[0];
    let input = e.dir.join("in.bin");
    std::fs::write(&input, &data[1..]).unwrap();
    let out = e.dir.join("out");
    let mut args = vec!["--no-fork".to_owned(), "--threads=1".to_owned()];
    match mode & 3 {
        0 => {}
        1 => args.push("-shared".to_owned()),
        2 => args.push("-pie".to_owned()),
        _ => args.push("-r".to_owned()),
    }
    if mode & 4 != 0 {
        args.push("--gc-sections".to_owned());
    } else {
        args.push("--no-gc-sections".to_owned());
    }
    if mode & 8 != 0 {
        args.push("--whole-archive".to_owned());
    }
    if mode & 16 != 0 {
        args.push("--export-dynamic".to_owned());
    }
    // A valid companion object (defines _start, references a few symbols) when available.
    let main_o = e.aux.join("main.o");
    if mode & 32 != 0 && main_o.exists() {
        args.push(s(&main_o));
    }
    args.push(s(&input));
    args.push("-o".to_owned());
    args.push(s(&out));
    guarded("fuzz_input", || link(&args));
});
