#![no_main]
//! Argument lists: NUL/newline-separated arguments, parsed only (running arbitrary argument lists
//! in-process could write anywhere; the process-level engine in c22.py runs them in a sandbox dir).
use libfuzzer_sys::fuzz_target;
use vfuzz::*;

fuzz_target!(|data: &[u8]| {
    begin(data);
    let text = String::from_utf8_lossy(data);
    if text.contains("help") {
        // `--help` calls process::exit(0) from inside the parser, which libFuzzer reports as a crash.
        return;
    }
    let args: Vec<String> = text
        .split(['\n', '\0'])
        .filter(|a| !a.is_empty())
        .map(str::to_owned)
        .collect();
    guarded("fuzz_args", || parse_only(&args));
});
