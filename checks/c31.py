"""C31 — Symbol tables describe the final resolution.

Domain: 2-3 assembly TUs (+ 0-2 archive members, + one GNU-ld-built dependency library) defining
and referencing generated symbols: type (func/object/notype/abs) x binding (global/weak/local,
several definitions per name) x visibility (default/protected/hidden/internal, on definitions and
on undefined references) x output section; output kind shared / PIE / non-PIE executable; export
controls (--export-dynamic, --dynamic-list, --export-dynamic-symbol, anonymous version script with
global:/local: patterns, --exclude-libs, -Bsymbolic); strip options (-s, -S,
--retain-symbols-file).  Every definition starts with an 8-byte id marker and has a distinct size.

Oracle:
 (1) .symtab consistency from the statement: locals precede globals and sh_info is the index of the
     first non-local; no name has two non-local entries; st_shndx valid; every retained definition's
     st_value lies inside its section and the bytes of the output image there are the *winning*
     definition's marker; size and type are the winning definition's; binding/visibility are the
     winning binding / the most constraining visibility (or LOCAL for a symbol that can no longer
     be referenced from outside, which is what GNU ld emits).  Every rule is also evaluated on GNU
     ld's output of the same case; a rule that flags GNU ld's output is not applied (split).
 (2) .dynsym export set: model from the statement (default/protected-visibility non-local
     definitions when building a shared object, under --export-dynamic, when listed, or when a
     shared library on the link line references/defines the name; never hidden/internal, never
     version-script-local, never --exclude-libs members; imports = undefined references) AND GNU
     ld's .dynsym on the same input.  VIOLATION iff wild differs from GNU ld and GNU ld equals the
     model; GNU ld != model is an oracle split.
"""
import struct

from hypothesis import strategies as st

from vlib import patient, tools
from vlib import elf as E
from vlib.core import Check, Discard, Inconclusive, OracleSplit, Violation
from vlib.elf import Elf

MARK = 0x4D524B31_00000000
VIS_RANK = {"d": 0, "p": 3, "h": 2, "i": 1}          # ELF st_other values
VIS_DIRECTIVE = {"h": ".hidden", "p": ".protected", "i": ".internal"}
KNOWN_INTERNAL = "internal-visibility-treated-as-default"
KNOWN_PROT = "merged-protected-visibility-not-written"
KNOWN_HREF = "hidden-reference-not-applied-to-later-winner"
KNOWN_RUSTVS = "exact-global-plus-local-star-script-reexports-hidden"
KNOWN_EXCL = "exclude-libs-exported-via-other-route"


def merge_vis(vs):
    """Most constraining visibility (gABI): internal < hidden < protected < default."""
    nz = [VIS_RANK[v] for v in vs if v != "d"]
    if not nz:
        return "d"
    return {1: "i", 2: "h", 3: "p"}[min(nz)]


NTU = 3
vis_st = st.sampled_from(["d"] * 16 + ["h"] * 6 + ["p"] * 3 + ["i"])


def sym_strategy():
    d = st.fixed_dictionaries({
        "tu": st.integers(0, NTU - 1),
        "bind": st.sampled_from(["g", "g", "g", "w", "w", "l"]),
        "vis": vis_st,
        "sec": st.sampled_from(["text", "data", "rodata", "bss", "mysec"]),
    })
    r = st.fixed_dictionaries({
        "tu": st.integers(0, NTU - 1),
        "vis": st.sampled_from(["d"] * 12 + ["h", "h", "h", "p"]),
        "weak": st.sampled_from([False, False, True]),
    })
    return st.fixed_dictionaries({
        "pfx": st.sampled_from(["sa", "sb", "fa"]),
        "type": st.sampled_from(["func", "object", "object", "notype", "abs"]),
        "defs": st.lists(d, min_size=1, max_size=3),
        "refs": st.lists(r, min_size=0, max_size=2),
        "dep": st.sampled_from(["none", "none", "none", "ref", "ref", "def"]),
    })


def arsym_strategy():
    return st.fixed_dictionaries({
        "member": st.integers(0, 1),
        "type": st.sampled_from(["func", "object"]),
        "bind": st.sampled_from(["g", "g", "w"]),
        "vis": st.sampled_from(["d", "d", "d", "p", "h"]),
        "ref": st.sampled_from([True, True, False]),
        "dep": st.sampled_from(["none", "none", "ref"]),
    })


def pattern_strategy():
    # resolved against the symbol names in normalise(): ("exact", i) / ("glob", prefix) / ("star",)
    return st.one_of(st.tuples(st.just("exact"), st.integers(0, 11)),
                     st.tuples(st.just("exact"), st.integers(0, 11)),
                     st.tuples(st.just("glob"), st.sampled_from(["sa", "sb", "fa", "ar", "s", "f"])),
                     st.tuples(st.just("star"))).map(list)


def ctl_strategy():
    pats = st.lists(pattern_strategy(), min_size=1, max_size=3)
    return st.fixed_dictionaries({
        "E": st.sampled_from([False, False, True]),
        "dynlist": st.one_of(st.none(), st.none(), pats),
        "eds": st.one_of(st.none(), st.none(), st.none(), pats),
        "vs": st.one_of(st.none(), st.fixed_dictionaries({"global": st.lists(pattern_strategy(), max_size=2),
                                                                     "local": st.lists(pattern_strategy(), max_size=2)})),
        "exclude": st.sampled_from([None, None, None, None, "ALL", "libar.a", "libother.a"]),
        "bsym": st.sampled_from([False, False, False, True]),
    })


def case_strategy():
    return st.fixed_dictionaries({
        "out": st.sampled_from(["shared", "shared", "pie", "pie", "exe"]),
        "syms": st.lists(sym_strategy(), min_size=1, max_size=6),
        "arsyms": st.lists(arsym_strategy(), min_size=0, max_size=3),
        "imports": st.lists(st.fixed_dictionaries({"tu": st.integers(0, NTU - 1), "weak": st.booleans()}), max_size=2),
        "unresolved": st.integers(0, 1),
        "ctl": ctl_strategy(),
        "strip": st.sampled_from(["none", "none", "none", "S", "s", "retain"]),
        "retain": st.lists(st.integers(0, 11), max_size=4),
        # False (usual): normalise() steers the case out of the exact domains of the known findings;
        # True: the case is taken as generated and excluded_by_construction() applies.
        "raw": st.sampled_from([False] * 11 + [True]),
    })


class Sym:
    """A generated name with its definitions/references after sanitising."""

    def __init__(self, name, typ):
        self.name, self.type = name, typ
        self.defs = []      # dicts: tu (int or "ar0"/"ar1"), bind, vis, sec, id, size
        self.refs = []      # dicts: tu, vis, weak
        self.dep = "none"
        self.archive = False


def normalise(case):
    """Returns (syms, unresolved names, import refs). Guarantees an assemblable, linkable input:
    at most one definition per name per TU, at most one strong global definition per name (later
    ones become weak), references only from TUs that do not define the name."""
    syms = []
    did = 0
    for k, s in enumerate(case["syms"]):
        sym = Sym(f"{s['pfx']}{k}", s["type"])
        seen_tu = set()
        strong = False
        for d in s["defs"]:
            if d["tu"] in seen_tu:
                continue
            seen_tu.add(d["tu"])
            bind = d["bind"]
            if bind == "g":
                if strong:
                    bind = "w"
                strong = True
            did += 1
            sec = d["sec"]
            if s["type"] == "func":
                sec = "text"
            elif s["type"] == "object" and sec == "text":
                sec = "data"
            sym.defs.append({"tu": d["tu"], "bind": bind, "vis": d["vis"] if bind != "l" else "d", "sec": sec,
                             "id": did, "size": 8 + 4 * did})
        for r in s["refs"]:
            if r["tu"] in seen_tu:
                continue
            seen_tu.add(r["tu"])
            sym.refs.append(dict(r))
        sym.dep = s["dep"]
        if all(d["bind"] == "l" for d in sym.defs):
            # no non-local definition: undefined references would not link
            sym.refs = []
            sym.dep = "none"
        syms.append(sym)
    for k, a in enumerate(case["arsyms"]):
        sym = Sym(f"ar{k}", a["type"])
        did += 1
        sym.archive = True
        sym.member = a["member"]
        sym.defs.append({"tu": f"ar{a['member']}", "bind": a["bind"], "vis": a["vis"],
                         "sec": "text" if a["type"] == "func" else "data", "id": did, "size": 8 + 4 * did})
        if a["ref"]:
            sym.refs.append({"tu": 0, "vis": "d", "weak": False})
        sym.dep = a["dep"]
        syms.append(sym)
    # archive members are loaded iff one of their symbols is referenced from a plain object
    loaded_members = {s.member for s in syms if s.archive and s.refs}
    for s in syms:
        if s.archive:
            s.loaded = s.member in loaded_members
            if not s.loaded:
                s.dep = "none"      # keep the archive-loading question (C03) out of this check
        else:
            s.loaded = True
    if case["out"] != "shared":
        # GNU ld refuses an executable whose hidden symbol is referenced by a DSO: not generated.
        ctl = case["ctl"]
        vl = resolve_pats(ctl["vs"]["local"], syms) if ctl["vs"] else []
        vg = resolve_pats(ctl["vs"]["global"], syms) if ctl["vs"] else []
        for s in syms:
            if s.dep == "ref" and (merged_visibility(s) in ("h", "i") or vs_verdict(s.name, vg, vl) in ("local", "ambiguous")):
                s.dep = "none"
    if not case.get("raw"):
        # Steer out of the known findings' domains (they are reached, and skipped, with raw=True).
        for s in syms:
            for e in s.defs + s.refs:
                if e["vis"] == "i":
                    e["vis"] = "h"
            if in_href_domain(s):
                for r in s.refs:
                    r["vis"] = "d"
            w = winner(s)
            if w is not None and merged_visibility(s) == "p" and w["vis"] == "d":
                w["vis"] = "p"
        for s in syms:
            if in_rustvs_domain(case, syms, s):
                winner(s)["vis"] = "h"
    return syms


def in_href_domain(s):
    """Known finding: a hidden undefined reference, >=2 non-local definitions none of which is itself
    hidden/internal, and the winning definition is not the first definition in input order: wild
    applies the reference's visibility to the first definition only and exports the symbol."""
    nl = [d for d in s.defs if d["bind"] != "l"]
    if not s.loaded or len(nl) < 2 or not any(r["vis"] == "h" for r in s.refs):
        return False
    if merge_vis([d["vis"] for d in nl]) in ("h", "i"):
        return False
    first = min(nl, key=lambda d: d["tu"])
    return winner(s) is not first


def rust_like(case):
    """wild's fast path for version scripts of the form `{ global: <exact names>; local: *; }`."""
    vs = case["ctl"]["vs"]
    return bool(vs) and any(p[0] == "star" for p in vs["local"]) and all(p[0] == "exact" for p in vs["global"])


def in_rustvs_domain(case, syms, s):
    """Known finding: with a `{ global: names; local: *; }` script, a listed symbol whose most
    constraining visibility is hidden only through another entry (a losing definition or an
    undefined reference; the winning definition itself is default/protected) is exported: the fast
    path first makes everything local and then clears that mark for the listed names, which also
    clears the mark that the hidden visibility had set."""
    if not rust_like(case) or winner(s) is None:
        return False
    listed = resolve_pats(case["ctl"]["vs"]["global"], syms)
    return s.name in listed and merged_visibility(s) in ("h", "i") and winner(s)["vis"] in ("d", "p")


def effective_exclude(case, syms):
    """--exclude-libs value used on the command line (dropped when a non-raw case would otherwise
    fall in the known exclude-libs finding's domain)."""
    ex = case["ctl"]["exclude"]
    if ex in ("ALL", "libar.a") and not case.get("raw") and in_excl_domain(case, syms):
        return None
    return ex


def in_excl_domain(case, syms):
    if case["ctl"]["exclude"] not in ("ALL", "libar.a"):
        return False
    return any(s.archive and s.loaded and merged_visibility(s) in ("d", "p") and excl_route(case, syms, s) for s in syms)


def resolve_pats(pats, syms):
    out = []
    for p in pats:
        if p[0] == "exact":
            out.append(syms[p[1] % len(syms)].name)
        elif p[0] == "glob":
            out.append(p[1] + "*")
        else:
            out.append("*")
    return out


def glob_match(pat, name):
    if pat.endswith("*"):
        return name.startswith(pat[:-1])
    return pat == name


def winner(sym):
    """Winning non-local definition among loaded inputs: first strong, else first weak (command
    line order: TUs 0..2, then the archive)."""
    order = {0: 0, 1: 1, 2: 2, "ar0": 3, "ar1": 4}
    nl = sorted((d for d in sym.defs if d["bind"] != "l"), key=lambda d: order[d["tu"]])
    if not sym.loaded:
        return None
    for d in nl:
        if d["bind"] == "g":
            return d
    return nl[0] if nl else None


def merged_visibility(sym):
    if not sym.loaded:
        return "d"
    return merge_vis([d["vis"] for d in sym.defs if d["bind"] != "l"] + [r["vis"] for r in sym.refs])


def model_exports(case, syms, assume_internal_default=False):
    """Names the statement requires in .dynsym as definitions, and names it forbids. Returns
    (must_export set, decided_by dict name -> reason for non-triviality)."""
    ctl = case["ctl"]
    out = case["out"]
    dynlist = resolve_pats(ctl["dynlist"], syms) if ctl["dynlist"] else []
    eds = resolve_pats(ctl["eds"], syms) if ctl["eds"] else []
    vs_local = resolve_pats(ctl["vs"]["local"], syms) if ctl["vs"] else []
    vs_global = resolve_pats(ctl["vs"]["global"], syms) if ctl["vs"] else []
    exported = set()
    why = {}
    for s in syms:
        w = winner(s)
        if w is None:
            continue
        vis = merged_visibility(s)
        if vis == "i" and assume_internal_default:
            vis = "d"
        if vis in ("h", "i"):
            if vis != merge_vis([w["vis"]]):
                why[s.name] = "vis-merged-from-other-entry"
            continue
        if s.archive and effective_exclude(case, syms) in ("ALL", "libar.a"):
            why[s.name] = "exclude-libs"
            continue
        # version script: exact/glob global patterns take precedence over local globs the way GNU ld
        # documents (exact match first, then globs, `*` last); only unambiguous structures are decided
        # here, ambiguous ones are left to the differential (see run_case: split).
        if ctl["vs"]:
            verdict = vs_verdict(s.name, vs_global, vs_local)
            if verdict == "local":
                why[s.name] = "version-script-local"
                continue
            if verdict == "ambiguous":
                why[s.name] = "ambiguous"
                exported.add(s.name)
                continue
        if out == "shared":
            exported.add(s.name)
            continue
        reason = None
        if ctl["E"]:
            reason = "export-dynamic"
        elif any(glob_match(p, s.name) for p in dynlist):
            reason = "dynamic-list"
        elif any(glob_match(p, s.name) for p in eds):
            reason = "export-dynamic-symbol"
        elif s.dep in ("ref", "def"):
            reason = "shared-lib-" + s.dep
        if reason:
            exported.add(s.name)
            why[s.name] = reason
        else:
            why.setdefault(s.name, "exe-not-requested")
    return exported, why


def excl_route(case, syms, s):
    ctl = case["ctl"]
    pats = (resolve_pats(ctl["dynlist"], syms) if ctl["dynlist"] else []) + (resolve_pats(ctl["eds"], syms) if ctl["eds"] else [])
    return ctl["E"] or s.dep in ("ref", "def") or any(glob_match(p, s.name) for p in pats)


def vs_verdict(name, globs_global, globs_local):
    """global / local / none / ambiguous for an anonymous version script."""
    def kind(pats):
        k = set()
        for p in pats:
            if p == name:
                k.add("exact")
            elif p == "*":
                k.add("star")
            elif glob_match(p, name):
                k.add("glob")
        return k
    g, l = kind(globs_global), kind(globs_local)
    if not g and not l:
        return "none"
    if g and not l:
        return "global"
    if l and not g:
        return "local"
    for level in ("exact", "glob", "star"):
        if level in g and level in l:
            return "ambiguous"
        if level in g:
            return "global"
        if level in l:
            return "local"
    return "ambiguous"


SECTION_DIRECTIVE = {"text": ".text", "data": ".data", "rodata": ".section .rodata,\"a\",@progbits",
                     "bss": ".bss", "mysec": ".section .mysec,\"aw\",@progbits"}
TYPE_DIRECTIVE = {"func": "@function", "object": "@object", "notype": "@notype"}


def emit_def(sym, d):
    out = []
    if sym.type == "abs":
        out.append({"g": ".globl", "w": ".weak", "l": "#local"}[d["bind"]] + " " + sym.name)
        if d["vis"] != "d":
            out.append(f"{VIS_DIRECTIVE[d['vis']]} {sym.name}")
        out.append(f"{sym.name} = {0x7000 + d['id']}")
        return out
    out.append(SECTION_DIRECTIVE[d["sec"]])
    if d["bind"] != "l":
        out.append({"g": ".globl", "w": ".weak"}[d["bind"]] + " " + sym.name)
        if d["vis"] != "d":
            out.append(f"{VIS_DIRECTIVE[d['vis']]} {sym.name}")
    out.append(f".type {sym.name},{TYPE_DIRECTIVE[sym.type]}")
    out.append(".p2align 3")
    out.append(f"{sym.name}:")
    if d["sec"] == "bss":
        out.append(f"  .zero {d['size']}")
    else:
        out.append(f"  .quad {MARK | d['id']:#x}")
        out.append(f"  .zero {d['size'] - 8}")
    out.append(f".size {sym.name}, {d['size']}")
    return out


def build_inputs(case, syms, d):
    """Writes and assembles t0..t2.o, libar.a, libdep.so. Returns the link inputs."""
    tus = {i: [] for i in range(NTU)}
    ars = {0: [], 1: []}
    refs = {i: [] for i in range(NTU)}
    for s in syms:
        for df in s.defs:
            (ars[int(df["tu"][2])] if isinstance(df["tu"], str) else tus[df["tu"]]).extend(emit_def(s, df))
        for r in s.refs:
            lines = []
            if r["weak"]:
                lines.append(f".weak {s.name}")
            if r["vis"] != "d":
                lines.append(f"{VIS_DIRECTIVE[r['vis']]} {s.name}")
            lines.append(f"  movq {s.name}@GOTPCREL(%rip), %rax")
            refs[r["tu"]].extend(lines)
    for k, imp in enumerate(case["imports"]):
        lines = [f".weak dimp{k}"] if imp["weak"] else []
        lines.append(f"  movq dimp{k}@GOTPCREL(%rip), %rax")
        refs[imp["tu"]].extend(lines)
    if case["out"] == "shared":
        for k in range(case["unresolved"]):
            refs[0].append(f"  movq unres{k}@GOTPCREL(%rip), %rax")
    objs = []
    for i in range(NTU):
        text = [".text"]
        if i == 0:
            text += [".globl _start", ".type _start,@function", "_start:", "  ret"]
        text += [".text", f".Lrefs{i}:"] + refs[i] + tus[i] + [".section .note.GNU-stack,\"\",@progbits"]
        patient.asm("\n".join(text) + "\n", f"t{i}.o", cwd=d)
        objs.append(f"t{i}.o")
    members = []
    for m in (0, 1):
        if ars[m]:
            patient.asm("\n".join(ars[m] + [".section .note.GNU-stack,\"\",@progbits"]) + "\n", f"m{m}.o", cwd=d)
            members.append(f"m{m}.o")
    if members:
        patient.ar("libar.a", members, cwd=d)
        objs.append("libar.a")
    dep = [".text"]
    for k in range(len(case["imports"])):
        dep += [f".globl dimp{k}", f".type dimp{k},@function", f"dimp{k}:", "  ret", f".size dimp{k}, 1"]
    for s in syms:
        if s.dep == "ref":
            dep.append(f"  movq {s.name}@GOTPCREL(%rip), %rax")
        elif s.dep == "def":
            dep += [".data", f".globl {s.name}", f".type {s.name},{TYPE_DIRECTIVE.get(s.type, '@notype')}",
                    f"{s.name}:", "  .quad 0", f".size {s.name}, 8", ".text"]
    dep.append(".section .note.GNU-stack,\"\",@progbits")
    patient.asm("\n".join(dep) + "\n", "dep.o", cwd=d)
    tools.must(patient.link("ld", ["-shared", "-o", "libdep.so", "-soname", "libdep.so", "dep.o"], cwd=d), "building libdep.so")
    objs.append("libdep.so")
    return objs


def link_args(case, syms, d):
    ctl = case["ctl"]
    args = {"shared": ["-shared"], "pie": ["-pie", "--dynamic-linker=/lib64/ld-linux-x86-64.so.2"],
            "exe": ["--dynamic-linker=/lib64/ld-linux-x86-64.so.2"]}[case["out"]]
    args = [*args, "--no-gc-sections"]
    if ctl["E"]:
        args.append("--export-dynamic")
    if ctl["dynlist"]:
        tools.write(f"{d}/dyn.list", "{\n" + "".join(f"  {p};\n" for p in resolve_pats(ctl["dynlist"], syms)) + "};\n")
        args.append("--dynamic-list=dyn.list")
    if ctl["eds"]:
        for p in resolve_pats(ctl["eds"], syms):
            args.append(f"--export-dynamic-symbol={p}")
    if ctl["vs"]:
        g = resolve_pats(ctl["vs"]["global"], syms)
        l = resolve_pats(ctl["vs"]["local"], syms)
        text = "{\n"
        if g:
            text += "  global:\n" + "".join(f"    {p};\n" for p in g)
        if l:
            text += "  local:\n" + "".join(f"    {p};\n" for p in l)
        text += "};\n"
        tools.write(f"{d}/ver.map", text)
        args.append("--version-script=ver.map")
    if effective_exclude(case, syms):
        args.append(f"--exclude-libs={effective_exclude(case, syms)}")
    if ctl["bsym"]:
        args.append("-Bsymbolic")
    if case["strip"] == "s":
        args.append("-s")
    elif case["strip"] == "S":
        args.append("-S")
    elif case["strip"] == "retain":
        names = sorted({syms[i % len(syms)].name for i in case["retain"]})
        tools.write(f"{d}/retain.txt", "".join(n + "\n" for n in names))
        args.append("--retain-symbols-file=retain.txt")
    return args


def ours(name):
    return (name[:2] in ("sa", "sb", "fa", "ar") and name[2:].isdigit()) or name.startswith("dimp") or name.startswith("unres")


BIND = {E.STB_LOCAL: "l", E.STB_GLOBAL: "g", E.STB_WEAK: "w"}
VISN = {0: "d", 1: "i", 2: "h", 3: "p"}
TYPN = {E.STT_NOTYPE: "notype", E.STT_OBJECT: "object", E.STT_FUNC: "func"}


def dyn_view(elf):
    """{(name, type, bind, vis, defined)} of generated names in .dynsym."""
    out = set()
    for s in elf.dynsym()[1:]:
        if ours(s.name):
            out.add((s.name, TYPN.get(s.type, str(s.type)), BIND.get(s.bind, str(s.bind)), VISN[s.vis], s.defined))
    return out


def symtab_problems(elf, syms, case):
    """Evaluates the statement's .symtab rules. Returns {rule: message} of broken rules."""
    bad = {}
    sec = next((s for s in elf.sections if s.type == E.SHT_SYMTAB), None)
    if sec is None:
        return bad
    tab = elf.symtab()
    first_nonlocal = next((i for i, s in enumerate(tab) if s.bind != E.STB_LOCAL), len(tab))
    if any(s.bind == E.STB_LOCAL for s in tab[first_nonlocal:]):
        bad["local-after-global"] = "a STB_LOCAL entry follows a non-local entry"
    if sec.info != first_nonlocal:
        bad["sh_info"] = f"sh_info={sec.info}, first non-local index={first_nonlocal}"
    names = {}
    for s in tab:
        if s.bind != E.STB_LOCAL and s.name:
            names[s.name] = names.get(s.name, 0) + 1
    dups = sorted(n for n, c in names.items() if c > 1)
    if dups:
        bad["duplicate-global"] = f"non-local names present more than once: {dups[:4]}"
    for s in tab:
        if s.shndx not in (E.SHN_UNDEF, E.SHN_ABS, E.SHN_COMMON) and s.shndx >= len(elf.sections):
            bad["bad-shndx"] = f"{s.name}: st_shndx={s.shndx}"
    retained_only = None
    if case["strip"] == "retain":
        retained_only = {syms[i % len(syms)].name for i in case["retain"]}
    for sym in syms:
        if not sym.loaded:
            continue
        entries = [s for s in tab if s.name == sym.name and s.defined]
        w = winner(sym)
        vis = merged_visibility(sym)
        locals_ = [d for d in sym.defs if d["bind"] == "l"]
        # global entry
        ge = [s for s in entries if s.bind != E.STB_LOCAL]
        le = [s for s in entries if s.bind == E.STB_LOCAL]
        cands = ge + le
        if w is not None and (retained_only is None or sym.name in retained_only):
            # exactly one entry must describe the winner
            hits = [s for s in cands if _describes(elf, s, sym, w)]
            if not hits:
                got = [(hex(s.value), s.size, s.type, _marker(elf, s)) for s in cands]
                bad["winner-missing:" + _why(elf, cands, sym, w)] = (
                    f"{sym.name}: no .symtab entry has the final value/size/type of the winning definition "
                    f"(id {w['id']}, size {w['size']}, type {sym.type}); entries: {got}")
            elif len(hits) > 1:
                bad["winner-twice"] = f"{sym.name}: {len(hits)} entries describe the winning definition"
            else:
                h = hits[0]
                b, v = BIND.get(h.bind), VISN[h.vis]
                if in_rustvs_domain(case, syms, sym) and b != "l" and v != "h":
                    bad["rustvs"] = f"{sym.name}: hidden through another entry and listed in a global:/local:* script, entry is bind={b} vis={v}"
                elif in_href_domain(sym) and b != "l" and v != "h":
                    bad["hidden-ref"] = f"{sym.name}: a reference is hidden, entry is bind={b} vis={v}"
                # (a GLOBAL entry that carries the internal/hidden visibility is as acceptable as for hidden symbols)
                elif vis == "i" and b != "l" and v not in ("i", "h"):
                    bad["internal"] = f"{sym.name}: most constraining visibility is internal, entry is bind={b} vis={v}"
                elif b == w["bind"] and v == "d" and vis == "p" and w["vis"] == "d":
                    bad["merged-protected"] = f"{sym.name}: most constraining visibility is protected, entry says default"
                elif not (b == "l" or (b == w["bind"] and v == vis)):
                    bad["binding-visibility"] = (f"{sym.name}: entry is bind={b} vis={v}; winning binding {w['bind']}, "
                                                 f"most constraining visibility {vis}")
        # STB_LOCAL entries carrying a generated name must point at one of that name's definitions
        # (their presence is not required by the statement).
        ids = {d["id"] for d in sym.defs}
        for s in le:
            if s.shndx in (E.SHN_ABS, E.SHN_UNDEF) or s.shndx >= len(elf.sections):
                continue
            if elf.sections[s.shndx].type == E.SHT_NOBITS:
                continue
            m = _marker(elf, s)
            if m is None or m not in ids:
                bad["local-value"] = f"{sym.name}: local entry at {s.value:#x} does not point at a definition of that name (marker {m})"
    return bad


def _marker(elf, s):
    if s.shndx in (E.SHN_ABS, E.SHN_UNDEF, E.SHN_COMMON) or s.shndx >= len(elf.sections):
        return None
    sec = elf.sections[s.shndx]
    if sec.type == E.SHT_NOBITS:
        return None
    if not (sec.addr <= s.value and s.value + 8 <= sec.addr + sec.size):
        return None
    try:
        (v,) = struct.unpack("<Q", elf.read(s.value, 8))
    except E.ElfError:
        return None
    if v & ~0xffffffff == MARK:
        return v & 0xffffffff
    return None


def _describes(elf, s, sym, w):
    want_type = {"func": E.STT_FUNC, "object": E.STT_OBJECT, "notype": E.STT_NOTYPE, "abs": E.STT_NOTYPE}[sym.type]
    if s.type != want_type:
        return False
    if sym.type == "abs":
        return s.shndx == E.SHN_ABS and s.value == 0x7000 + w["id"]
    if s.size != w["size"]:
        return False
    if s.shndx >= len(elf.sections) or s.shndx in (E.SHN_ABS, E.SHN_UNDEF):
        return False
    sec = elf.sections[s.shndx]
    if not (sec.addr <= s.value and s.value + s.size <= sec.addr + sec.size):
        return False
    if w["sec"] == "bss":
        return sec.type == E.SHT_NOBITS
    return _marker(elf, s) == w["id"]


def _why(elf, cands, sym, w):
    if not cands:
        return "absent"
    want_type = {"func": E.STT_FUNC, "object": E.STT_OBJECT, "notype": E.STT_NOTYPE, "abs": E.STT_NOTYPE}[sym.type]
    if all(s.type != want_type for s in cands):
        return "type"
    if sym.type != "abs" and all(s.size != w["size"] for s in cands):
        return "size"
    return "value"


class C31(Check):
    prop = "C31"
    level = "exploration"
    technique = ("PBT with a statement-derived model (winning definition, most constraining visibility, export rules) plus "
                 "differential vs GNU ld 2.40 on the same generated objects; .symtab rules calibrated on GNU ld's output")
    rule = ("Hypothesis-generated symbol mixes (type x binding x visibility x several definitions/references per name, archive "
            "members, a dependency library that references/defines names) x output kind x export controls x strip options; "
            "non-trivial = >=1 symbol whose export status is decided by something other than its own definition's visibility "
            "(version script, exclude-libs, dynamic list, visibility merged from another entry, shared-library reference); "
            "distinct by (output kind, controls, per-symbol decision reasons)")
    assumptions = ["GNU ld 2.40 is the reference", "most constraining visibility per gABI (internal<hidden<protected<default)"]
    quick_cases = 480
    thorough_cases = 15000

    def strategy(self, tier):
        return case_strategy()

    def excluded_by_construction(self, case):
        syms = normalise(case)
        from vlib.core import still_known
        if self._internal_domain(case, syms) and still_known("C31", KNOWN_INTERNAL):
            return KNOWN_INTERNAL
        if self._prot_domain(syms):
            return KNOWN_PROT
        if self._excl_domain(case, syms):
            return KNOWN_EXCL
        if any(in_href_domain(s) for s in syms):
            return KNOWN_HREF
        if any(in_rustvs_domain(case, syms, s) for s in syms):
            return KNOWN_RUSTVS
        return None

    @staticmethod
    def _internal_domain(case, syms):
        """Exact domain of the known finding: a loaded symbol whose most constraining visibility is
        STV_INTERNAL (wild maps STV_INTERNAL to default: exported, GLOBAL DEFAULT in .symtab)."""
        return any(merged_visibility(s) == "i" for s in syms if winner(s) is not None)

    @staticmethod
    def _prot_domain(syms):
        """Known finding: the most constraining visibility is STV_PROTECTED but the winning
        definition's own st_other is STV_DEFAULT (wild writes the winner's own visibility)."""
        return any(winner(s) is not None and merged_visibility(s) == "p" and winner(s)["vis"] == "d" for s in syms)

    @staticmethod
    def _excl_domain(case, syms):
        """Known finding: --exclude-libs only takes effect for the implicit export-everything of
        -shared; an excluded archive member's default/protected symbol is still exported when any
        other route asks for it (--export-dynamic, a matching --dynamic-list /
        --export-dynamic-symbol entry, a shared library on the link line referencing it)."""
        return in_excl_domain(case, syms)

    def run_case(self, case, ctx):
        d = ctx.dir
        syms = normalise(case)
        objs = build_inputs(case, syms, d)
        args = link_args(case, syms, d)
        rl = patient.link("ld", [*args, *objs, "-o", "out.ld"], cwd=d)
        if rl.rc != 0:
            raise Discard("GNU ld rejects: " + (rl.err.strip().split("\n")[-1].split(": ", 1)[-1])[:40])
        rw = patient.link("wild", [*args, *objs, "-o", "out.wild"], cwd=d)
        if rw.timed_out:
            raise Inconclusive("wild timed out")
        if rw.rc != 0:
            if "panicked at" in rw.err or rw.rc < 0:
                raise Violation("crash", f"wild crashed: {rw.err[-300:]}")
            raise Discard("wild rejects: " + rw.err.strip().split("\n")[-1][:50])
        el, ew = Elf(f"{d}/out.ld"), Elf(f"{d}/out.wild")
        classes = [f"out:{case['out']}", f"strip:{case['strip']}"]

        # ---- (1) .symtab rules, calibrated on GNU ld's output --------------------------------
        has_l = any(s.type == E.SHT_SYMTAB for s in el.sections)
        has_w = any(s.type == E.SHT_SYMTAB for s in ew.sections)
        pl = symtab_problems(el, syms, case)
        pw = symtab_problems(ew, syms, case)
        for rule in sorted(pw):
            base = rule.split(":")[0]
            if any(r.split(":")[0] == base for r in pl):
                classes.append("symtab-rule-flags-ld:" + base)
                continue
            sig = {"merged-protected": KNOWN_PROT, "internal": KNOWN_INTERNAL, "hidden-ref": KNOWN_HREF, "rustvs": KNOWN_RUSTVS}.get(rule, "symtab:" + rule)
            raise Violation(sig, pw[rule], {"args": args})
        if has_w and not has_l:
            classes.append("symtab-only-wild")

        # ---- (2)+(3) export set ---------------------------------------------------------------
        must, why = model_exports(case, syms)
        dl, dw = dyn_view(el), dyn_view(ew)
        defs_l = {t[0] for t in dl if t[4]}
        defs_w = {t[0] for t in dw if t[4]}
        model_defs = set(must)
        ambiguous = {n for n, r in why.items() if r == "ambiguous"}
        if (defs_l - ambiguous) != (model_defs - ambiguous):
            diff = sorted((defs_l ^ model_defs) - ambiguous)
            reasons = sorted({why.get(n, "plain") for n in diff})
            raise OracleSplit(f"export model vs GNU ld differ on {diff[:4]} ({reasons}); out={case['out']} args={args}")
        if defs_w != defs_l:
            extra, missing = sorted(defs_w - defs_l), sorted(defs_l - defs_w)
            n = (extra or missing)[0]
            sym = next(s for s in syms if s.name == n)
            if merged_visibility(sym) == "i":
                sig = KNOWN_INTERNAL
            elif extra and in_href_domain(sym):
                sig = KNOWN_HREF
            elif extra and in_rustvs_domain(case, syms, sym):
                sig = KNOWN_RUSTVS
            elif extra and why.get(n) == "exclude-libs" and excl_route(case, syms, sym):
                sig = KNOWN_EXCL
            else:
                sig = ("exported-but-must-not:" if extra else "not-exported:") + why.get(n, "plain")
            raise Violation(sig, f"out={case['out']}: .dynsym definitions differ from GNU ld and the statement's model: "
                            f"extra {extra}, missing {missing} (reason for {n}: {why.get(n, 'own visibility')})", {"args": args})
        # imports and attributes: differential on generated names
        und_l = {t[0] for t in dl if not t[4]}
        und_w = {t[0] for t in dw if not t[4]}
        model_und = self._model_imports(case, syms)
        if und_l != model_und:
            raise OracleSplit(f"import model vs GNU ld: model {sorted(model_und)} ld {sorted(und_l)}")
        if und_w != und_l:
            raise Violation("imports", f"undefined .dynsym entries differ: GNU ld+model {sorted(und_l)}, wild {sorted(und_w)}",
                            {"args": args})
        # attributes of exported definitions: model = the winner's type/binding, merged visibility
        want = set()
        for s in syms:
            if s.name in defs_l:
                w = winner(s)
                want.add((s.name, "notype" if s.type == "abs" else s.type, w["bind"], merged_visibility(s), True))
        got_l = {t for t in dl if t[4]}
        got_w = {t for t in dw if t[4]}
        if got_l != want:
            raise OracleSplit(f"attribute model vs GNU ld: {sorted(got_l ^ want)[:4]}")
        if got_w != got_l:
            only_prot = all(t[3] == "p" and (t[0], t[1], t[2], "d", True) in got_w and
                            winner(next(x for x in syms if x.name == t[0]))["vis"] == "d" for t in got_l - got_w)
            raise Violation(KNOWN_PROT if only_prot else "dynsym-attributes", f".dynsym entry attributes differ: GNU ld+model {sorted(got_l - got_w)}, "
                            f"wild {sorted(got_w - got_l)}", {"args": args})
        # dynsym values must be the winner's final address too
        for s in ew.dynsym()[1:]:
            if s.defined and s.name in defs_w:
                sym = next(x for x in syms if x.name == s.name)
                if not _describes(ew, s, sym, winner(sym)):
                    raise Violation("dynsym-value", f".dynsym entry {s.name} does not describe the winning definition: {s}")

        reasons = sorted(set(why.values()) - {"exe-not-requested"})
        classes += ["why:" + r for r in reasons]
        if any(len([d for d in s.defs if d["bind"] != "l"]) > 1 for s in syms):
            classes.append("multi-def")
        if any(d["bind"] == "l" for s in syms for d in s.defs):
            classes.append("local-defs")
        if und_l:
            classes.append("imports")
        nontrivial = bool(reasons)
        key = f"{case['out']}|{case['strip']}|{sorted(why.items())}|{sorted((s.type, tuple((d['bind'], d['vis']) for d in s.defs)) for s in syms)}"
        return {"nontrivial": nontrivial, "key": key, "classes": classes,
                "counters": {"exported": len(defs_l), "symbols": len(syms)}}

    @staticmethod
    def _model_imports(case, syms):
        out = set()
        for k, imp in enumerate(case["imports"]):
            out.add(f"dimp{k}")
        if case["out"] == "shared":
            for k in range(case["unresolved"]):
                out.add(f"unres{k}")
        return out


CHECK = C31()
