"""C30 — Constructor and destructor order matches GNU ld.

Domain: 2-7 translation units (C compiled by gcc / clang / clang -fno-use-init-array, and GNU-as
text) placed as plain objects, archive members (referenced or not) or members of one shared
library; each contributes 0-5 entries to .preinit_array, .init_array[.N], .fini_array[.N],
.ctors[.N], .dtors[.N] with priorities from {none,0,1,100,101,65534,65535, a few others,
duplicates}, suffixes zero-padded or not; output kinds non-PIE / PIE / static / static-pie,
--gc-sections on/off.
Oracle: the statement names GNU ld as the reference: the stdout sequence (each entry prints its
unique id; main prints `main`) of the wild-linked program must equal that of the GNU-ld-linked
program, and (static cross-check) the words of every array section of wild's output mapped to
entry ids through .symtab must be the sequence in GNU ld's output.  Cases GNU ld rejects or whose
GNU-ld-linked program does not exit 0 are discarded.
"""
import os
import re

from hypothesis import strategies as st

from vlib import patient, tools
from vlib.core import Check, Discard, Inconclusive, OracleSplit, Violation
from vlib import elf as E
from vlib.elf import Elf

PRIOS = [None, 0, 1, 100, 101, 65534, 65535]
ARRAYS_ASM = ["init", "fini", "ctors", "dtors", "preinit"]
SECNAME = {"init": ".init_array", "fini": ".fini_array", "ctors": ".ctors", "dtors": ".dtors",
           "preinit": ".preinit_array"}


def entry_strategy():
    prio = st.one_of(st.sampled_from(PRIOS), st.sampled_from(PRIOS), st.sampled_from([2, 99, 102, 1000, 32767, 32768, 65533]))
    return st.fixed_dictionaries({
        "arr": st.sampled_from(["init", "init", "fini", "fini", "ctors", "dtors", "preinit"]),
        "prio": prio,
        "pad": st.booleans(),
        # same section as the TU's previous entry (several entries in one input section: the
        # intra-section order, reversed for .ctors/.dtors, becomes observable)
        "dup": st.sampled_from([False, False, True]),
    })


def tu_strategy():
    return st.fixed_dictionaries({
        "kind": st.sampled_from(["gcc", "asm", "asm", "clang", "clang-ctors"]),
        "where": st.sampled_from(["obj", "obj", "obj", "ar0", "ar0", "ar1", "so"]),
        "ref": st.sampled_from([True, True, True, False]),
        "entries": st.lists(entry_strategy(), min_size=0, max_size=5),
        # asm TUs only: the object's .init_array* / .fini_array* / .preinit_array* sections carry sh_type
        # SHT_PROGBITS, as older compilers and assemblers that do not special-case the names emit them
        # (GNU as overrides an explicit @progbits, so the object file is patched after assembling).
        # Linkers place these sections by name; GNU ld stays the reference.
        "untyped": st.sampled_from([False, False, False, True]),
    })


def case_strategy():
    return st.fixed_dictionaries({
        "mode": st.sampled_from(["nopie", "pie", "nopie", "pie", "static", "static-pie"]),
        "gc": st.booleans(),
        "whole": st.booleans(),
        "tus": st.lists(tu_strategy(), min_size=2, max_size=7),
    })


def normalise(case):
    """Returns list of TUs with resolved entries: (id, array, prio, pad). C TUs only have
    init/fini (constructor/destructor attribute); shared-library TUs have no preinit; in static
    modes the shared library's TUs are plain objects."""
    out = []
    eid = 0
    static = case["mode"].startswith("static")
    for i, tu in enumerate(case["tus"]):
        where = tu["where"]
        if where == "so" and static:
            where = "obj"
        ents = []
        for e in tu["entries"]:
            arr, prio = e["arr"], e["prio"]
            if e.get("dup") and ents:
                arr, prio, e = ents[-1]["arr"], ents[-1]["prio"], {**e, "pad": ents[-1]["pad"]}
            if tu["kind"] != "asm":
                arr = {"ctors": "init", "dtors": "fini", "preinit": "init"}.get(arr, arr)
            if arr == "preinit":
                prio = None
                if where == "so":
                    arr = "init"
            eid += 1
            ents.append({"id": eid, "arr": arr, "prio": prio, "pad": e["pad"]})
        out.append({"i": i, "kind": tu["kind"], "where": where, "ref": tu["ref"], "entries": ents,
                    "untyped": bool(tu.get("untyped")) and tu["kind"] == "asm"})
    return out


def c_source(tu):
    lines = ["long write(int, const void *, unsigned long);", f"void anchor{tu['i']}(void) {{}}"]
    for e in tu["entries"]:
        attr = "constructor" if e["arr"] == "init" else "destructor"
        if e["prio"] is not None:
            attr += f"({e['prio']})"
        msg = f"{e['id']}\\n"
        lines.append(f"__attribute__(({attr})) void E{e['id']}(void) {{ write(1, \"{msg}\", {len(str(e['id'])) + 1}); }}")
    return "\n".join(lines) + "\n"


def asm_source(tu):
    out = [".text", f".globl anchor{tu['i']}", f".type anchor{tu['i']},@function", f"anchor{tu['i']}:", "  ret"]
    for e in tu["entries"]:
        n = e["id"]
        s = f"{n}\\n"
        out += [f".globl E{n}", f".type E{n},@function", f"E{n}:",
                "  movl $1, %eax", "  movl $1, %edi", f"  leaq .Lm{n}(%rip), %rsi", f"  movl ${len(str(n)) + 1}, %edx",
                "  syscall", "  ret", f".size E{n}, .-E{n}"]
    out.append(".section .rodata.msgs,\"a\",@progbits")
    for e in tu["entries"]:
        out.append(f".Lm{e['id']}: .ascii \"{e['id']}\\n\"")
    for e in tu["entries"]:
        name = SECNAME[e["arr"]]
        if e["prio"] is not None:
            name += "." + (f"{e['prio']:05d}" if e["pad"] else str(e["prio"]))
        ty = {"init": "@init_array", "fini": "@fini_array", "preinit": "@preinit_array"}.get(e["arr"], "@progbits")
        out += [f".section {name},\"aw\",{ty}", "  .p2align 3", f"  .quad E{e['id']}"]
    out.append(".section .note.GNU-stack,\"\",@progbits")
    return "\n".join(out) + "\n"


def untype_array_sections(path):
    """Sets sh_type = SHT_PROGBITS on every .init_array* / .fini_array* / .preinit_array* section of an
    ELF64 little-endian relocatable object. Returns the number of headers changed."""
    import struct
    b = bytearray(open(path, "rb").read())
    shoff, = struct.unpack_from("<Q", b, 0x28)
    shentsize, shnum, shstrndx = struct.unpack_from("<HHH", b, 0x3a)
    stroff, = struct.unpack_from("<Q", b, shoff + shstrndx * shentsize + 0x18)
    n = 0
    for i in range(shnum):
        h = shoff + i * shentsize
        name_off, = struct.unpack_from("<I", b, h)
        end = b.index(0, stroff + name_off)
        name = bytes(b[stroff + name_off:end]).decode()
        if name.startswith((".init_array", ".fini_array", ".preinit_array")):
            struct.pack_into("<I", b, h + 4, 1)
            n += 1
    open(path, "wb").write(bytes(b))
    return n


def array_words(elf):
    """{section name: [entry ids / None]} for the array sections of a linked output."""
    rel = {}
    named = {}
    dyn = elf.dynsym()
    for r in elf.all_dyn_relas():
        if r.type == E.R_X86_64_RELATIVE:
            rel[r.offset] = r.addend
        elif r.type == E.R_X86_64_64 and r.sym < len(dyn) and r.addend == 0:
            # preemptible function in a shared object: symbolic relocation
            m = re.fullmatch(r"E(\d+)", dyn[r.sym].name)
            if m:
                named[r.offset] = int(m.group(1))
    byaddr = {}
    for s in elf.symtab():
        if re.fullmatch(r"E\d+", s.name) and s.defined:
            byaddr[s.value] = int(s.name[1:])
    res = {}
    for sec in elf.sections:
        if sec.name in (".preinit_array", ".init_array", ".fini_array", ".ctors", ".dtors") and sec.size:
            ws = []
            for a in range(sec.addr, sec.addr + sec.size, 8):
                if a in named:
                    ws.append(named[a])
                    continue
                v = rel.get(a)
                if v is None:
                    v = elf.read_u64(a)
                ws.append(byaddr.get(v & ((1 << 64) - 1)))
            res[sec.name] = [w for w in ws if w is not None]
    return res


FAMILY = {".init_array": "init", ".ctors": "init", ".fini_array": "fini", ".dtors": "fini", ".preinit_array": "preinit"}


def split_name(name):
    """(.base, suffix or None) for an array input-section name, else None."""
    for base in FAMILY:
        if name == base:
            return base, None
        if name.startswith(base + ".") and name[len(base) + 1:].isdigit():
            return base, int(name[len(base) + 1:])
    return None


def predicted_secname(kind, e):
    """Input section name the TU's producer gives this entry (checked against the real object)."""
    arr, p = e["arr"], e["prio"]
    if kind == "asm":
        return SECNAME[arr] + ("" if p is None else "." + (f"{p:05d}" if e["pad"] else str(p)))
    if p is None or p == 65535:
        return {"init": ".init_array", "fini": ".fini_array"}[arr] if kind != "clang-ctors" else \
               {"init": ".ctors", "fini": ".dtors"}[arr]
    if kind == "gcc":
        return f"{SECNAME[arr]}.{p:05d}"
    if kind == "clang":
        return f"{SECNAME[arr]}.{p}"
    return {"init": ".ctors", "fini": ".dtors"}[arr] + f".{65535 - p}"


def object_arrays(path):
    """[(section name, [entry ids in section order])] in section-header order, from the object's
    own relocations."""
    elf = Elf(path)
    syms = elf.symtab()
    out = []
    for sec in elf.sections:
        if sec.type != E.SHT_RELA:
            continue
        tgt = elf.sections[sec.info]
        if split_name(tgt.name) is None:
            continue
        ids = []
        for r in sorted(elf.relas(sec), key=lambda r: r.offset):
            nm = syms[r.sym].name
            if not re.fullmatch(r"E\d+", nm) or r.addend != 0:
                raise Inconclusive(f"unexpected relocation in {tgt.name} of {path}: {nm}+{r.addend}")
            ids.append(int(nm[1:]))
        out.append((tgt.index, tgt.name, ids))
    out.sort()
    return [(n, ids) for _, n, ids in out]


def model_order(files):
    """The statement's rule on a module's loaded objects (input order): priority suffix order, then
    input order; legacy .ctors.N/.dtors.N count as priority 65535-N and their contents run
    backwards.  Unsuffixed sections follow all suffixed ones (the statement is silent on suffix
    65535 versus no suffix; GNU ld's choice is taken, see known finding).
    Returns ({output section: [ids]}, tie_by_name) where tie_by_name says that two sections of equal
    priority and different names are present in one family (GNU ld orders those by name)."""
    secs = {"init": [], "fini": [], "preinit": []}
    n = 0
    for f in files:
        for name, ids in object_arrays(f):
            base, suf = split_name(name)
            fam = FAMILY[base]
            legacy = base in (".ctors", ".dtors")
            if legacy:
                ids = ids[::-1]
            if fam == "preinit":
                if suf is not None:
                    continue
                key = (0, 0, n)
            elif suf is None:
                key = (1, 0, n)
            else:
                key = (0, (65535 - suf) if legacy else suf, n)
            secs[fam].append((key, name, ids))
            n += 1
    out = {}
    tie = False
    for fam, lst in secs.items():
        lst.sort(key=lambda t: t[0])
        seq = [i for _, _, ids in lst for i in ids]
        if seq:
            out[{"init": ".init_array", "fini": ".fini_array", "preinit": ".preinit_array"}[fam]] = seq
        names = {}
        for key, name, ids in lst:
            if key[0] == 0 and fam != "preinit" and ids:
                names.setdefault(key[1], set()).add(name)
        tie |= any(len(v) > 1 for v in names.values())
    return out, tie


KNOWN_65535 = "suffix65535-vs-unsuffixed"


def is_loaded(case, tu):
    return tu["where"] in ("obj", "so") or tu["ref"] or (tu["where"] == "ar1" and case["whole"])


def module_order(case, tus, mod):
    """Loaded TUs of a module in input order (an archive sits where its first member is listed;
    members in archive order)."""
    if mod == "so":
        return [tu for tu in tus if tu["where"] == "so"]
    out, seen = [], set()
    for tu in tus:
        w = tu["where"]
        if w == "obj":
            out.append(tu)
        elif w in ("ar0", "ar1") and w not in seen:
            seen.add(w)
            out += [t for t in tus if t["where"] == w and is_loaded(case, t)]
    return out


def in_65535_domain(case):
    """Exact domain of the known finding: in one module and one array family an unsuffixed input
    section precedes (input order) a section whose suffix means priority 65535 (`.init_array.65535`,
    `.fini_array.65535`, `.ctors.0`, `.dtors.0`).  GNU ld emits the suffixed one first, wild keeps
    input order."""
    tus = normalise(case)
    for mod in ("exe", "so"):
        seen_plain = {"init": False, "fini": False}
        for tu in module_order(case, tus, mod):
            order = []
            for e in tu["entries"]:
                nm = predicted_secname(tu["kind"], e)
                if nm not in order:
                    order.append(nm)
            if tu["kind"] != "asm":
                # compiler-chosen section order; C producers never emit a suffix meaning 65535.
                order.sort()
            for nm in order:
                base, suf = split_name(nm)
                fam = FAMILY[base]
                if fam == "preinit":
                    continue
                if suf is None:
                    seen_plain[fam] = True
                elif ((65535 - suf) if base in (".ctors", ".dtors") else suf) == 65535 and seen_plain[fam]:
                    return True
    return False


def predicted_stdout(stat):
    exe, so = stat["exe"], stat.get("so", {})
    return [str(x) for x in exe.get(".preinit_array", []) + so.get(".init_array", []) + exe.get(".init_array", [])] + ["main"] + \
           [str(x) for x in exe.get(".fini_array", [])[::-1] + so.get(".fini_array", [])[::-1]]


class C30(Check):
    prop = "C30"
    level = "exploration"
    technique = ("differential PBT vs GNU ld 2.40: run-time stdout sequence of constructor/destructor ids and static "
                 "array-section contents (via .symtab) of the wild-linked program must equal the GNU-ld-linked one")
    rule = ("Hypothesis-generated sets of 2-7 TUs (gcc/clang/clang -fno-use-init-array/asm; object, archive member, shared "
            "library member) with 0-5 prioritised entries each; non-trivial = >=2 loaded TUs contribute to the same array "
            "family with >=2 distinct priorities, or .ctors/.dtors and .init_array/.fini_array are mixed in one link, or a "
            ".ctors/.dtors input section holds several entries; "
            "distinct by the per-TU (kind, placement, [(array, priority)]) structure")
    assumptions = ["GNU ld 2.40 is the reference for the order", "glibc's startup code runs the arrays in the ABI order"]
    quick_cases = 224
    thorough_cases = 8000

    def strategy(self, tier):
        return case_strategy()

    def run_case(self, case, ctx):
        d = ctx.dir
        tus = normalise(case)
        mode = case["mode"]
        objs = {}
        for tu in tus:
            o = f"t{tu['i']}.o"
            pic = ["-fPIC"] if (tu["where"] == "so" or mode in ("pie", "static-pie")) else ["-fno-pic"]
            if tu["kind"] == "asm":
                patient.asm(asm_source(tu), o, cwd=d)
                if tu["untyped"]:
                    untype_array_sections(f"{d}/{o}")
            else:
                comp = "gcc" if tu["kind"] == "gcc" else "clang"
                flags = ["-O1", "-w", *pic]
                if tu["kind"] == "clang-ctors":
                    flags.append("-fno-use-init-array")
                patient.cc(c_source(tu), o, flags=flags, cwd=d, compiler=comp)
            objs[tu["i"]] = o
        main = ["long write(int, const void *, unsigned long);"]
        calls = []
        for tu in tus:
            if tu["ref"] or tu["where"] == "so":
                main.append(f"void anchor{tu['i']}(void);")
                calls.append(f"anchor{tu['i']}();")
        main.append("int main(void) { write(1, \"main\\n\", 5); " + " ".join(calls) + " return 0; }")
        patient.cc("\n".join(main) + "\n", "main.o", flags=["-O1", "-fPIC" if mode in ("pie", "static-pie") else "-fno-pic"], cwd=d)
        for a in ("ar0", "ar1"):
            mem = [objs[tu["i"]] for tu in tus if tu["where"] == a]
            if mem:
                patient.ar(f"lib{a}.a", mem, cwd=d)
        so_members = [objs[tu["i"]] for tu in tus if tu["where"] == "so"]

        res = {}
        for linker in ("ld", "wild"):
            sub = f"{d}/{linker}"
            os.mkdir(sub)
            gc = ["-Wl,--gc-sections"] if case["gc"] else []
            if so_members:
                r = patient.cc_link(linker, ["-shared", "-o", f"{linker}/libso.so", *so_members, *gc], cwd=d)
                self._link_ok(linker, r, "shared library")
            args = {"nopie": ["-no-pie"], "pie": ["-pie"], "static": ["-static"], "static-pie": ["-static-pie"]}[mode]
            args = [*args, "-o", f"{linker}/exe", "main.o", *gc]
            seen = set()
            for tu in tus:
                w = tu["where"]
                if w == "obj":
                    args.append(objs[tu["i"]])
                elif w in ("ar0", "ar1") and w not in seen:
                    seen.add(w)
                    if case["whole"] and w == "ar1":
                        args += ["-Wl,--whole-archive", f"lib{w}.a", "-Wl,--no-whole-archive"]
                    else:
                        args.append(f"lib{w}.a")
                elif w == "so" and "so" not in seen:
                    seen.add("so")
                    args.append(f"{linker}/libso.so")
            r = patient.cc_link(linker, args, cwd=d)
            self._link_ok(linker, r, "executable")
            run = patient.run_exe(f"{sub}/exe", cwd=d, env={"LD_LIBRARY_PATH": sub})
            statics = {"exe": array_words(Elf(f"{sub}/exe"))}
            if so_members:
                statics["so"] = array_words(Elf(f"{sub}/libso.so"))
            res[linker] = (run, statics)

        ldrun, ldstat = res["ld"]
        wrun, wstat = res["wild"]
        if ldrun.rc != 0 or ldrun.timed_out:
            raise Discard(f"GNU-ld-linked program exits {ldrun.rc}")
        info = self._classify(case, tus)
        # Model of the statement's rule, from the objects themselves.
        mods = {"exe": [objs[tu["i"]] for tu in module_order(case, tus, "exe")]}
        if so_members:
            mods["so"] = [objs[tu["i"]] for tu in module_order(case, tus, "so")]
        for mod, files in mods.items():
            model, tie = model_order([f"{d}/{f}" for f in files])
            la = {k: v for k, v in ldstat[mod].items() if v}
            wa = {k: v for k, v in wstat[mod].items() if v}
            if model != la:
                if tie:
                    info_cls = "split:equal-priority-different-names"
                else:
                    info_cls = "split:other"
                raise OracleSplit(f"{info_cls}: {mod}: statement's rule gives {model}, GNU ld {la}")
            if la != wa:
                sec = next(s for s in sorted(set(la) | set(wa)) if la.get(s) != wa.get(s))
                sig = KNOWN_65535 if in_65535_domain(case) else f"static-order:{sec}"
                raise Violation(sig, f"{mod}: entry order in {sec} differs: GNU ld (and the statement's rule) "
                                f"{la.get(sec)}, wild {wa.get(sec)}", {"ld": la, "wild": wa})
        expect = predicted_stdout(ldstat)
        if ldrun.out.split() != expect:
            raise OracleSplit(f"split:runtime: GNU-ld-linked program printed {ldrun.out.split()}, its arrays imply {expect}")
        if wrun.timed_out:
            raise Inconclusive("wild-linked program timed out")
        if wrun.out == ldrun.out and wrun.rc != ldrun.rc:
            # same sequence, different exit status: not a question of order
            raise Discard(f"wild-linked program exits {wrun.rc} after printing the same sequence")
        if wrun.out != ldrun.out:
            raise Violation("runtime-order", f"stdout differs: GNU ld {ldrun.out.split()} rc={ldrun.rc}; wild {wrun.out.split()} rc={wrun.rc}",
                            {"ld": ldrun.out, "wild": wrun.out, "wild_err": wrun.err[-300:]})
        info["counters"] = {"entries_run": len(ldrun.out.split()) - 1}
        return info

    def excluded_by_construction(self, case):
        return KNOWN_65535 if in_65535_domain(case) else None

    @staticmethod
    def _link_ok(linker, r, what):
        if r.timed_out:
            raise Inconclusive(f"{linker} timed out linking the {what}")
        if r.rc != 0:
            if linker == "ld":
                raise Discard("GNU ld rejects the " + what)
            raise Discard(f"wild rejects the {what}: " + r.err.strip().split("\n")[-1][:50])

    @staticmethod
    def _classify(case, tus):
        classes = [f"mode:{case['mode']}"]
        fam = {"init": {}, "fini": {}}
        legacy = {"init": False, "fini": False}
        modern = {"init": False, "fini": False}
        for tu in tus:
            loaded = tu["where"] in ("obj", "so") or tu["ref"] or (tu["where"] == "ar1" and case["whole"])
            if not loaded:
                continue
            for e in tu["entries"]:
                f = {"init": "init", "ctors": "init", "fini": "fini", "dtors": "fini"}.get(e["arr"])
                if f is None:
                    classes.append("preinit")
                    continue
                mod = "so" if tu["where"] == "so" else "exe"
                eff = 65535 if e["prio"] is None else (e["prio"] if e["arr"] in ("init", "fini") else 65535 - e["prio"])
                fam[f].setdefault(mod, {}).setdefault(tu["i"], set()).add(eff)
                if e["arr"] in ("ctors", "dtors"):
                    legacy[f] = True
                else:
                    modern[f] = True
        nontrivial = False
        for f in fam:
            for mod, per_tu in fam[f].items():
                prios = set().union(*per_tu.values())
                if len(per_tu) >= 2 and len(prios) >= 2:
                    nontrivial = True
                    classes.append(f"multi-tu-multi-prio:{f}")
            if legacy[f] and modern[f]:
                nontrivial = True
                classes.append(f"mixed-legacy:{f}")
        for tu in tus:
            if is_loaded(case, tu):
                names = [predicted_secname(tu["kind"], e) for e in tu["entries"]]
                if any(n.startswith((".ctors", ".dtors")) and names.count(n) > 1 for n in names):
                    classes.append("legacy-section-with-several-entries")
                    nontrivial = True
                if tu.get("untyped") and any(n.startswith((".init_array", ".fini_array")) for n in names):
                    classes.append("untyped-array-section" + ("-with-several-entries" if any(
                        n.startswith((".init_array", ".fini_array")) and names.count(n) > 1 for n in names) else ""))
                    break
        kinds = sorted({tu["kind"] for tu in tus if tu["entries"]})
        classes += [f"kind:{k}" for k in kinds]
        classes += sorted({f"where:{tu['where'][:2]}" for tu in tus if tu["entries"]})
        if any(not tu["ref"] and tu["where"].startswith("ar") for tu in tus):
            classes.append("unreferenced-archive-member")
        key = repr([(tu["kind"], tu["where"], tu["ref"], [(e["arr"], e["prio"], e["pad"]) for e in tu["entries"]]) for tu in tus]
                   ) + case["mode"]
        return {"nontrivial": nontrivial, "key": key, "classes": classes}


CHECK = C30()
