"""C32 — Symbol versions follow the version script (GNU ld's matching precedence).

Domain: version scripts of 1-4 named nodes (optional parent dependency), or the anonymous form,
with global:/local: lists of exact names, quoted names, star globs, star-less globs (`?`, `[..]`),
`*`, and extern "C++" blocks (matched on demangled names); exported symbol sets drawn from a pool
built to collide with the patterns (a name matched by an exact entry in one node and globs in
others, by globs of several nodes, by global and local patterns, by nothing); optional `.symver`
definitions (`sv@V1` non-default + `sv@@V2` default) and references to versioned symbols of a
GNU-ld-built dependency library (verneed).

Oracle: differential vs GNU ld 2.40 on the same script and objects (the statement names GNU ld's
precedence): per generated symbol exported-or-not, version name and hidden bit; verdef list
(index, names = node + parent, BASE on index 1, vd_hash); verneed (file, version names) and
versym<->vna_other linkage; internal consistency (vlib.elfver).  A model of GNU ld's
documented/observable rule (first exact match in script order; otherwise the last node with a
matching non-`*` wildcard, a global one anywhere being preferred over local ones; otherwise `*`)
must agree with GNU ld, else the case is an oracle split.  Scripts GNU ld rejects are discarded.
"""
import fnmatch

from hypothesis import strategies as st

from vlib import patient, tools
from vlib import elf as E
from vlib.core import Check, Discard, Inconclusive, OracleSplit, Violation
from vlib.elf import Elf
from vlib.elfver import VER_FLG_BASE, Versions

# name -> demangled
POOL = {
    "foo": "foo", "foo1": "foo1", "foo2": "foo2", "food": "food", "bar": "bar", "bar1": "bar1", "baz": "baz",
    "fbar": "fbar", "qux": "qux", "ab": "ab", "a1": "a1", "b_c": "b_c",
    "_ZN2ns3fooEi": "ns::foo(int)", "_ZN2ns3barEv": "ns::bar()", "_Z3fooi": "foo(int)", "_Z4quuxv": "quux()",
}
NAMES = list(POOL)
POOL.update({"sv": "sv", "sv_new": "sv_new", "sv_old": "sv_old"})     # .symver group (not drawn as plain symbols)
C_PATTERNS = (["foo", "foo1", "foo2", "food", "bar", "bar1", "baz", "fbar", "qux", "ab", "a1", "b_c", "_Z3fooi", "_ZN2ns3barEv"]
              + ["foo*", "f*", "*bar", "b*", "*1", "*a*", "ba*", "*oo*", "_Z*", "*ns*"]
              + ["ba?", "?oo", "fo[o]", "[ab]1", "foo?", "ba[rz]", "??", "a?", "?ar", "f[a-z]o[0-9]"]
              + ["f?o*", "?a*", "*o?"]
              + ["*", "*"])
CXX_PATTERNS = ["ns::foo(int)", "ns::bar()", "foo(int)", "quux()", "ns::*", "ns::b*", "foo*", "qu?x*", "ns::???*", "f??*", "*", "bar"]
KNOWN_TIER = "wildcard-precedence:starless-glob-tier"
KNOWN_GLOBAL = "wildcard-precedence:global-over-later-local"
KNOWN_SYMVER = "symver-default-made-local-by-wildcard"
KNOWN_SYMVER_OLD = "symver-nondefault-local-in-own-node"
KNOWN_CXXLOCAL = "exact-cxx-global-vs-plain-local-same-node"


def pattern_strategy():
    c = st.fixed_dictionaries({"lang": st.just("c"), "text": st.sampled_from(C_PATTERNS), "quoted": st.sampled_from([False] * 5 + [True])})
    x = st.fixed_dictionaries({"lang": st.just("cxx"), "text": st.sampled_from(CXX_PATTERNS), "quoted": st.sampled_from([False, True])})
    return st.one_of(c, c, c, c, x)


def node_strategy():
    return st.fixed_dictionaries({
        "global": st.lists(pattern_strategy(), min_size=1, max_size=5),
        "local": st.lists(pattern_strategy(), max_size=3),
        "parent": st.integers(0, 5),      # 0..: index into earlier nodes, or none when >= number of earlier nodes
    })


def case_strategy():
    return st.fixed_dictionaries({
        "anon": st.sampled_from([False] * 6 + [True]),
        "nodes": st.one_of(st.lists(node_strategy(), min_size=1, max_size=4), st.lists(node_strategy(), min_size=2, max_size=4),
                           st.lists(node_strategy(), min_size=3, max_size=4)),
        "syms": st.lists(st.sampled_from(NAMES), min_size=6, max_size=12, unique=True),
        "symver": st.sampled_from([0, 0, 1, 2]),     # 0 none, 1 sv@@<last node>, 2 sv@<first> + sv@@<last>
        "needs": st.lists(st.sampled_from(["dep1", "dep2", "dep3"]), max_size=3, unique=True),
        "raw": st.sampled_from([False] * 11 + [True]),
    })


def is_literal(p):
    return p["quoted"] or not any(ch in p["text"] for ch in "*?[")


def kind(p):
    """exact | starless | star | all  (wild's three tiers; GNU ld/lld only know exact, non-`*` wildcard, `*`)"""
    if is_literal(p):
        return "exact"
    if p["text"] == "*":
        return "all"
    return "star" if "*" in p["text"] else "starless"


def matches(p, name):
    subject = POOL[name] if p["lang"] == "cxx" else name
    if is_literal(p):
        return p["text"] == subject
    return fnmatch.fnmatchcase(subject, p["text"])


def sanitise(case):
    """Nodes with the patterns GNU ld would call duplicates removed: a pattern text may be used in
    global lists or in local lists of the script, not both (GNU ld: `duplicate expression`); `*`
    at most once per script."""
    used = {}
    nodes = []
    src = case["nodes"][:1] if case["anon"] else case["nodes"]
    for i, n in enumerate(src):
        out = {"name": f"V{i + 1}", "global": [], "local": [], "parent": None}
        if not case["anon"] and i > 0 and n["parent"] < i:
            out["parent"] = n["parent"]
        for sec in ("global", "local"):
            for p in n[sec]:
                key = (p["lang"], p["text"], is_literal(p))
                if p["text"] == "*" and not p["quoted"]:
                    key = ("any", "*", False)
                    if key in used:
                        continue
                if used.get(key, sec) != sec:
                    continue
                if is_literal(p) and not case["raw"]:
                    # one symbol, two spellings (mangled / demangled): keep them on one side too
                    tk = ("lit", tuple(n for n in POOL if matches(p, n)))
                    if tk[1] and used.get(tk, sec) != sec:
                        continue
                    used[tk] = sec
                used[key] = sec
                if p not in out[sec]:
                    out[sec].append(p)
        nodes.append(out)
    return nodes


def rule_gnu(nodes, name):
    """GNU ld (bfd_find_version_for_sym): first literal match in script order (a node's globals
    before its locals); else last node with a matching non-`*` global wildcard; else last node with
    a matching non-`*` local wildcard; else `*` global, else `*` local."""
    g = l = sg = sl = None
    for i, n in enumerate(nodes):
        hit = [p for p in n["global"] if matches(p, name)]
        if any(is_literal(p) for p in hit):
            return ("global", i)
        for p in hit:
            if kind(p) == "all":
                sg = i
            else:
                g = i
        hit = [p for p in n["local"] if matches(p, name)]
        if any(is_literal(p) for p in hit):
            return ("local", i)
        for p in hit:
            if kind(p) == "all":
                sl = i
            else:
                l = i
    if g is not None:
        return ("global", g)
    if l is not None:
        return ("local", l)
    if sg is not None:
        return ("global", sg)
    if sl is not None:
        return ("local", sl)
    return None


def rule_tiers(nodes, name, tiers):
    """lld-style: first exact; then per tier (a set of pattern kinds) the last node with a match, a
    node's globals before its locals."""
    for i, n in enumerate(nodes):
        for sec in ("global", "local"):
            if any(is_literal(p) and matches(p, name) for p in n[sec]):
                return (sec, i)
    for tier in tiers:
        for i in range(len(nodes) - 1, -1, -1):
            for sec in ("global", "local"):
                if any(kind(p) in tier and matches(p, name) for p in nodes[i][sec]):
                    return (sec, i)
    return None


def rule_lld(nodes, name):
    return rule_tiers(nodes, name, [{"starless", "star"}, {"all"}])


def rule_three_tier(nodes, name):
    return rule_tiers(nodes, name, [{"starless"}, {"star"}, {"all"}])


def cxx_local_class(nodes, name):
    """First node with a literal match of `name` has it as extern "C++" literal in global: and as plain
    literal in local: (and no plain literal in global:): GNU ld looks at globals first, wild tries the
    plain spellings of both lists before the demangled ones."""
    for n in nodes:
        gl = [p for p in n["global"] if is_literal(p) and matches(p, name)]
        ll = [p for p in n["local"] if is_literal(p) and matches(p, name)]
        if gl or ll:
            return bool(gl) and all(p["lang"] == "cxx" for p in gl) and any(p["lang"] == "c" for p in ll)
    return False


def divergence_class(nodes, name):
    """Known-finding class of a symbol by its match structure, or None."""
    if cxx_local_class(nodes, name):
        return KNOWN_CXXLOCAL
    g = rule_gnu(nodes, name)
    if g != rule_lld(nodes, name):
        return KNOWN_GLOBAL
    if g != rule_three_tier(nodes, name):
        return KNOWN_TIER
    return None


def symver_class(nodes, symver=1):
    """Known-finding class of the `.symver sv_new, sv@@Vlast` (+ `sv_old, sv@Vfirst`) group, or None:
    the script's precedence makes the bare name `sv` local, but not through the local: list of the
    node the symbol is explicitly bound to (GNU ld and lld consult only that node and still export
    sv@@Vn; wild applies the script-wide verdict and makes it local); or one of the group's names
    falls in a wildcard-precedence class."""
    for n in ("sv", "sv_new", "sv_old"):
        c = divergence_class(nodes, n)
        if c is not None:
            return c
    r = rule_gnu(nodes, "sv")
    if r is not None and r[0] == "local":
        used = [nodes[-1]] + ([nodes[0]] if symver == 2 and len(nodes) > 1 else [])
        if not all(any(matches(p, "sv") for p in n["local"]) for n in used):
            return KNOWN_SYMVER
    if symver == 2 and len(nodes) > 1:
        # `.symver sv_old, sv@Vfirst`: GNU ld consults only node Vfirst; when that node's local: list
        # matches `sv` (and its global: list does not), GNU ld makes sv@Vfirst local. wild keeps it as
        # a hidden-version dynamic symbol.
        n0 = nodes[0]
        if any(matches(p, "sv") for p in n0["local"]) and not any(matches(p, "sv") for p in n0["global"]):
            return KNOWN_SYMVER_OLD
    return None


def render_script(nodes, anon):
    out = []
    for n in nodes:
        body = []
        for sec in ("global", "local"):
            if not n[sec]:
                continue
            body.append(f"  {sec}:")
            cxx = [p for p in n[sec] if p["lang"] == "cxx"]
            for p in n[sec]:
                if p["lang"] == "c":
                    body.append("    " + (f'"{p["text"]}"' if p["quoted"] else p["text"]) + ";")
            if cxx:
                body.append('    extern "C++" {')
                for p in cxx:
                    q = p["quoted"] or any(ch in p["text"] for ch in "() ") and not any(ch in p["text"] for ch in "*?[")
                    body.append("      " + (f'"{p["text"]}"' if q else p["text"]) + ";")
                body.append("    };")
        head = "" if anon else n["name"] + " "
        tail = "" if n["parent"] is None else f" V{n['parent'] + 1}"
        out.append(head + "{\n" + "\n".join(body) + "\n}" + tail + ";")
    return "\n".join(out) + "\n"


DEP_SCRIPT = "DV1 { global: dep1; }; DV2 { global: dep2; } DV1; DV3 { global: dep3; };\n"
DEP_ASM = "\n".join(f".globl {n}\n.type {n},@function\n{n}: ret\n.size {n},1" for n in ("dep1", "dep2", "dep3")) + \
    "\n.section .note.GNU-stack,\"\",@progbits\n"


def view(elf, vers, names):
    """{name: [(version or None, hidden)]} for defined generated names; undefined: {name: version}."""
    defs, und = {}, {}
    for i, s in enumerate(elf.dynsym()):
        if i == 0:
            continue
        ver, hidden, idx = vers.version_of(i)
        if s.defined and s.name in names:
            defs.setdefault(s.name, []).append((ver, hidden))
        elif not s.defined and s.name.startswith("dep"):
            und[s.name] = ver
    for v in defs.values():
        v.sort(key=lambda t: (str(t[0]), t[1]))
    return defs, und


class C32(Check):
    prop = "C32"
    level = "exploration"
    technique = ("differential PBT vs GNU ld 2.40 on generated version scripts x symbol sets x .symver/verneed, with a model of "
                 "GNU ld's matching precedence cross-checked against GNU ld; version tables validated by an independent decoder")
    rule = ("Hypothesis-generated version scripts (1-4 nodes, parents, exact/quoted/star/star-less/`*`/extern C++ patterns in "
            "global and local lists) x 3-10 symbols from a colliding pool; non-trivial = >=1 symbol matched by patterns of >=2 "
            "nodes or by both a global and a local pattern; distinct by the multiset of per-symbol match structures")
    assumptions = ["GNU ld 2.40 is the reference for precedence", "demangled names of the four C++ pool symbols are fixed"]
    quick_cases = 480
    thorough_cases = 12000

    def strategy(self, tier):
        return case_strategy()

    @staticmethod
    def _symbols(case, nodes):
        """Symbols defined in the object: in non-raw cases the ones whose match structure falls in a
        known finding's class are left out (exclusion by construction)."""
        syms = list(case["syms"])
        if not case["raw"] and not case["anon"]:
            syms = [s for s in syms if divergence_class(nodes, s) is None]
        elif not case["raw"]:
            syms = [s for s in syms if divergence_class(nodes, s) is None]
        return syms

    def excluded_by_construction(self, case):
        if not case["raw"]:
            return None
        nodes = sanitise(case)
        for s in case["syms"]:
            c = divergence_class(nodes, s)
            if c is not None:
                return c
        if case["symver"] and not case["anon"]:
            return symver_class(nodes, case["symver"])
        return None

    def run_case(self, case, ctx):
        d = ctx.dir
        nodes = sanitise(case)
        anon = case["anon"]
        syms = self._symbols(case, nodes)
        if not syms:
            raise Discard("no symbol left")
        src = [".text"]
        for s in syms:
            src += [f".globl {s}", f".type {s},@function", f"{s}:", "  ret", f".size {s}, 1"]
        symver = 0 if anon else case["symver"]
        if symver and not case["raw"] and symver_class(nodes, symver) is not None:
            symver = 0
        sv_names = []
        if symver:
            last = nodes[-1]["name"]
            src += [".globl sv_new", ".type sv_new,@function", "sv_new:", "  ret", f".symver sv_new, sv@@{last}"]
            sv_names = ["sv", "sv_new"]
            if symver == 2 and len(nodes) > 1:
                src += [".globl sv_old", ".type sv_old,@function", "sv_old:", "  ret", f".symver sv_old, sv@{nodes[0]['name']}"]
                sv_names.append("sv_old")
        for n in case["needs"]:
            src.append(f"  call {n}@PLT")
        src.append(".section .note.GNU-stack,\"\",@progbits")
        patient.asm("\n".join(src) + "\n", "a.o", cwd=d)
        inputs = ["a.o"]
        if case["needs"]:
            patient.asm(DEP_ASM, "dep.o", cwd=d)
            tools.write(f"{d}/dep.map", DEP_SCRIPT)
            tools.must(patient.link("ld", ["-shared", "-o", "libdep.so", "-soname", "libdep.so", "--version-script=dep.map", "dep.o"],
                                  cwd=d), "building libdep.so")
            inputs.append("libdep.so")
        script = render_script(nodes, anon)
        tools.write(f"{d}/v.map", script)
        args = ["-shared", "--no-gc-sections", "-soname", "libout.so", "--version-script=v.map", *inputs]
        rl = patient.link("ld", [*args, "-o", "ld.so"], cwd=d)
        if rl.rc != 0:
            raise Discard("GNU ld rejects: " + rl.err.strip().split("\n")[0].split(": ", 1)[-1][:40])
        rw = patient.link("wild", [*args, "-o", "wild.so"], cwd=d)
        if rw.timed_out:
            raise Inconclusive("wild timed out")
        if rw.rc != 0:
            if "panicked at" in rw.err or rw.rc < 0:
                raise Violation("crash", f"wild crashed: {rw.err[-300:]}", {"script": script})
            raise Discard("wild rejects: " + rw.err.strip().split("\n")[-1][:50])
        el, ew = Elf(f"{d}/ld.so"), Elf(f"{d}/wild.so")
        vl, vw = Versions(el), Versions(ew)
        if vl.problems:
            raise OracleSplit(f"consistency rules flag GNU ld's output: {vl.problems[:2]}")
        if vw.problems:
            raise Violation("tables-inconsistent:" + vw.problems[0].split(":")[0].split("=")[0][:30],
                            f"version tables of wild's output are inconsistent: {vw.problems[:3]}", {"script": script})
        names = set(syms) | set(sv_names)
        dl, ul = view(el, vl, names)
        dw, uw = view(ew, vw, names)

        # ---- model vs GNU ld ------------------------------------------------------------------
        structures = []
        classes = ["anon" if anon else f"nodes:{len(nodes)}"]
        nontrivial = False
        for s in syms:
            r = rule_gnu(nodes, s)
            if r is None:
                want = [(None, False)]
            elif r[0] == "local":
                want = None
            else:
                want = [(None if anon else nodes[r[1]]["name"], False)]
            got = dl.get(s)
            if got != want:
                raise OracleSplit(f"model of GNU ld's precedence says {s} -> {want}, GNU ld gives {got}; script:\n{script}")
            ms = self._structure(nodes, s)
            structures.append(ms)
            hit_nodes = {i for i, _sec, _k in ms}
            hit_secs = {sec for _i, sec, _k in ms}
            if len(hit_nodes) >= 2 or len(hit_secs) >= 2:
                nontrivial = True
                classes.append("multi-match")
            if r is not None and r[0] == "local":
                classes.append("made-local")
            if any(k == "exact" for _i, _s, k in ms) and len(ms) > 1:
                classes.append("exact-vs-glob")
            if any(k == "starless" for _i, _s, k in ms):
                classes.append("starless-glob")
            if any(p["lang"] == "cxx" and matches(p, s) for n in nodes for sec in ("global", "local") for p in n[sec]):
                classes.append("cxx-match")

        # ---- wild vs GNU ld: per symbol ---------------------------------------------------------
        for s in sorted(names):
            if dl.get(s) != dw.get(s):
                cls = divergence_class(nodes, s) if s in syms else symver_class(nodes, symver)
                sig = cls or ("version-mismatch:" + ("symver" if s in sv_names else self._kind(dl.get(s), dw.get(s))))
                raise Violation(sig, f"{s}: GNU ld (and the precedence model) give {dl.get(s)}, wild gives {dw.get(s)}; "
                                f"match structure {self._structure(nodes, s) if s in syms else 'symver'}", {"script": script})
        if ul != uw:
            raise Violation("verneed-symbol-version", f"versions of imported symbols differ: GNU ld {ul}, wild {uw}", {"script": script})

        # ---- verdef / verneed tables ------------------------------------------------------------
        def defs_of(v):
            return sorted((x.ndx, x.flags & VER_FLG_BASE, tuple(x.names)) for x in v.verdefs)
        want_defs = [] if anon else [(1, 1, ("libout.so",))] + [
            (i + 2, 0, (n["name"],) + ((nodes[n["parent"]]["name"],) if n["parent"] is not None else ()))
            for i, n in enumerate(nodes)]
        if defs_of(vl) != want_defs:
            raise OracleSplit(f"verdef model {want_defs} vs GNU ld {defs_of(vl)}")
        if defs_of(vw) != want_defs:
            raise Violation("verdef-table", f"version definitions differ: GNU ld+model {want_defs}, wild {defs_of(vw)}", {"script": script})

        def needs_of(v):
            return sorted((r.file, tuple(sorted(a[0] for a in r.aux))) for r in v.verneeds)
        want_needs = []
        if case["needs"]:
            want_needs = [("libdep.so", tuple(sorted({"dep1": "DV1", "dep2": "DV2", "dep3": "DV3"}[n] for n in case["needs"])))]
            classes.append("verneed")
        if needs_of(vl) != want_needs:
            raise OracleSplit(f"verneed model {want_needs} vs GNU ld {needs_of(vl)}")
        if needs_of(vw) != want_needs:
            raise Violation("verneed-table", f"version requirements differ: GNU ld+model {want_needs}, wild {needs_of(vw)}", {"script": script})
        if symver:
            classes.append(f"symver:{symver}")
        if any(n["parent"] is not None for n in nodes):
            classes.append("parent")
        key = repr(sorted(map(repr, structures))) + repr([(n["parent"]) for n in nodes]) + str(symver) + str(sorted(case["needs"]))
        return {"nontrivial": nontrivial, "key": key, "classes": sorted(set(classes)),
                "counters": {"symbols": len(syms), "dropped_known_class": len(case["syms"]) - len(syms)}}

    @staticmethod
    def _structure(nodes, name):
        out = []
        for i, n in enumerate(nodes):
            for sec in ("global", "local"):
                for p in n[sec]:
                    if matches(p, name):
                        out.append((i, sec, kind(p)))
        return sorted(set(out))

    @staticmethod
    def _kind(a, b):
        if a is None:
            return "exported-but-local"
        if b is None:
            return "local-but-exported"
        if [x[0] for x in a] != [x[0] for x in b]:
            return "node"
        return "hidden-bit"


CHECK = C32()
