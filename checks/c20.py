"""C20 — Inputs changed during a link make the link fail.

Domain (histories): a generated program whose inputs cover every input kind of the statement
(command-line object, regular archive, thin archive index file, thin-archive member, linker script
on the command line, object pulled in by the script's INPUT(), archive found via -l) × which
input is modified × the instant (hook pause point: right after that file was opened, or any later
phase boundary up to just before wild's own verification) × modification kind (rewrite in place,
append, replace by rename, touch, unlink-and-recreate, truncate) × fork/no-fork × threads.
Oracle (the statement): wild exits non-zero. A control run with the same pause but no modification
must succeed, otherwise the case is inconclusive (hook disturbed the link).
"""
import os
import shutil
import time

from hypothesis import strategies as st

from vlib import core, faults, miniprog, tools
from vlib.core import Check, Discard, Inconclusive, Violation
from vlib.elf import Elf

INPUT_KINDS = ["object", "archive", "thin-index", "thin-member", "script", "script-input", "dash-l-archive"]
FILE_OF = {"object": "o0.o", "archive": "libr.a", "thin-index": "libt.a", "thin-member": "t2.o",
           "script": "in.ld", "script-input": "o3.o", "dash-l-archive": "libl.a"}
LATER_POINTS = ["inputs-loaded", "symbols-loaded", "symbols-resolved", "sections-resolved", "layout-done",
                "output-created", "sections-written", "output-written", "before-verify-inputs"]
MODS = ["rewrite", "append", "rename-replace", "rename-replace-older", "touch", "touch-backward", "recreate", "truncate"]


def backdate(path, secs=10):
    st_ = os.stat(path)
    os.utime(path, ns=(st_.st_atime_ns - secs * 10**9, st_.st_mtime_ns - secs * 10**9))


class C20(Check):
    prop = "C20"
    level = "fault_enumeration"
    technique = "history PBT with hook pause points: modify one input at a generated instant, require non-zero exit; unmodified control run must succeed"
    rule = ("case = (program shape, modified input kind, instant, modification kind, fork mode, threads); instants are the hook "
            "pause points `opened=<file>` and every later phase boundary up to `before-verify-inputs`; non-trivial = the "
            "modification happens after the file was opened (all generated cases) and the input kind is not a plain command-line "
            "object, or the instant is after symbol loading (only the final verification can notice); distinct by "
            "(input kind, instant, modification kind, fork)")
    assumptions = ["pause points come from the cfg(wild_verif) hook build", "inputs are back-dated 10 s so any modification changes mtime",
                   "modifications after wild's own final verification are not generated (no tool could notice them)"]
    quick_cases = 320
    thorough_cases = 6000
    max_workers = 16

    def strategy(self, tier):
        return st.fixed_dictionaries({
            "strings": st.lists(st.text(alphabet="abcxyz", max_size=6), min_size=5, max_size=5),
            "which": st.sampled_from(INPUT_KINDS),
            "instant": st.sampled_from(["opened"] + LATER_POINTS),
            "mod": st.sampled_from(MODS),
            "fork": st.booleans(),
            "threads": st.sampled_from([1, 4]),
        })

    def _build(self, case, d):
        spec = {"n": 5, "calls": [[1, 2, 3, 4], [], [], [], []], "strings": case["strings"], "kind": "static", "archive": False}
        names = ["o0.o", "r1.o", "t2.o", "o3.o", "l4.o"]
        for i, n in enumerate(names):
            tools.asm(miniprog.obj_source(spec, i), n, cwd=d)
        tools.ar("libr.a", ["r1.o"], cwd=d)
        tools.ar("libt.a", ["t2.o"], cwd=d, thin=True)
        tools.ar("libl.a", ["l4.o"], cwd=d)
        os.unlink(f"{d}/r1.o")
        os.unlink(f"{d}/l4.o")
        tools.write(f"{d}/in.ld", "/* verif script */\nINPUT(o3.o)\n")
        for f in ("o0.o", "libr.a", "libt.a", "t2.o", "in.ld", "o3.o", "libl.a"):
            backdate(f"{d}/{f}")
        return ["o0.o", "libr.a", "libt.a", "in.ld", "-L.", "-ll"], spec

    def _modify(self, d, fname, mod):
        path = f"{d}/{fname}"
        data = open(path, "rb").read()
        if mod == "rewrite":
            new = bytearray(data)
            pos = None
            if data[:4] == b"\x7fELF":
                e = Elf(data)
                for s in e.sections:
                    if s.name.startswith(".rodata") and s.size:
                        pos = s.offset
                        break
            if pos is None:
                pos = data.find(b"verif")
                pos = pos if pos >= 0 else len(data) - 1
            new[pos] = new[pos] ^ 0x20 if new[pos] != 0 else 0x41
            with open(path, "r+b") as f:
                f.write(new)
        elif mod == "append":
            with open(path, "ab") as f:
                f.write(b"\n" if fname.endswith(".ld") else b"\0" * 8)
        elif mod == "truncate":
            with open(path, "r+b") as f:
                f.truncate(max(1, len(data) // 2))
        elif mod == "rename-replace":
            tmp = path + ".new"
            with open(tmp, "wb") as f:
                f.write(data)
            os.rename(tmp, path)
        elif mod == "rename-replace-older":
            # Replacement that carries an *older* timestamp (an artefact restored from a build cache, `cp -p`).
            tmp = path + ".new"
            with open(tmp, "wb") as f:
                f.write(data)
            st_ = os.stat(path)
            os.utime(tmp, ns=(st_.st_atime_ns - 3600 * 10**9, st_.st_mtime_ns - 3600 * 10**9))
            os.rename(tmp, path)
        elif mod == "touch":
            os.utime(path, None)
        elif mod == "touch-backward":
            st_ = os.stat(path)
            os.utime(path, ns=(st_.st_atime_ns, st_.st_mtime_ns - 3600 * 10**9))
        elif mod == "recreate":
            os.unlink(path)
            with open(path, "wb") as f:
                f.write(data)
        else:
            raise ValueError(mod)

    def excluded_by_construction(self, case):
        return None

    def run_case(self, case, ctx):
        d = ctx.dir
        args, spec = self._build(case, d)
        fname = FILE_OF[case["which"]]
        point = f"opened={fname}" if case["instant"] == "opened" else case["instant"]
        cmd = [tools.linker_path("wild"), *args, f"--threads={case['threads']}", "-o", "out"]
        if not case["fork"]:
            cmd.append("--no-fork")

        def paused_run(modify):
            pz = faults.Pause(d, point)
            state = {"reached": False}

            def on_started(p):
                if pz.wait_paused(timeout=60, alive=lambda: p.poll() is None):
                    state["reached"] = True
                    if modify:
                        self._modify(d, fname, case["mod"])
                    pz.release()

            try:
                run = faults.run_and_reap(cmd, d, env=pz.env(), on_started=on_started, timeout=120)
            finally:
                pz.close()
            return run, state["reached"]

        control, reached = paused_run(False)
        if not reached:
            raise Discard(f"pause point {point.split('=')[0]} not reached for {case['which']}")
        if control.timed_out:
            raise Inconclusive(f"control run timed out: {control}")
        if control.rc != 0:
            raise Inconclusive(f"control run (pause, no modification) failed: {control}")
        if os.path.exists(f"{d}/out"):
            os.unlink(f"{d}/out")
        run, reached = paused_run(True)
        if not reached:
            raise Inconclusive("pause point reached in control but not in the modified run")
        if run.timed_out:
            raise Inconclusive(f"modified run timed out: {run}")
        late = case["instant"] not in ("opened", "inputs-loaded")
        info = {"nontrivial": case["which"] != "object" or late,
                "key": f"{case['which']}/{case['instant']}/{case['mod']}/{case['fork']}",
                "classes": [f"kind:{case['which']}", f"mod:{case['mod']}", f"instant:{case['instant']}",
                            "detected-by-message" if "was changed while we were running" in run.err else
                            ("other-nonzero" if run.rc != 0 else "undetected")]}
        if run.rc == 0:
            raise Violation(f"undetected:{case['which']}",
                            f"{fname} ({case['which']}) was modified ({case['mod']}) at `{point}` while wild was running, "
                            f"yet wild exited 0", {"stderr": run.err[-300:], "fork": case["fork"]})
        return info


CHECK = C20()
