"""C40 — Parallel string merging hands every input to every bucket in order and finishes.

Same three-sided construction as C39, on libwild/src/string_merging.rs (DESIGN.md §3 C40):
 (A) model-level schedule search on vlib/mergemodel.py (try_reserve as separate load / compare-
     exchange steps, slot mutex critical sections, bucket park/resume): invariants = termination
     without stall while input groups remain, each bucket consumes groups 0..G-1 exactly once in
     order, all buckets finish, pool restored. Seeded protocol mutants must be caught.
 (B) trace conformance of the hook event log of every real link in (C).
 (C) stress: generated inputs with many mergeable strings, `--wild-experiments=P,256` (256-byte
     input groups => tens to hundreds of groups) x threads x affinity x seeded perturbation;
     oracles: wild's own end-of-merge invariant (hook), output bytes identical to the
     --threads=1 link with the same experiments, termination watchdog.
"""
import random
import time

from hypothesis import strategies as st

from vlib import mergemodel, slotmodel, tools
from vlib.core import Check, Discard, Inconclusive, Violation
from vlib.faults import run_and_reap
from checks.c39 import proc_state

ALPHABET = "abcdefgh"


def gen_sources(spec):
    rng = random.Random(spec["seed"])
    srcs = []
    for i in range(spec["n"]):
        out = [f'    .section .rodata.str1.1,"aMS",@progbits,1\n']
        labels = []
        nstr = rng.randint(1, spec["strings_per_obj"])
        for k in range(nstr):
            ln = rng.choice([0, 1, 2, 3, 5, 8, 13, 40, 200]) if rng.random() < 0.8 else rng.randint(0, spec["maxlen"])
            s = "".join(rng.choice(ALPHABET[:spec["alpha"]]) for _ in range(ln))
            out.append(f'.Ls{i}_{k}: .string "{s}"\n')
            labels.append(f".Ls{i}_{k}")
        if spec["second_section"] and rng.random() < 0.5:
            out.append(f'    .section .rodata.cst.s{i},"aMS",@progbits,1\n')
            for k in range(rng.randint(1, 6)):
                s = "".join(rng.choice(ALPHABET) for _ in range(rng.randint(0, 30)))
                out.append(f'.Lt{i}_{k}: .string "{s}"\n')
                labels.append(f".Lt{i}_{k}")
        out.append(f'    .section .data.p{i},"aw",@progbits\n    .globl p{i}\np{i}:\n')
        for lab in labels:
            out.append(f"    .quad {lab}\n")
        if i == 0:
            out.append('    .section .text._start,"ax",@progbits\n    .globl _start\n_start:\n')
            for j in range(spec["n"]):
                out.append(f"    leaq p{j}(%rip), %rax\n")
            out.append("    ret\n")
        srcs.append("".join(out))
    return srcs


class C40(Check):
    prop = "C40"
    level = "exploration"
    technique = ("model-based schedule fuzzing of a transcription of the string-merge hand-off (separate load/CAS steps; seeded protocol "
                 "mutants must be caught) + trace conformance of the real code's event log + perturbed-schedule stress with end-of-merge "
                 "invariant and byte-equality to the single-threaded link")
    rule = ("(C/B) case = 1-12 objects with 1-400 mergeable strings each (small alphabet: duplicates, shared suffixes, empty strings) x "
            "--wild-experiments=P,G (split parallelism 1-24, input-group bytes 256-4096) x threads x affinity x perturbation; "
            "non-trivial = >= 2 input groups and the event log shows >= 1 bucket park (WaitingForStrings) followed by a resume; "
            "failed reservations are counted; distinct by (seed, n, P, group bytes, threads, cpus, sched). (A) model schedules counted "
            "in coverage.model_*")
    assumptions = ["the OS scheduler is not owned on the real binary", "the AtomicCell hand-off of finished shards is treated as atomic",
                   "model abstraction: one no-op input-task spawn per try_spawn call (the code's reserve/spawn loop is unbounded only "
                   "in a measure-zero race)", "event log from the cfg(wild_verif) hook build"]
    quick_cases = 96
    thorough_cases = 4000
    max_workers = 6
    case_timeout = 180

    def strategy(self, tier):
        prog = st.fixed_dictionaries({
            "n": st.integers(1, 12), "seed": st.integers(0, 2**32 - 1), "strings_per_obj": st.sampled_from([3, 20, 100, 400]),
            "maxlen": st.sampled_from([4, 30, 300]), "alpha": st.integers(1, 8), "second_section": st.booleans()})
        return st.fixed_dictionaries({
            "prog": prog,
            "par": st.integers(1, 24),
            "group_bytes": st.sampled_from([256, 256, 512, 4096]),
            "threads": st.sampled_from([2, 3, 4, 8, 16, 48]),
            "cpus": st.sampled_from([1, 2, 16, 16]),
            "sched": st.tuples(st.integers(1, 10**6), st.sampled_from([0, 50, 300, 900]), st.sampled_from([0, 20, 200])),
        })

    def run_case(self, case, ctx):
        d = ctx.dir
        srcs = gen_sources(case["prog"])
        objs = []
        for i, s in enumerate(srcs):
            tools.asm(s, f"o{i}.o", cwd=d)
            objs.append(f"o{i}.o")
        exp = f"--wild-experiments={case['par']},{case['group_bytes']}"
        wild = tools.linker_path("wild")
        ref = run_and_reap([wild, *objs, exp, "--threads=1", "-o", "ref.out"], d, timeout=120)
        if ref.rc != 0:
            if "VERIF-INVARIANT" in ref.err:
                raise Violation("merge-invariant", ref.err[-300:])
            raise Discard("reference single-threaded link failed: " + ref.err.strip()[-80:])
        refbytes = open(f"{d}/ref.out", "rb").read()
        seed, permille, max_us = case["sched"]
        env2 = {"WILD_VERIF_EVENTS": f"{d}/events.txt"}
        if permille:
            env2["WILD_VERIF_SCHED"] = f"{seed}:{permille}:{max_us}"
        cmd = [wild, *objs, exp, f"--threads={case['threads']}", "-o", "out"]
        if case["cpus"] < 16:
            cmd = ["taskset", "-c", "0" if case["cpus"] == 1 else "0-1"] + cmd
        watch = {}

        def on_started(p):
            t0 = time.time()
            last = None
            idle_since = None
            while p.poll() is None and time.time() - t0 < 150:
                time.sleep(0.5)
                ticks, states = proc_state(p.pid)
                if last is not None and ticks == last and states <= {"S"}:
                    idle_since = idle_since or time.time()
                    if time.time() - idle_since > 10:
                        watch["deadlock"] = True
                        return
                else:
                    idle_since = None
                last = ticks

        run = run_and_reap(cmd, d, env=env2, timeout=160, on_started=on_started)
        if run.timed_out or watch.get("deadlock"):
            if watch.get("deadlock"):
                raise Violation("hang", f"wild stopped making progress while merging strings (threads={case['threads']}, {exp})")
            raise Inconclusive("link did not finish in time (no confirmed deadlock)")
        if run.rc == 97 or "VERIF-INVARIANT" in run.err:
            what = run.err.split("VERIF-INVARIANT", 1)[1].strip()[:200] if "VERIF-INVARIANT" in run.err else "exit 97"
            raise Violation("merge-invariant", f"wild's end-of-merge invariant failed: {what}")
        if run.rc != 0:
            raise Violation("parallel-link-fails", f"--threads=1 link succeeds but threads={case['threads']} fails: {run.err[-300:]}")
        out = open(f"{d}/out", "rb").read()
        if out != refbytes:
            diff = next((i for i, (a, b) in enumerate(zip(out, refbytes)) if a != b), min(len(out), len(refbytes)))
            raise Violation("bytes-differ-from-single-thread", f"output differs from the --threads=1 link at offset {diff:#x} "
                            f"(sizes {len(out)} vs {len(refbytes)}) with {exp}")
        try:
            events = slotmodel.all_events(f"{d}/events.txt")
        except slotmodel.TraceError as e:
            raise Inconclusive(f"event log unreadable: {e}")
        try:
            agg = mergemodel.validate_merge_trace(events)
        except mergemodel.TraceError as e:
            raise Violation("trace-nonconformant", f"event log is not a run of the string-merge hand-off: {e}")
        if agg["sections"] == 0:
            raise Inconclusive("no merged section in the event log")
        if agg["unterminated_section"]:
            raise Violation("trace-no-quiescence", "a merge phase logged no quiescent marker although the link succeeded")
        nontrivial = agg["groups"] >= 2 and agg["waits"] >= 1 and agg["resumes"] >= 1
        classes = [f"threads:{case['threads']}", f"cpus:{case['cpus']}", f"perturb:{permille}",
                   "groups:1" if agg["groups"] < 2 else ("groups:2-9" if agg["groups"] < 10 else "groups:10+"),
                   "cas-fail" if agg["reserve_fail_cas"] else "no-cas-fail", "park" if agg["waits"] else "no-park"]
        return {"nontrivial": nontrivial,
                "key": f"{case['prog']['seed']}/{case['prog']['n']}/{case['par']}/{case['group_bytes']}/{case['threads']}/{case['cpus']}/{case['sched']}",
                "classes": classes, "groups": agg["groups"],
                "counters": {"events_validated": agg["events"], "bucket_parks": agg["waits"], "bucket_resumes": agg["resumes"],
                             "failed_reservations": agg["reserve_fail"], "failed_reservations_cas": agg["reserve_fail_cas"],
                             "traces_validated_against_model": agg["sections"]}}

    def extra_phases(self, tier, seed, stats):
        rng = random.Random(seed)
        cap = 40000 if tier == "quick" else 3000000
        total = 0
        complete = True
        for (G, B, P) in [(1, 2, 1), (2, 2, 1), (3, 2, 1), (2, 2, 2)]:
            try:
                runs, ex = mergemodel.enumerate_schedules(lambda: mergemodel.Model(G, B, P), max_states=cap)
            except mergemodel.ModelViolation as e:
                v = Violation("model-invariant", f"hand-off model violates its invariant: {e}")
                v.case = {"model": [G, B, P], "schedule": getattr(e, "schedule", None)}
                raise v
            total += runs
            complete &= ex
        n_samples = 3000 if tier == "quick" else 300000
        caught = {v: 0 for v in mergemodel.VARIANTS if v != mergemodel.OK}
        nontrivial = 0
        cas_fail = 0
        for k in range(n_samples):
            G, B, P = rng.randint(1, 8), rng.randint(2, 4), rng.randint(1, 4)
            schedule = [rng.randrange(8) for _ in range(rng.randint(0, 200))]
            m = mergemodel.Model(G, B, P)
            try:
                m.run(schedule)
            except mergemodel.ModelViolation as e:
                v = Violation("model-invariant", f"hand-off model violates its invariant: {e}")
                v.case = {"model": [G, B, P], "schedule": schedule}
                raise v
            if G >= 2 and m.stats["waits"] and m.stats["resumes"]:
                nontrivial += 1
            cas_fail += 1 if m.stats["reserve_fail_cas"] else 0
            if k % 4 == 0:
                for variant in caught:
                    mm = mergemodel.Model(G, B, P, variant)
                    try:
                        mm.run(schedule)
                    except mergemodel.ModelViolation:
                        caught[variant] += 1
        for variant, c in caught.items():
            if c == 0:
                raise Inconclusive(f"model invariants did not catch the seeded protocol mutant `{variant}`")
        stats.extra["model_exhaustive_runs"] = total
        stats.extra["model_exhaustive_complete"] = complete
        stats.extra["model_sampled_schedules"] = n_samples
        stats.extra["model_sampled_nontrivial"] = nontrivial
        stats.extra["model_sampled_with_failed_cas"] = cas_fail
        stats.extra["model_mutants_caught"] = caught


CHECK = C40()
