"""C23 — Size accounting never fails on valid input.

Statement: for any input that GNU ld links and that uses only features wild supports, wild never
fails with an internal error saying that the space allocated for a section during layout does not
match what writing needed.

Domain: generated freestanding x86-64 programs (assembly, plus a small C member compiled by gcc)
made of *resource-demanding* reference sites — PLT calls, GOTPCREL(X) loads in several instruction
forms, pc-relative and absolute code relocations, data words (`.quad sym` at aligned and odd
offsets, in 8- and 1-aligned sections, RELRO, init arrays), every TLS model (GD, LD, IE, LE,
TLSDESC), ifuncs, undefined weaks, symbols imported from a shared library (functions, data needing
copy relocations, TLS), COMDAT groups, commons, merge-string sections, CFI/no-CFI functions, debug
sections — crossed with an option vector over exactly the switches that change linker-generated
sections (pack-relative-relocs, hash-style, build-id, eh-frame-hdr, strip, retain-symbols-file,
relax, got-plt-syms, export-dynamic, version scripts, dynamic lists, exclude-libs, now/lazy,
Bsymbolic*, gc-sections, nocopyreloc, relro...) and with output kinds static exe, dynamic exe,
PIE, static PIE, shared object and `-r`.

Oracle: GNU ld 2.40 must link the identical input (else Discard).  wild's stderr must then not
contain any allocation-mismatch diagnostic.  The list of such diagnostics is *extracted from the
tree under test* at setup (format strings of `insufficient_allocation` / `excessive_allocation`
and every literal of the mismatch family in elf_writer.rs / file_writer.rs); if the extraction
loses one of the stems known today the run is inconclusive (exit 2) rather than blind.  Panics in
elf_writer.rs / file_writer.rs slice-splitting are the same failure in another costume.  Any other
wild error (unsupported feature...) is a Discard.
"""
import os
import re

from hypothesis import strategies as st

from vlib import core, tools
from vlib.core import Check, Discard, Inconclusive, Violation

def _retry(fn, *a, **kw):
    """Assembler/archiver invocations are killed by the 60 s tool timeout when the machine is badly
    oversubscribed; that says nothing about the property, so try again before giving up."""
    for attempt in range(3):
        try:
            return fn(*a, **kw)
        except Inconclusive:
            if attempt == 2:
                raise



SIG_RELR_PARITY = "alloc:relr-parity-in-1-aligned-section"
SIG_BUILD_ID = "alloc:build-id-hex-length-not-multiple-of-4"
SIG_STRIP_GOTPLT = "alloc:strip-all-with-got-plt-syms"

# ------------------------------------------------------------------------------------------------
# Message extraction

STEMS = [
    # (key, regex on the string literal, required today)
    ("insufficient", r"^Insufficient ", True),
    ("too-much", r"^Allocated ", True),
    ("failed-take", r"^Failed to take ", True),
    ("backward", r"^Offsets went backward", True),
    ("set-size", r"set_size was never called", True),
    ("no-allocation", r"with no allocation", False),
    ("didnt-allocate", r"^Didn't allocate", False),
    ("didnt-use-up", r"^Didn't use up all allocated", False),
    ("invalid-allocation", r"^Invalid .* allocation", False),
    ("memory-offsets", r"^Unexpected memory offsets", False),
    ("validate-empty", r"^validate_empty failed", False),
    ("not-yet-allocated", r"not yet allocated", False),
]
FILES = ("libwild/src/elf_writer.rs", "libwild/src/file_writer.rs", "libwild/src/verification.rs")
# Number of distinct literals of the family in today's tree (a drop means messages were renamed).
MIN_LITERALS = 28


def fmt_to_regex(lit):
    """Rust format string -> regex (placeholders become .*?)."""
    out, i = [], 0
    while i < len(lit):
        c = lit[i]
        if c == "{":
            if lit[i:i + 2] == "{{":
                out.append(re.escape("{"))
                i += 2
                continue
            j = lit.find("}", i)
            if j < 0:
                out.append(re.escape(lit[i:]))
                break
            out.append(".*?")
            i = j + 1
            continue
        if c == "}" and lit[i:i + 2] == "}}":
            out.append(re.escape("}"))
            i += 2
            continue
        out.append(re.escape(c))
        i += 1
    return "".join(out)


def extract_messages(repo):
    lits = {}
    found_stems = set()
    fn_fmt = {}
    for fn in FILES:
        path = os.path.join(repo, fn)
        try:
            src = open(path).read()
        except OSError:
            raise Inconclusive(f"cannot read {path}")
        for m in re.finditer(r'"((?:[^"\\]|\\.)*)"', src, re.S):
            lit = re.sub(r"\\\n\s*", "", m.group(1))
            for stem, rx, _req in STEMS:
                if re.search(rx, lit):
                    # Cut at the first sentence end followed by a placeholder-only tail, and at an
                    # embedded newline escape.
                    core_text = lit.split(". {}")[0].split("\\n")[0]
                    lits[core_text] = stem
                    found_stems.add(stem)
        for name in ("insufficient_allocation", "excessive_allocation"):
            m = re.search(r"fn " + name + r"\b.*?error!\(\s*\"((?:[^\"\\]|\\.)*)\"", src, re.S)
            if m:
                fn_fmt[name] = m.group(1).split(". {}")[0]
    missing = [s for s, _, req in STEMS if req and s not in found_stems]
    if missing or len(fn_fmt) != 2 or len(lits) < MIN_LITERALS:
        raise Inconclusive(f"allocation-mismatch message extraction lost coverage: missing stems {missing}, "
                           f"helper formats {sorted(fn_fmt)}, {len(lits)} literals (expected >= {MIN_LITERALS})")
    for v in fn_fmt.values():
        lits.setdefault(v, "helper")
    regexes = sorted({fmt_to_regex(k) for k in lits})
    # The hint appended by both helpers is itself conclusive.
    regexes.append(r"WILD_VERIFY_ALLOCATIONS=1 might give more info")
    return regexes


# ------------------------------------------------------------------------------------------------
# Program generation

KINDS = ["exe-static", "exe-dyn", "pie-dyn", "pie-static", "shared", "shared-dep", "reloc"]
PIC_KINDS = ("pie-dyn", "pie-static", "shared", "shared-dep")
DEP_KINDS = ("exe-dyn", "pie-dyn", "shared-dep")
EXE_KINDS = ("exe-static", "exe-dyn", "pie-dyn", "pie-static")

DEP_SRC = r"""
    .text
    .globl ext_fn0, ext_fn1, ext_fn2, __tls_get_addr
    .type ext_fn0,@function
    .type ext_fn1,@function
    .type ext_fn2,@function
    .type __tls_get_addr,@function
ext_fn0: ret
ext_fn1: ret
ext_fn2: ret
__tls_get_addr: ret
    .data
    .globl ext_data0, ext_data1
    .type ext_data0,@object
    .type ext_data1,@object
    .size ext_data0, 8
    .size ext_data1, 16
    .balign 8
ext_data0: .quad 5
ext_data1: .quad 6, 7
    .section .tdata,"awT",@progbits
    .globl ext_tls0
    .type ext_tls0,@object
    .size ext_tls0, 8
    .balign 8
ext_tls0: .quad 9
    .section .note.GNU-stack,"",@progbits
"""

TGA_SRC = r"""
    .text
    .globl __tls_get_addr
    .type __tls_get_addr,@function
__tls_get_addr: ret
    .section .note.GNU-stack,"",@progbits
"""

C_MEMBER = r"""
extern int cfn_ext(int);
__thread int c_tls = 3;
static int c_static[4] = {1, 2, 3, 4};
int c_global = 17;
const char *c_str = "shared-literal";
int *c_ptr = &c_global;
int c_fn(int x) { c_tls += x; return c_static[x & 3] + c_global + (c_ptr ? *c_ptr : 0); }
"""

BINDINGS = ["g", "g", "h", "p", "w", "l"]

CODE_SITES = ["call_plt", "call_plt", "got_load", "got_load", "lea_pcrel", "abs32", "abs64",
              "tls_gd", "tls_ld", "tls_ie", "tls_le", "tls_desc", "got_load", "tls_gd_nop"]
DATA_SITES = ["quad", "quad", "quad_odd", "quad_align1", "quad_relro", "init_array", "pc32", "pc64", "quad_addend",
              "debug_quad"]

_FN = ["fn", "fn", "ifunc", "ext_fn", "ext_fn", "weak_undef", "cfn"]
_ANY = ["fn", "data", "data", "ifunc", "ext_fn", "ext_data", "ext_data", "weak_undef", "cfn"]
_TLS = ["tls", "tls", "ext_tls", "cfn"]
COMPATIBLE = {"call_plt": _FN, "got_load": _ANY, "lea_pcrel": ["fn", "data", "data", "ifunc", "ext_fn", "ext_data", "cfn"],
              "abs32": _ANY, "abs64": _ANY, "tls_gd": _TLS, "tls_gd_nop": _TLS, "tls_ld": ["tls", "cfn"], "tls_ie": _TLS,
              "tls_le": ["tls", "cfn"], "tls_desc": _TLS, "quad": _ANY, "quad_odd": _ANY, "quad_align1": _ANY,
              "quad_relro": _ANY, "init_array": ["fn", "fn", "ifunc", "ext_fn", "cfn"], "pc32": ["fn", "data"],
              "pc64": ["fn", "data"], "quad_addend": ["fn", "data", "data", "ext_fn", "ext_data", "weak_undef", "cfn"], "debug_quad": ["fn", "data", "tls"]}

OPTIONS = [
    # (label, args for both linkers, wild-only args, kinds it applies to or None)
    ("relr", ["-z", "pack-relative-relocs"], [], None),
    ("hash=sysv", ["--hash-style=sysv"], [], None),
    ("hash=gnu", ["--hash-style=gnu"], [], None),
    ("hash=both", ["--hash-style=both"], [], None),
    ("build-id", ["--build-id"], [], None),
    ("build-id=md5", ["--build-id=md5"], [], None),
    ("build-id=sha1", ["--build-id=sha1"], [], None),
    ("build-id=uuid", ["--build-id=uuid"], [], None),
    ("build-id=hex", ["--build-id=0x1234abcd"], [], None),
    ("build-id=hex-odd", ["--build-id=0x1234abcdef"], [], None),
    ("build-id=none", ["--build-id=none"], [], None),
    ("eh-frame-hdr", ["--eh-frame-hdr"], [], None),
    ("no-eh-frame-hdr", ["--no-eh-frame-hdr"], [], None),
    ("strip-all", ["-s"], [], EXE_KINDS + ("shared", "shared-dep")),
    ("strip-debug", ["-S"], [], None),
    ("retain-symbols", ["--retain-symbols-file=keep.txt"], [], EXE_KINDS + ("shared", "shared-dep")),
    ("relax", ["--relax"], [], EXE_KINDS + ("shared", "shared-dep")),
    ("no-relax", ["--no-relax"], [], None),
    ("got-plt-syms", [], ["--got-plt-syms"], None),
    ("export-dynamic", ["--export-dynamic"], [], None),
    ("version-script", ["--version-script=v.ver"], [], EXE_KINDS + ("shared", "shared-dep")),
    ("dynamic-list", ["--dynamic-list=dyn.lst"], [], EXE_KINDS + ("shared", "shared-dep")),
    ("export-dynamic-symbol", ["--export-dynamic-symbol=f0"], [], EXE_KINDS),
    ("exclude-libs", ["--exclude-libs=ALL"], [], None),
    ("now", ["-z", "now"], [], None),
    ("lazy", ["-z", "lazy"], [], None),
    ("Bsymbolic", ["-Bsymbolic"], [], ("shared", "shared-dep", "pie-dyn")),
    ("Bsymbolic-functions", ["-Bsymbolic-functions"], [], ("shared", "shared-dep", "pie-dyn")),
    ("gc", ["--gc-sections"], [], EXE_KINDS + ("shared", "shared-dep")),
    ("no-gc", ["--no-gc-sections"], [], None),
    ("nocopyreloc", ["-z", "nocopyreloc"], [], None),
    ("norelro", ["-z", "norelro"], [], None),
    ("relro", ["-z", "relro"], [], None),
    ("as-needed", ["--as-needed"], [], None),
    ("soname", ["--soname=libx.so.1"], [], ("shared", "shared-dep")),
    ("rpath", ["--rpath=/opt/x"], [], DEP_KINDS + ("shared",)),
    ("old-dtags", ["--disable-new-dtags"], [], None),
    ("nodelete", ["-z", "nodelete"], [], None),
    ("execstack", ["-z", "execstack"], [], None),
    ("defsym", ["--defsym=ds_abs=0x1234"], [], EXE_KINDS + ("shared", "shared-dep")),
    ("undefined", ["--undefined=f1"], [], None),
    ("no-string-merge", [], ["--no-string-merge"], None),
    ("no-mmap", [], ["--no-mmap-output-file"], None),
    ("entry", ["--entry=f0"], [], EXE_KINDS),
]
OPT_BY_LABEL = {o[0]: o for o in OPTIONS}
EXCLUSIVE = [{"hash=sysv", "hash=gnu", "hash=both"},
             {"build-id", "build-id=md5", "build-id=sha1", "build-id=uuid", "build-id=hex", "build-id=hex-odd", "build-id=none"},
             {"eh-frame-hdr", "no-eh-frame-hdr"}, {"strip-all", "strip-debug", "retain-symbols"}, {"relax", "no-relax"},
             {"now", "lazy"}, {"Bsymbolic", "Bsymbolic-functions"}, {"gc", "no-gc"}, {"relro", "norelro"}]
SECTION_CHANGING = {"relr", "hash=sysv", "hash=gnu", "hash=both", "build-id", "build-id=md5", "build-id=sha1",
                    "build-id=uuid", "build-id=hex", "build-id=hex-odd", "eh-frame-hdr", "no-eh-frame-hdr", "strip-all", "strip-debug",
                    "retain-symbols", "no-relax", "got-plt-syms", "export-dynamic", "version-script", "dynamic-list",
                    "export-dynamic-symbol", "exclude-libs", "now", "Bsymbolic", "Bsymbolic-functions", "gc",
                    "nocopyreloc", "norelro", "soname", "rpath", "old-dtags", "nodelete", "no-string-merge"}


@st.composite
def case_strategy(draw):
    kind = draw(st.sampled_from(KINDS))
    n_obj = draw(st.integers(1, 3))
    n_fn = draw(st.integers(1, 5))
    n_data = draw(st.integers(1, 4))
    n_tls = draw(st.integers(0, 2)) if draw(st.booleans()) else 1
    n_ifunc = draw(st.integers(0, 2))

    def sym(prefix, i):
        return {"name": f"{prefix}{i}", "bind": "g" if (prefix == "f" and i == 0) else draw(st.sampled_from(BINDINGS)),
                "obj": draw(st.integers(0, n_obj - 1)), "v": draw(st.integers(0, 7))}

    fns = [sym("f", i) for i in range(n_fn)]
    datas = [sym("d", i) for i in range(n_data)]
    tlss = [sym("t", i) for i in range(n_tls)]
    ifuncs = [sym("i", i) for i in range(n_ifunc)]
    sites = []
    for _ in range(draw(st.integers(1, 12))):
        code = draw(st.integers(0, 9)) < 6
        k = draw(st.sampled_from(CODE_SITES if code else DATA_SITES))
        sites.append({"site": k, "tclass": draw(st.sampled_from(COMPATIBLE[k])),
                      "ti": draw(st.integers(0, 7)), "in_fn": draw(st.integers(0, n_fn - 1)),
                      "v": draw(st.integers(0, 15))})
    opts = draw(st.lists(st.sampled_from([o[0] for o in OPTIONS]), min_size=0, max_size=7, unique=True))
    feats = draw(st.lists(st.sampled_from(["cfi", "nocfi-some", "strings", "comdat", "common", "gnu-property", "pad-syms",
                                           "c-member", "archive", "debug", "fini_array", "preinit",
                                           # must-keep code sections: SHF_GNU_RETAIN functions, code (with CFI) in .init/.fini
                                           "retain", "init-code"]),
                          max_size=6, unique=True))
    return {"kind": kind, "n_obj": n_obj, "fns": fns, "datas": datas, "tlss": tlss, "ifuncs": ifuncs, "sites": sites,
            "opts": opts, "feats": feats, "start_calls": draw(st.lists(st.integers(0, n_fn - 1), max_size=3, unique=True))}


# ------------------------------------------------------------------------------------------------
# Realisation (validity is constructed here; what does not fit the output kind is dropped)


def normalise_opts(case):
    kind = case["kind"]
    chosen = []
    for label in case["opts"]:
        o = OPT_BY_LABEL.get(label)
        if o is None:
            continue
        if o[3] is not None and kind not in o[3]:
            continue
        if any(label in grp and any(c in grp for c in chosen) for grp in EXCLUSIVE):
            continue
        if kind == "reloc" and label in ("eh-frame-hdr", "relr", "export-dynamic", "exclude-libs", "now", "lazy", "nocopyreloc",
                                         "norelro", "relro", "as-needed", "old-dtags", "nodelete", "undefined"):
            continue
        chosen.append(label)
    if "gc" not in chosen and "no-gc" not in chosen:
        chosen.append("no-gc")   # the two linkers' defaults differ; keep the generated sites alive
    return chosen


class Prog:
    def __init__(self, case):
        self.case = case
        self.kind = case["kind"]
        self.pic = self.kind in PIC_KINDS
        self.dep = self.kind in DEP_KINDS
        self.shared = self.kind in ("shared", "shared-dep")
        self.reloc = self.kind == "reloc"
        self.n_obj = max(1, case["n_obj"])
        self.resources = set()
        self.has_align1_abs_reloc = False
        self.opts = normalise_opts(case)
        self.feats = set(case["feats"])
        self.obj_text = [[] for _ in range(self.n_obj)]      # per-object function bodies: {fn index: [lines]}
        self.fn_sites = {}
        self.data_lines = [[] for _ in range(self.n_obj)]
        self.sym_by = {"fn": case["fns"], "data": case["datas"], "tls": case["tlss"], "ifunc": case["ifuncs"]}
        self.need_tga = False
        self.c_member = "c-member" in self.feats

    # -- symbol helpers
    def pick(self, tclass, ti):
        lst = self.sym_by.get(tclass)
        if not lst:
            return None
        return lst[ti % len(lst)]

    def preemptible(self, s):
        """Default-visibility global in a shared object (no -Bsymbolic consideration: stay conservative)."""
        return self.shared and s["bind"] in ("g", "w")

    def target(self, site):
        """Returns (symbol name, class, symdict or None) or None when the class is unavailable."""
        tc = site["tclass"]
        if tc in ("fn", "data", "tls", "ifunc"):
            s = self.pick(tc, site["ti"])
            if s is None:
                return None
            return (s["name"], tc, s)
        if tc == "cfn":
            if not self.c_member:
                return None
            k = site["site"]
            if k.startswith("tls_"):
                return ("c_tls", "tls", {"bind": "g", "obj": -1, "name": "c_tls"})
            if k in ("call_plt", "init_array"):
                return ("c_fn", "fn", {"bind": "g", "obj": -1, "name": "c_fn"})
            return ("c_global", "data", {"bind": "g", "obj": -1, "name": "c_global"})
        if tc == "weak_undef":
            return (f"wk{site['ti'] % 2}", "weak_undef", None)
        if not self.dep:
            return None
        if tc == "ext_fn":
            return (f"ext_fn{site['ti'] % 3}", "ext_fn", None)
        if tc == "ext_data":
            return (f"ext_data{site['ti'] % 2}", "ext_data", None)
        if tc == "ext_tls":
            return ("ext_tls0", "ext_tls", None)
        return None

    def add_site(self, site):
        t = self.target(site)
        if t is None:
            return
        name, tc, s = t
        k = site["site"]
        v = site["v"]
        fn = self.case["fns"][site["in_fn"] % len(self.case["fns"])]
        obj = fn["obj"] % self.n_obj
        host_fn = fn
        if s is not None and s.get("bind") == "l":
            # Local symbols can only be referenced from their own object: host the site in a
            # function of that object, or drop it.
            cands = [f for f in self.case["fns"] if f["obj"] % self.n_obj == s["obj"] % self.n_obj]
            if not cands:
                return
            host_fn = cands[site["in_fn"] % len(cands)]
            obj = s["obj"] % self.n_obj
        is_tls = tc in ("tls", "ext_tls")
        is_fn = tc in ("fn", "ifunc", "ext_fn") or (tc == "weak_undef")
        local_def = s is not None
        lines = None
        if k in ("call_plt",):
            if is_tls or tc in ("data", "ext_data"):
                return
            lines = [f"    call {name}@PLT" if v % 3 else f"    call {name}"]
            self.resources.add("plt" if not local_def or tc == "ifunc" else "call")
        elif k == "got_load":
            if is_tls:
                return
            forms = [f"    movq {name}@GOTPCREL(%rip), %rax", f"    call *{name}@GOTPCREL(%rip)",
                     f"    cmpq {name}@GOTPCREL(%rip), %rax", f"    addq {name}@GOTPCREL(%rip), %rbx",
                     f"    testq %rax, {name}@GOTPCREL(%rip)", f"    movl {name}@GOTPCREL(%rip), %eax",
                     f"    movq {name}@GOTPCREL(%rip), %r11", f"    pushq {name}@GOTPCREL(%rip)"]
            lines = [forms[v % len(forms)]]
            self.resources.add("got")
        elif k == "lea_pcrel":
            if is_tls or tc == "weak_undef":
                return
            if tc in ("ext_fn", "ext_data"):
                if self.kind != "exe-dyn" and self.kind != "pie-dyn":
                    return
                if tc == "ext_data" and "nocopyreloc" in self.opts:
                    return
                self.resources.add("copyrel" if tc == "ext_data" else "canonical-plt")
            elif self.shared and (s["bind"] in ("g", "w", "p")):
                return
            forms = [f"    leaq {name}(%rip), %rax", f"    movq {name}(%rip), %rax", f"    movl $1, {name}(%rip)",
                     f"    cmpb $0, {name}(%rip)"]
            lines = [forms[v % len(forms)]]
        elif k in ("abs32", "abs64"):
            if self.pic or is_tls or self.reloc and False:
                return
            if self.kind not in ("exe-static", "exe-dyn", "reloc"):
                return
            if tc == "ext_data" and "nocopyreloc" in self.opts:
                return
            if tc in ("ext_fn", "ext_data"):
                self.resources.add("copyrel" if tc == "ext_data" else "canonical-plt")
            if k == "abs32":
                lines = [f"    movq ${name}, %rax" if v % 2 else f"    movl ${name}, %eax"]
            else:
                lines = [f"    movabsq ${name}, %rax"]
        elif k in ("tls_gd", "tls_gd_nop"):
            if not is_tls:
                return
            self.need_tga = True
            if k == "tls_gd":
                lines = ["    .byte 0x66", f"    leaq {name}@tlsgd(%rip), %rdi", "    .value 0x6666", "    rex64",
                         "    call __tls_get_addr@PLT"]
            else:
                lines = ["    .byte 0x66", f"    leaq {name}@tlsgd(%rip), %rdi", "    .byte 0x66", "    rex64",
                         "    call *__tls_get_addr@GOTPCREL(%rip)"]
            self.resources.add("tls-gd")
        elif k == "tls_ld":
            if tc != "tls" or self.preemptible(s) and False:
                return
            self.need_tga = True
            lines = [f"    leaq {name}@tlsld(%rip), %rdi", "    call __tls_get_addr@PLT",
                     f"    leaq {name}@dtpoff(%rax), %rax"]
            self.resources.add("tls-ld")
        elif k == "tls_ie":
            if not is_tls:
                return
            lines = [f"    movq {name}@gottpoff(%rip), %rax" if v % 2 else f"    addq {name}@gottpoff(%rip), %rax"]
            self.resources.add("tls-ie")
        elif k == "tls_le":
            if tc != "tls" or self.shared:
                return
            lines = ["    movq %fs:0, %rax", f"    leaq {name}@tpoff(%rax), %rax"] if v % 2 else \
                    [f"    movq %fs:{name}@tpoff, %rax"]
            self.resources.add("tls-le")
        elif k == "tls_desc":
            if not is_tls:
                return
            lines = [f"    leaq {name}@tlsdesc(%rip), %rax", f"    call *{name}@tlscall(%rax)"]
            self.resources.add("tls-desc")
        if lines is not None:
            self.fn_sites.setdefault(host_fn["name"], []).extend(lines)
            return
        # --- data sites
        if is_tls:
            if k == "debug_quad" and tc == "tls" and "debug" in self.feats:
                self.data_lines[obj] += ['    .section .debug_info,"",@progbits', f"    .quad {name}@dtpoff"]
            return
        idx = len(self.data_lines[obj])
        if k in ("quad", "quad_addend", "quad_odd", "quad_align1", "quad_relro", "init_array"):
            if tc == "ext_data" and "nocopyreloc" in self.opts and not self.pic and False:
                return
            add = f"+{v}" if k == "quad_addend" else ""
            if k == "quad_relro":
                sec = f'    .section .data.rel.ro.s{idx},"aw",@progbits\n    .balign 8'
            elif k == "init_array":
                if not is_fn or tc == "weak_undef":
                    return
                which = "fini_array" if "fini_array" in self.feats and v % 2 else \
                    "preinit_array" if "preinit" in self.feats and v % 3 == 0 and self.kind in EXE_KINDS else "init_array"
                sec = f'    .section .{which},"aw",@{which}\n    .balign 8'
            elif k == "quad_odd":
                sec = f'    .section .data.s{idx},"aw",@progbits\n    .balign 8\n    .byte {v}'
            elif k == "quad_align1":
                pad = "\n    .byte 1" if v % 2 else ""
                sec = f'    .section .data.u{idx},"aw",@progbits{pad}'
                self.has_align1_abs_reloc = True
            else:
                sec = f'    .section .data.s{idx},"aw",@progbits\n    .balign 8'
            self.data_lines[obj] += [sec, f"    .quad {name}{add}"]
            if k == "quad_align1" and (v // 2) % 2:
                # keep following sections at odd addresses now and then
                self.data_lines[obj] += [f'    .section .data.u{idx}b,"aw",@progbits', "    .byte 2"]
            self.resources.add({"ifunc": "irelative", "ext_fn": "dynrel", "ext_data": "dynrel",
                                "weak_undef": "weak"}.get(tc, "relative" if self.pic else "abs"))
        elif k in ("pc32", "pc64"):
            if tc in ("ext_fn", "ext_data", "weak_undef"):
                return
            if self.shared and s is not None and s["bind"] in ("g", "w", "p"):
                return
            d = ".long" if k == "pc32" else ".quad"
            self.data_lines[obj] += [f'    .section .data.s{idx},"aw",@progbits\n    .balign 8', f"    {d} {name} - ."]
        elif k == "debug_quad":
            if "debug" not in self.feats or tc in ("ext_fn", "ext_data", "weak_undef"):
                return
            self.data_lines[obj] += ['    .section .debug_info,"",@progbits', f"    .quad {name}"]

    # -- rendering
    @staticmethod
    def bind_lines(s, typ):
        n = s["name"]
        out = []
        b = s["bind"]
        if b in ("g", "h", "p"):
            out.append(f"    .globl {n}")
        elif b == "w":
            out.append(f"    .weak {n}")
        if b == "h":
            out.append(f"    .hidden {n}")
        if b == "p":
            out.append(f"    .protected {n}")
        out.append(f"    .type {n},{typ}")
        return out

    def render(self):
        c = self.case
        for site in c["sites"]:
            self.add_site(site)
        srcs = []
        for oi in range(self.n_obj):
            L = []
            if oi == 0:
                L += ["    .globl _start", '    .section .text._start,"ax",@progbits', "    .type _start,@function", "_start:"]
                skip = {fi % len(c["fns"]) for fi in c["start_calls"]}   # the listed functions stay unreferenced
                for fi, f in enumerate(c["fns"]):
                    if fi in skip:
                        continue
                    if f["bind"] != "l" or f["obj"] % self.n_obj == 0:
                        L.append(f"    call {f['name']}@PLT")
                L.append("    ret")
            for fi, f in enumerate(c["fns"]):
                if f["obj"] % self.n_obj != oi:
                    continue
                cfi = "cfi" in self.feats and not ("nocfi-some" in self.feats and f["v"] % 2)
                comdat = "comdat" in self.feats and f["bind"] == "w"
                if comdat:
                    L.append(f'    .section .text.{f["name"]},"axG",@progbits,{f["name"]},comdat')
                elif "retain" in self.feats and f["v"] % 3 == 0:
                    L.append(f'    .section .text.{f["name"]},"axR",@progbits')
                elif "init-code" in self.feats and f["v"] % 5 == 1:
                    L.append(f'    .section {".init" if f["v"] % 2 else ".fini"},"ax",@progbits')
                else:
                    L.append(f'    .section .text.{f["name"]},"ax",@progbits')
                L += self.bind_lines(f, "@function")
                L.append(f"{f['name']}:")
                if cfi:
                    L.append("    .cfi_startproc")
                L += self.fn_sites.get(f["name"], [])
                L.append("    ret")
                if cfi:
                    L.append("    .cfi_endproc")
                L.append(f"    .size {f['name']}, . - {f['name']}")
            for s in c["ifuncs"]:
                if s["obj"] % self.n_obj != oi:
                    continue
                L.append(f'    .section .text.{s["name"]},"ax",@progbits')
                L += self.bind_lines(s, "@gnu_indirect_function")
                L += [f"{s['name']}:", "    leaq _start(%rip), %rax" if not self.shared else "    xorl %eax, %eax", "    ret"]
            for s in c["datas"]:
                if s["obj"] % self.n_obj != oi:
                    continue
                where = [(".data", "aw", "progbits"), (".bss", "aw", "nobits"), (".data", "aw", "progbits"),
                         (".rodata", "a", "progbits")][s["v"] % 4]
                L.append(f'    .section {where[0]}.{s["name"]},"{where[1]}",@{where[2]}')
                L.append("    .balign 8")
                L += self.bind_lines(s, "@object")
                L.append(f"{s['name']}:")
                L.append("    .zero 8" if where[2] == "nobits" else f"    .quad {s['v']}")
                L.append(f"    .size {s['name']}, 8")
            for s in c["tlss"]:
                if s["obj"] % self.n_obj != oi:
                    continue
                if s["v"] % 2:
                    L.append('    .section .tbss,"awT",@nobits')
                else:
                    L.append('    .section .tdata,"awT",@progbits')
                L.append("    .balign 8")
                L += self.bind_lines(s, "@object")
                L += [f"{s['name']}:", "    .zero 8" if s["v"] % 2 else "    .quad 11", f"    .size {s['name']}, 8"]
            if any("wk" in ln for ln in L + self.data_lines[oi]):
                L = ["    .weak wk0", "    .weak wk1"] + L
            L += self.data_lines[oi]
            if "strings" in self.feats:
                L += ['    .section .rodata.str1.1,"aMS",@progbits,1', '    .string "alpha"', f'    .string "obj{oi}"',
                      '    .string "a-rather-longer-shared-string"', '    .string "pha"']
            if "common" in self.feats:
                L.append(f"    .comm cm{oi % 2}, {8 * (oi + 1)}, 8")
            if "pad-syms" in self.feats:
                for j in range(6):
                    L.append(f'    .section .text.pad{oi}_{j},"ax",@progbits')
                    L.append(f"    .globl padding_symbol_with_a_long_name_{oi}_{j}")
                    L.append(f"padding_symbol_with_a_long_name_{oi}_{j}:")
                    L.append(f".Llocal{oi}_{j}: nop")
                    L.append(f"plain_local_{oi}_{j}: ret")
            if "gnu-property" in self.feats and oi != 1:
                L += ['    .section .note.gnu.property,"a",@note', "    .balign 8", "    .long 4, 16, 5", '    .asciz "GNU"',
                      "    .long 0xc0000002, 4, 3, 0"]
            if "debug" in self.feats:
                L += ['    .section .debug_str,"MS",@progbits,1', f'    .string "producer {oi}"']
            L.append('    .section .note.GNU-stack,"",@progbits')
            srcs.append("\n".join(L) + "\n")
        return srcs

    def in_known_relr_domain(self):
        return "relr" in self.opts and self.pic and self.has_align1_abs_reloc


VERSION_SCRIPT = "VER_1 { global: f0; f1; d0; i0; t0; local: f3; d2; };\nVER_2 { global: f2; d1; } VER_1;\n"
DYN_LIST = "{ f0; d0; f2; t0; c_fn; };\n"
RETAIN = "_start\nf0\nd0\nf2\n"


class C23(Check):
    prop = "C23"
    level = "exploration"
    technique = ("PBT: generated resource-demanding programs x section-changing option vectors x output kinds; GNU ld must "
                 "link the case; wild's stderr is matched against the allocation-mismatch diagnostics extracted from the tree under test")
    rule = ("non-trivial = GNU ld links the case, the case enables >= 2 section-changing options and contains >= 1 site that "
            "needs a GOT/PLT/TLS/dynamic-relocation resource; distinct by (output kind, option set, resource-kind set)")
    assumptions = ["GNU ld 2.40 accepting the input defines 'valid input'", "any other wild error is an unsupported feature (discarded)",
                   "the diagnostics list is extracted from elf_writer.rs/file_writer.rs of the tree under test"]
    quick_cases = 640
    thorough_cases = 40000

    def setup(self, tier):
        self.regexes = [re.compile(r) for r in extract_messages(core.REPO)]

    def strategy(self, tier):
        return case_strategy()

    def excluded_by_construction(self, case):
        p = Prog(case)
        p.render()
        if p.in_known_relr_domain():
            return SIG_RELR_PARITY
        if "build-id=hex-odd" in p.opts:
            return SIG_BUILD_ID
        if "strip-all" in p.opts and "got-plt-syms" in p.opts:
            return SIG_STRIP_GOTPLT
        return None

    # ---------------------------------------------------------------------------------------------
    def _cache(self, ctx):
        d = os.path.join(ctx.root, "c23-cache")
        if not os.path.exists(os.path.join(d, "ok")):
            os.makedirs(d, exist_ok=True)
            _retry(tools.asm, DEP_SRC, "dep.o", cwd=d)
            tools.must(tools.link("ld", ["-shared", "-o", "libdep.so", "dep.o", "--soname=libdep.so"], cwd=d), "building libdep.so")
            _retry(tools.asm, TGA_SRC, "tga.o", cwd=d)
            _retry(tools.ar, "libtga.a", ["tga.o"], cwd=d)
            for pic, nm in (("-fPIC", "cm_pic.o"), ("-fno-pic", "cm_nopic.o")):
                tools.cc(C_MEMBER, nm, flags=["-O1", pic, "-fno-stack-protector", "-fcf-protection=none", "-g0"], cwd=d)
            tools.write(os.path.join(d, "ok"), "1")
        return d

    def run_case(self, case, ctx):
        if not hasattr(self, "regexes"):
            self.setup(ctx.tier)
        d = ctx.dir
        cache = self._cache(ctx)
        p = Prog(case)
        srcs = p.render()
        objs = []
        for i, s in enumerate(srcs):
            _retry(tools.asm, s, f"o{i}.o", cwd=d)
            objs.append(f"o{i}.o")
        inputs = [objs[0]]
        rest = objs[1:]
        if p.c_member:
            rest.append(os.path.join(cache, "cm_pic.o" if p.pic else "cm_nopic.o"))
        if "archive" in p.feats and rest and not p.reloc:
            _retry(tools.ar, "libm.a", rest, cwd=d)
            # Archive members are only loaded when needed; force them so that the program is the same.
            inputs += ["--whole-archive", "libm.a", "--no-whole-archive"]
        else:
            inputs += rest
        kind_args = {"exe-static": [], "exe-dyn": [], "pie-dyn": ["-pie"], "pie-static": ["-pie", "--no-dynamic-linker"],
                     "shared": ["-shared"], "shared-dep": ["-shared"], "reloc": ["-r"]}[p.kind]
        libs = []
        if p.dep:
            libs.append(os.path.join(cache, "libdep.so"))
        elif not p.reloc:
            libs.append(os.path.join(cache, "libtga.a"))
        tools.write(f"{d}/v.ver", VERSION_SCRIPT)
        tools.write(f"{d}/dyn.lst", DYN_LIST)
        tools.write(f"{d}/keep.txt", RETAIN)
        both, wild_only = [], []
        for label in p.opts:
            o = OPT_BY_LABEL[label]
            both += o[1]
            wild_only += o[2]
        base = [*kind_args, *both, *inputs, *libs]
        info = {"classes": [f"kind:{p.kind}"] + [f"opt:{o}" for o in p.opts] + [f"res:{r}" for r in sorted(p.resources)]
                + [f"feat:{f}" for f in sorted(p.feats)], "counters": {}}

        r = tools.link("ld", base + ["-o", "ld.out"], cwd=d, env={"LC_ALL": "C"})
        if r.timed_out:
            raise Inconclusive("GNU ld timed out")
        if r.rc != 0:
            msg = r.err.strip().split("\n")[0] if r.err.strip() else "?"
            msg = re.sub(r"^[^:]*ld(\.bfd)?: ", "", msg)
            msg = re.sub(r"o\d\.o|`[^']*'", "X", msg)
            raise Discard("ld rejects: " + msg[:70])
        w = tools.link("wild", ["--threads=2", *base, *wild_only, "-o", "w.out"], cwd=d, timeout=90)
        if w.timed_out:
            raise Inconclusive("wild timed out")
        hit = None
        for rx in self.regexes:
            m = rx.search(w.err)
            if m:
                hit = m.group(0)
                break
        panic = re.search(r"panicked at (libwild/src/(?:elf_writer|file_writer)\.rs):\d+:\d+:\s*\n?(.*)", w.err)
        if panic and not re.search(r"mid > len|range (start|end) index|out of range for slice|index out of bounds|"
                                   r"split_off|split_at|slice|`None` value|copy_from_slice", panic.group(2)):
            panic = None  # a crash, but not a size-accounting one (not this property's business)
        if hit or panic:
            if hit:
                stem = re.sub(r"\d+", "N", hit)
                stem = re.sub(r"`[^`]*`", "`X`", stem)[:70]
                part = re.search(r"Part #\S+ \(section `([^`]*)`", w.err)
                sig = "alloc:" + stem + (part.group(1) if part else "")
                relr_msg = ".relr.dyn" in hit or ".rela.dyn" in hit
                if p.in_known_relr_domain() and relr_msg:
                    sig = SIG_RELR_PARITY
                if "build-id=hex-odd" in p.opts and part and "build-id" in part.group(1):
                    sig = SIG_BUILD_ID
                if "strip-all" in p.opts and "got-plt-syms" in p.opts and "symtab/strtab" in hit:
                    sig = SIG_STRIP_GOTPLT
            else:
                sig = f"alloc-panic:{panic.group(1)}:{re.sub(r'[0-9]+', 'N', panic.group(2))[:50]}"
            diag = tools.link("wild", ["--threads=2", *base, *wild_only, "-o", "w2.out"], cwd=d, timeout=90,
                              env={"WILD_VERIFY_ALLOCATIONS": "1"})
            raise Violation(sig, f"GNU ld links the case ({p.kind}, options {p.opts}); wild fails with an allocation "
                            f"mismatch: {w.err.strip()[-400:]}",
                            {"kind": p.kind, "opts": p.opts, "args": base + wild_only, "sources": srcs,
                             "stderr": w.err[-1500:], "with_WILD_VERIFY_ALLOCATIONS": diag.err[-800:]})
        if w.rc != 0:
            if w.rc < 0 or w.rc == 101 or "panicked at" in w.err:
                info["classes"].append("wild-other-crash")
                loc = re.search(r"panicked at ([^\s]+)", w.err)
                raise Discard("wild crashes outside the size-accounting code (C22/C01 territory): "
                              + (loc.group(1) if loc else f"rc={w.rc}"))
            last = [ln for ln in w.err.strip().split("\n") if ln.strip()]
            msg = last[0] if last else "?"
            msg = re.sub(r"o\d\.o|`[^`]*`|#\d+|\d+", "X", msg)
            raise Discard("wild: " + msg[:70])
        n_changing = len([o for o in p.opts if o in SECTION_CHANGING])
        needs_resource = bool(p.resources - {"call", "abs"})
        info["nontrivial"] = n_changing >= 2 and needs_resource
        info["key"] = f"{p.kind}|{','.join(sorted(p.opts))}|{','.join(sorted(p.resources))}"
        info["counters"]["links_compared"] = 1
        return info


CHECK = C23()
