"""C13 — Instruction immediate fields are encoded exactly and locally (in-process, Rust/proptest;
see harness/src/c13.rs)."""
from vlib.core import RustCheck


class C13(RustCheck):
    prop = "C13"
    sub = "c13"
    level = "exploration"
    technique = ("in-process proptest on linker-utils' instruction writers against field tables written from the "
                 "Arm ARM / RISC-V / LoongArch manuals and the psABI relocation tables (no use of wild's encoders, "
                 "masks or read_value); deterministic sweep + exhaustive small fields + seeded random sampling")
    rule = ("case = (tier A: instruction variant | tier B: relocation type whose size is BitMasking, initial word w0 in "
            "{zero, all-ones, valid encoding with zero field, valid encoding with random field, random}, bytes after the "
            "window, field value: boundaries of the field width / sign bit / single bits / +-0x800-style rounding "
            "boundaries / random, negative flag for MOVN/MOVZ); every (target, w0 class, value class) combination is "
            "swept deterministically, extracted values of fields <= 14 bits (thorough: <= 21 bits) are enumerated "
            "exhaustively x 6 (64) initial words, the rest is sampled by proptest from a seeded ChaCha RNG; "
            "non-trivial = w0 has a non-zero bit inside the field and one outside it and the value is non-zero; "
            "distinct by exact (target, w0, value, negative) per shard")
    assumptions = [
        "tier A calls write_to_value with extracted_value already reduced to the field width (what write_to_buffer guarantees)",
        "tier B judges only values that write_to_buffer accepts (overflow checks belong to C12)",
        "MOVN/MOVZ relocations: opc<1> (bit 30) is part of the field, opc<0> may be written; R_LARCH_CALL30: only jirl [19:10] is required, all of offs16 may be written",
        "MachOLow12 is judged on ADD (immediate) and LDR/STR (unsigned offset) initial words only",
        "known findings (known_findings.jsonl) are excluded by construction: initial field forced to zero for the OR-without-clear writers, table-level findings tolerated by exact signature",
    ]
    quick_cases = 2_000_000
    thorough_cases = 200_000_000


CHECK = C13()
