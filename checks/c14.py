"""C14 — x86-64 GOT and TLS relaxations preserve instruction semantics.

Oracle A (this file, native execution): a generated assembly file of 8-24 sites.  Each GOT site
executes the relaxable instruction (`op sym@GOTPCREL(%rip), reg`, `call/jmp *sym@GOTPCREL(%rip)`)
from a fixed register/flag state and records register + RFLAGS; right after it the *reference*
computation `op slot(%rip), reg` with `slot: .quad sym` (a plain R_X86_64_64 data word = "the GOT
slot holding the symbol's final value") runs from the same state.  Both live in one program, so the
comparison is self-contained.  TLS sites compute the address of one variable through GD, LD, IE
(mov and add forms) and compare with the LE computation in the same thread, plus the content.
The program is linked into a static non-PIE executable through gcc/glibc with wild and with GNU ld;
GNU ld's binary must pass the same comparison (calibration), otherwise the case is an oracle split.

Oracle B (harness/src/c14.rs, run from extra_phases): byte-level, via verif::api::x86_64_relax.
"""
import os

from hypothesis import strategies as st

from vlib import core, tools
from vlib.core import Check, Discard, Inconclusive, OracleSplit, Violation
from checks.c12 import patient, replay_inproc, run_inproc

REGS64 = ["rax", "rcx", "rdx", "rbx", "rbp", "rsi", "rdi", "r8", "r9", "r10", "r11", "r12", "r13"]
REGS32 = ["eax", "ecx", "edx", "ebx", "ebp", "esi", "edi", "r8d", "r9d", "r10d", "r11d", "r12d", "r13d"]
OPS = ["mov", "add", "sub", "cmp", "test", "and", "or", "xor", "adc", "sbb"]
ABS_VALUES = [0, 1, 2**31 - 1, 2**31, 2**32 - 1, 2**32]
# RFLAGS bits compared: CF PF AF ZF SF OF
FLAG_MASK = 0x8d5
AF = 0x10

MAIN_C = r"""
#include <stdio.h>
extern unsigned long nsites;
extern unsigned long resA[], flgA[], resB[], flgB[];
void run_sites(void);
int main(void) {
    run_sites();
    for (unsigned long i = 0; i < nsites; i++)
        printf("%lu %lx %lx %lx %lx\n", i, resA[i], flgA[i], resB[i], flgB[i]);
    return 0;
}
"""


def site_strategy():
    sym = st.one_of(
        st.builds(lambda k, i: {"kind": k, "idx": i}, st.sampled_from(["local", "hidden", "global"]), st.integers(0, 2)),
        st.builds(lambda v: {"kind": "absolute", "value": v},
                  st.one_of(st.sampled_from(ABS_VALUES), st.sampled_from(ABS_VALUES), st.integers(0, 2**33),
                            st.integers(0, 2**64 - 1))),
    )
    got = st.builds(lambda op, r, w, s, cf, init: {"t": "got", "op": op, "reg": r, "w": w, "sym": s, "cf": cf, "init": init},
                    st.sampled_from(OPS), st.integers(0, len(REGS64) - 1), st.booleans(), sym, st.booleans(),
                    st.one_of(st.sampled_from([0, 1, 2**31, 2**32 - 1, 2**63, 2**64 - 1]), st.integers(0, 2**64 - 1)))
    br = st.builds(lambda t, k, i: {"t": t, "sym": {"kind": k, "idx": i}}, st.sampled_from(["call", "jmp"]),
                   st.sampled_from(["local", "hidden", "global"]), st.integers(0, 2))
    tls = st.builds(lambda m, k, i: {"t": "tls", "model": m, "sym": {"kind": k, "idx": i}},
                    st.sampled_from(["gd", "ld", "ie_mov", "ie_add"]), st.sampled_from(["local", "hidden", "global"]),
                    st.integers(0, 2))
    return st.one_of(got, got, got, got, br, tls)


def relaxed_to_imm(site):
    """True for the forms wild rewrites to an immediate operand when the symbol is absolute."""
    return site["t"] == "got" and ((site["op"] in ("mov", "sub", "cmp") and site["w"]) or (site["op"] == "mov" and not site["w"]))


_KNOWN = None


def known_domain(case):
    """Exact domains of the known findings (only while they are listed with status known)."""
    global _KNOWN
    if _KNOWN is None:
        _KNOWN = {e["signature"] for e in core.load_known("C14") if e["status"] == "known"}
    if "inproc" in case:
        return None
    for s in case["sites"]:
        if s["t"] != "got" or s["sym"]["kind"] != "absolute":
            continue
        v = s["sym"]["value"]
        if s["op"] in ("mov", "sub", "cmp") and s["w"] and 2**31 <= v < 2**32:
            sig = f"{s['op']}:rexw-imm32-zero-extended"
            if sig in _KNOWN:
                return sig
            # once the relaxation uses the sign-extending R_X86_64_32S these values no longer fit the
            # imm32 form and join the link-failure finding
            if "link-fails:relaxed-imm32-overflow" in _KNOWN:
                return "link-fails:relaxed-imm32-overflow"
        if relaxed_to_imm(s) and s["w"] and v >= 2**32 and "link-fails:relaxed-imm32-overflow" in _KNOWN:
            return "link-fails:relaxed-imm32-overflow"
    return None


def sym_name(s, what):
    """what in data/func/tls"""
    if s["kind"] == "absolute":
        return f"abs_{s['value']:x}"
    pre = {"data": "d", "func": "f", "tls": "t"}[what]
    return f"{pre}{s['kind'][0]}_{s['idx']}"


def gen_sources(sites):
    """Returns (sites.s, syms.s)."""
    t = []   # text
    d = []   # data (slots)
    absolutes = {}
    for i, s in enumerate(sites):
        t.append(f"  # site {i}: {s}")
        if s["t"] == "got":
            name = sym_name(s["sym"], "data")
            if s["sym"]["kind"] == "absolute":
                absolutes[name] = s["sym"]["value"]
            reg64 = REGS64[s["reg"]]
            reg = reg64 if s["w"] else REGS32[s["reg"]]
            d.append(f"slot_{i}: .quad {name}")
            for variant, operand in (("A", f"{name}@GOTPCREL(%rip)"), ("B", f"slot_{i}(%rip)")):
                t += [f"  movabs ${s['init']:#x}, %{reg64}",
                      "  cmp %rsp, %rsp",
                      "  stc" if s["cf"] else "  clc",
                      f"  {s['op']} {operand}, %{reg}",
                      "  pushfq",
                      "  pop %r14",
                      f"  mov %{reg64}, res{variant}+{8 * i}(%rip)",
                      f"  mov %r14, flg{variant}+{8 * i}(%rip)"]
        elif s["t"] in ("call", "jmp"):
            name = sym_name(s["sym"], "func")
            d.append(f"slot_{i}: .quad {name}")
            for variant, operand in (("A", f"*{name}@GOTPCREL(%rip)"), ("B", f"*slot_{i}(%rip)")):
                if s["t"] == "call":
                    t += ["  xor %eax, %eax", f"  call {operand}"]
                else:
                    t += ["  xor %eax, %eax", f"  call 1f", "  jmp 2f", f"1: jmp {operand}", "2:"]
                t += [f"  mov %rax, res{variant}+{8 * i}(%rip)", f"  movq $0, flg{variant}+{8 * i}(%rip)"]
        else:
            name = sym_name(s["sym"], "tls")
            m = s["model"]
            if m == "gd":
                t += [f"  .byte 0x66", f"  leaq {name}@tlsgd(%rip), %rdi", "  .word 0x6666", "  rex64",
                      "  call __tls_get_addr@PLT"]
            elif m == "ld":
                t += [f"  leaq {name}@tlsld(%rip), %rdi", "  call __tls_get_addr@PLT", f"  leaq {name}@dtpoff(%rax), %rax"]
            elif m == "ie_mov":
                t += [f"  movq {name}@gottpoff(%rip), %rax", "  addq %fs:0, %rax"]
            else:
                t += ["  movq %fs:0, %rax", f"  addq {name}@gottpoff(%rip), %rax"]
            t += [f"  mov %rax, resA+{8 * i}(%rip)", "  mov (%rax), %rdx", f"  mov %rdx, flgA+{8 * i}(%rip)",
                  "  movq %fs:0, %rax", f"  leaq {name}@tpoff(%rax), %rax",
                  f"  mov %rax, resB+{8 * i}(%rip)", "  mov (%rax), %rdx", f"  mov %rdx, flgB+{8 * i}(%rip)"]
    n = len(sites)
    sites_s = "\n".join([
        ".text", ".globl run_sites", ".type run_sites,@function", "run_sites:",
        "  push %rbx", "  push %rbp", "  push %r12", "  push %r13", "  push %r14", "  push %r15", "  sub $8, %rsp",
        *t,
        "  add $8, %rsp", "  pop %r15", "  pop %r14", "  pop %r13", "  pop %r12", "  pop %rbp", "  pop %rbx", "  ret",
        # local functions / data / tls
        *[f"fl_{k}:\n  mov ${0x1000 + k}, %eax\n  ret" for k in range(3)],
        ".data", ".balign 8", *d,
        *[f"dl_{k}: .quad {0x1111 * (k + 1)}" for k in range(3)],
        ".globl nsites", f"nsites: .quad {n}",
        '.section .tdata,"awT",@progbits', ".balign 8",
        *[f"tl_{k}: .quad {0xa0a0 + k}" for k in range(3)],
        ".bss", ".balign 8", ".globl resA, resB, flgA, flgB",
        f"resA: .skip {8 * n}", f"resB: .skip {8 * n}", f"flgA: .skip {8 * n}", f"flgB: .skip {8 * n}",
        '.section .note.GNU-stack,"",@progbits', ""])
    syms = [".text"]
    for k in range(3):
        syms += [f".globl fh_{k}", f".hidden fh_{k}", f"fh_{k}:", f"  mov ${0x2000 + k}, %eax", "  ret",
                 f".globl fg_{k}", f"fg_{k}:", f"  mov ${0x3000 + k}, %eax", "  ret"]
    syms += [".data", ".balign 8"]
    for k in range(3):
        syms += [f".globl dh_{k}", f".hidden dh_{k}", f"dh_{k}: .quad {0x2222 * (k + 1)}",
                 f".globl dg_{k}", f"dg_{k}: .quad {0x3333 * (k + 1)}"]
    syms += ['.section .tdata,"awT",@progbits', ".balign 8"]
    for k in range(3):
        syms += [f".globl th_{k}", f".hidden th_{k}", f"th_{k}: .quad {0xb0b0 + k}",
                 f".globl tg_{k}", f"tg_{k}: .quad {0xc0c0 + k}"]
    for name, v in sorted(absolutes.items()):
        syms += [f".globl {name}", f"{name} = {v:#x}"]
    syms += ['.section .note.GNU-stack,"",@progbits', ""]
    return sites_s, "\n".join(syms)


def parse_output(text, n):
    rows = {}
    for line in text.splitlines():
        p = line.split()
        if len(p) == 5:
            rows[int(p[0])] = tuple(int(x, 16) for x in p[1:])
    if len(rows) != n:
        return None
    return rows


def compare(sites, rows):
    """Returns list of (site index, description) mismatches."""
    bad = []
    for i, s in enumerate(sites):
        ra, fa, rb, fb = rows[i]
        if s["t"] == "got":
            mask = FLAG_MASK & ~AF if s["op"] in ("test", "and", "or", "xor") else FLAG_MASK
            if s["op"] == "mov":
                mask = 0
            if ra != rb or (fa ^ fb) & mask:
                bad.append((i, f"register {ra:#x} flags {fa & mask:#x}; reference through `.quad sym`: register {rb:#x} flags {fb & mask:#x}"))
        elif s["t"] in ("call", "jmp"):
            if ra != rb:
                bad.append((i, f"reached the function returning {ra:#x}; through the data word: {rb:#x}"))
        else:
            if ra != rb or fa != fb:
                bad.append((i, f"{s['model']} address {ra:#x} content {fa:#x}; LE address {rb:#x} content {fb:#x}"))
    return bad


class C14(Check):
    prop = "C14"
    level = "exploration"
    needs_harness = True
    technique = ("oracle A: generated assembly executed natively, each relaxable instruction compared inside the same "
                 "program with the same operation through a `.quad sym` data word, GNU ld's link as calibration; "
                 "oracle B: in-process proptest on new_relaxation+apply with an independent REX/REX2/ModRM decoder and a "
                 "run-time operand model (sign extension, load bias)")
    rule = ("case = 8-24 sites, each (operation in mov/add/sub/cmp/test/and/or/xor/adc/sbb | call | jmp | TLS GD/LD/IE, "
            "register out of 13, 32/64-bit operand size, CF in, initial register value, symbol kind local/hidden/global/"
            "absolute, absolute value from {0,1,2^31-1,2^31,2^32-1,2^32} or random); static non-PIE glibc executable; "
            "non-trivial = at least one site's bytes in wild's output differ from the assembled instruction (a relaxation "
            "fired) and a register other than rax/rdi or a value >= 2^31 is involved; distinct by the multiset of "
            "(form, register, size, symbol kind, value class)")
    assumptions = ["GNU ld 2.40's link of the same program must pass the comparison (calibration)",
                   "AF is not compared after logical operations (architecturally undefined)",
                   "32-bit operand sizes are generated with absolute values < 2^32 only (larger ones make the relaxed "
                   "form unencodable; see known finding link-fails:relaxed-imm32-overflow)"]
    quick_cases = 150
    thorough_cases = 5000
    case_timeout = 300

    def setup(self, tier):
        d = os.path.join(core.TARGET, "c14")
        os.makedirs(d, exist_ok=True)
        patient(tools.cc, MAIN_C, os.path.join(d, "main.o"), flags=["-O1", "-fno-pie"], cwd=d)
        self.main_o = os.path.join(d, "main.o")

    def strategy(self, tier):
        return st.fixed_dictionaries({"sites": st.lists(site_strategy(), min_size=8, max_size=24)})

    def excluded_by_construction(self, case):
        return known_domain(case)

    def run_case(self, case, ctx):
        if "inproc" in case:
            return replay_inproc(self, "c14", case["inproc"])
        d = ctx.dir
        sites = [dict(s) for s in case["sites"]]
        # 32-bit operand sizes: absolute values reduced below 2^32 (see assumptions).
        for s in sites:
            if s["t"] == "got" and not s["w"] and s["sym"]["kind"] == "absolute":
                s["sym"] = dict(s["sym"], value=s["sym"]["value"] % 2**32)
        sites_s, syms_s = gen_sources(sites)
        patient(tools.asm, sites_s, "sites.o", cwd=d)
        patient(tools.asm, syms_s, "syms.o", cwd=d)
        main_o = getattr(self, "main_o", None) or os.path.join(core.TARGET, "c14", "main.o")
        results = {}
        for L in ("ld", "wild"):
            r = patient(tools.cc_link, L, ["-static", "-no-pie", "-o", f"{L}.exe", main_o, "sites.o", "syms.o"], cwd=d, timeout=240)
            if r.timed_out:
                raise Inconclusive(f"link with {L} timed out three times")
            if r.rc != 0:
                results[L] = ("linkfail", r.err.strip()[-400:])
                continue
            x = patient(tools.run_exe, f"{d}/{L}.exe", cwd=d, timeout=60)
            if x.timed_out:
                raise Inconclusive(f"the binary linked by {L} timed out three times")
            rows = parse_output(x.out, len(sites)) if x.rc == 0 else None
            results[L] = ("ran", rows, x.rc, x.err[-200:])
        if results["ld"][0] == "linkfail":
            raise Discard("GNU ld rejects the program: " + results["ld"][1][-80:])
        if results["ld"][1] is None:
            raise OracleSplit(f"GNU ld's binary did not run to completion (rc={results['ld'][2]})")
        ld_bad = compare(sites, results["ld"][1])
        if ld_bad:
            raise OracleSplit(f"GNU ld's binary fails the comparison at site {ld_bad[0][0]}: {ld_bad[0][1]}")
        if results["wild"][0] == "linkfail":
            err = results["wild"][1]
            if "panicked at" in err:
                raise Violation("crash", f"wild panicked: {err}", None)
            if "outside of bounds" in err and any(relaxed_to_imm(s) and s["sym"]["kind"] == "absolute" for s in sites):
                raise Violation("link-fails:relaxed-imm32-overflow",
                                "GNU ld links and the program passes; wild fails because a GOT load was rewritten to an "
                                f"imm32 form that cannot hold the symbol's value: {err[-300:]}", None)
            raise Discard("wild fails to link: " + err[-80:])
        _, rows, rc, err = results["wild"]
        if rows is None:
            raise Violation("wild-binary-crashed", f"the binary linked by wild exited with {rc} ({err}); GNU ld's runs and passes", None)
        bad = compare(sites, rows)
        if bad:
            i, msg = bad[0]
            s = sites[i]
            if s["t"] == "got" and s["op"] in ("mov", "sub", "cmp") and s["w"] and s["sym"]["kind"] == "absolute" \
                    and 2**31 <= s["sym"]["value"] < 2**32:
                sig = f"{s['op']}:rexw-imm32-zero-extended"
            elif s["t"] == "got":
                sig = f"{s['op']}:value"
            else:
                sig = f"{s['t']}:{s.get('model', 'target')}"
            raise Violation(sig, f"site {i} {s}: relaxable instruction gives {msg}", {"site": s})
        # Which sites did wild rewrite?  Compare instruction bytes in the output with the object's.
        relaxed = self._count_relaxed(d, sites)
        feats = sorted({self._feat(s) for s in sites})
        big = any(s["t"] == "got" and (s["reg"] not in (0, 6) or (s["sym"]["kind"] == "absolute" and s["sym"]["value"] >= 2**31))
                  for s in sites)
        return {"nontrivial": relaxed > 0 and big, "key": "|".join(feats),
                "classes": [f.split("/")[0] + "/" + f.split("/")[3] for f in feats] + [f"relaxed_sites_{min(relaxed, 9) // 3 * 3}+"],
                "counters": {"sites": len(sites), "relaxed_sites": relaxed}}

    @staticmethod
    def _feat(s):
        if s["t"] == "got":
            v = s["sym"].get("value")
            vc = "-" if v is None else ("<2^31" if v < 2**31 else "<2^32" if v < 2**32 else ">=2^32")
            return f"{s['op']}/{s['reg']}/{64 if s['w'] else 32}/{s['sym']['kind']}/{vc}"
        if s["t"] == "tls":
            return f"tls_{s['model']}/-/-/{s['sym']['kind']}/-"
        return f"{s['t']}/-/-/{s['sym']['kind']}/-"

    @staticmethod
    def _count_relaxed(d, sites):
        """Number of GOTPCREL/TLS-relocated instructions whose opcode bytes differ between sites.o
        and wild's output (.text of run_sites located through the symbol table)."""
        from vlib.elf import Elf
        try:
            o = Elf(f"{d}/sites.o")
            e = Elf(f"{d}/wild.exe")
            text = next(s for s in o.sections if s.name == ".text")
            obj_bytes = open(f"{d}/sites.o", "rb").read()[text.offset:text.offset + text.size]
            rs = e.sym("run_sites")
            out_bytes = e.read(rs.value, text.size)
            n = 0
            for r in o.relas(next(s for s in o.sections if s.name == ".rela.text")):
                if r.type in (9, 41, 42, 19, 20, 22) and r.offset >= 3:
                    if obj_bytes[r.offset - 3:r.offset] != out_bytes[r.offset - 3:r.offset]:
                        n += 1
            return n
        except Exception:
            return 0

    def extra_phases(self, tier, seed, stats):
        run_inproc(self, "c14", tier, seed, stats, 3_200_000, 320_000_000)


CHECK = C14()
