"""C07 — String merging preserves every referenced string.

Domain: 1-6 assembly objects, each with 0-4 SHF_MERGE|SHF_STRINGS sections (entsize 1; names
.rodata.str1.1 / .rodata.str1.8 / custom; alignment 1-16) and an optional non-string SHF_MERGE
section.  Section contents are lists of items: literal strings over a tiny alphabet, seeded runs
of short/long strings (duplicates, empty and 1-byte strings, > 12 strings per 256-byte block,
hundreds of KiB in the large class) and "pad" strings that place the next string start / a NUL /
the middle of a string exactly on a 256-byte boundary (wild's merge input groups are cut at
multiples of 256 bytes; `--wild-experiments=P,G` shrinks the group size to G).  References:
named symbol (at a string start or in the middle of a string) + addend staying in that string,
section symbol + offset (string starts and middles), from data (abs64) and text (PC32 lea,
abs64 movabs, abs32 mov, GOTPCREL).

Oracles (all three are clauses of the statement):
 1. static round-trip: every labelled pointer slot is read back from the output image; the bytes
    at it up to and including the NUL must equal the input bytes from the referenced offset.
 2. completeness: every distinct string of every live input section occurs NUL-terminated in the
    output section the section's references point into.
 3. metamorphic: stdout of the program (prints every referenced string) is the same for wild with
    two different (threads, experiments) configurations, wild --no-string-merge, and GNU ld, and
    equals the model.
The same predicates are evaluated on GNU ld's output first: if GNU ld's output fails them the
case is an oracle split, never a violation.  Unterminated final string: wild must either print a
diagnostic (no crash) or produce an output in which all references still round-trip.
"""
import bisect
import random
import re

from hypothesis import strategies as st

from vlib import tools
from vlib.core import Check, Discard, Inconclusive, OracleSplit, Violation
from vlib.elf import Elf, ElfError

BLOCK = 256
DEFAULT_GROUP = 140_000

SEC_NAMES = [".rodata.str1.1", ".rodata.str1.8", ".rodata.str1.1", ".mystr", ".rodata.zz.str1.1", ".data.rel.ro.str"]
# (name, flags): the last one is writable-looking by name only; flags are always "aMS".

ALPHA = "ab"


# ------------------------------------------------------------------------------------------------
# Strategy


def item_strategy(size_class):
    lit = st.builds(lambda s: ["s", s], st.text(alphabet="abc", max_size=5))
    pad = st.builds(lambda e: ["p", e], st.sampled_from([0, 0, 1, 2, 254, 255, 128]))
    if size_class == "small":
        cnt = st.integers(1, 60)
    elif size_class == "mid":
        cnt = st.integers(20, 3000)
    else:
        cnt = st.integers(12000, 30000)
    run = st.builds(lambda n, seed, ml, al: ["r", n, seed, ml, al], cnt, st.integers(0, 999),
                    st.sampled_from([1, 2, 3, 8, 20, 30, 300, 700]), st.integers(1, 3))
    return st.one_of(lit, lit, pad, run, run)


def section_strategy(size_class):
    return st.fixed_dictionaries({
        "name": st.integers(0, len(SEC_NAMES) - 1),
        # wild merges only sections with sh_addralign <= 1 (part_id::should_merge_sections), so most
        # sections get alignment 1; the others exercise the unmerged path with the same oracles.
        "al": st.sampled_from([0, 0, 0, 0, 0, 1, 3, 4]),
        "items": st.lists(item_strategy(size_class), min_size=0, max_size=8 if size_class != "large" else 3),
        "unterminated": st.sampled_from([False] * 49 + [True]),
    })


def cst_strategy():
    return st.one_of(st.none(), st.none(), st.fixed_dictionaries({
        "es": st.sampled_from([4, 8, 16]),
        "al1": st.booleans(),
        "elems": st.lists(st.integers(0, 3), min_size=1, max_size=6),
    }))


def ref_strategy():
    return st.fixed_dictionaries({
        "o": st.integers(0, 5), "s": st.integers(0, 3),
        "at": st.one_of(st.builds(lambda k, d: ["blk", k, d], st.integers(0, 600), st.integers(-3, 3)),
                        st.builds(lambda i, off: ["str", i, off], st.integers(0, 5000), st.integers(0, 40))),
        "via": st.sampled_from(["sec", "named0", "namedmid"]),
        "sd": st.integers(0, 40),
        "glob": st.booleans(),
        "from": st.sampled_from(["data", "data", "lea", "movabs", "mov32", "got"]),
    })


def cfg_strategy():
    return st.fixed_dictionaries({
        "threads": st.sampled_from([1, 2, 3, 4, 8, 16]),
        "P": st.one_of(st.none(), st.integers(1, 24)),
        "G": st.sampled_from([None, 1, 256, 256, 256, 300, 512, 512, 768, 1024, 4096, 65536]),
        "gc": st.booleans(),
        "sched": st.one_of(st.none(), st.integers(1, 10000)),
    })


def ensure_nonempty(objs):
    """Constructed, not filtered: at least one string section has content."""
    for o in objs:
        for s in o["secs"]:
            if any(it[0] != "r" or it[1] > 0 for it in s["items"]):
                return objs
    objs[0]["secs"].insert(0, {"name": 0, "al": 0, "items": [["s", "ab"], ["r", 40, 7, 8, 2]], "unterminated": False})
    del objs[0]["secs"][4:]
    return objs


def ensure_big(objs):
    """Large class, by construction: one alignment-1 section alone exceeds wild's default merge group
    size (140000 bytes), so the default parameters produce >= 2 input groups."""
    o = objs[0]
    if not o["secs"]:
        o["secs"].append({"name": 0, "al": 0, "items": [], "unterminated": False})
    sec = o["secs"][0]
    sec["al"] = 0
    seed = sum(len(x["secs"]) for x in objs) * 7 + len(sec["items"])
    sec["items"] = sec["items"][:2] + [["r", 24000, seed, 20, 2]]
    return objs


def sized_case_strategy(size_class):
    if True:
        return st.fixed_dictionaries({
            "size": st.just(size_class),
            "objs": st.lists(st.fixed_dictionaries({
                "secs": st.lists(section_strategy(size_class), min_size=0, max_size=4 if size_class != "large" else 2),
                "cst": cst_strategy(),
            }), min_size=1, max_size=6 if size_class != "large" else 3).map(
                ensure_big if size_class == "large" else ensure_nonempty),
            "refs": st.lists(ref_strategy(), min_size=1, max_size=12),
            "sweep": st.integers(0, 40),
            "cst_refs": st.lists(st.tuples(st.integers(0, 5), st.integers(0, 95), st.booleans()), max_size=3),
            # the large class runs one configuration at the default group size (140000 bytes)
            "cfg": cfg_strategy().map(lambda c: dict(c, G=None)) if size_class == "large" else cfg_strategy(),
            "cfg2": cfg_strategy(),
        })


def case_strategy(tier):
    return st.sampled_from(["small"] * 11 + ["mid"] * 4 + ["large"]).flatmap(sized_case_strategy)


# ------------------------------------------------------------------------------------------------
# Model of the inputs


def gen_run(n, seed, maxlen, alpha_n):
    """Deterministic run of n strings (pure function of its arguments)."""
    rng = random.Random(seed * 1000003 + n * 31 + maxlen)
    alpha = ALPHA[:max(1, min(alpha_n, len(ALPHA)))] if alpha_n < 3 else "abc"
    out = []
    for _ in range(n):
        r = rng.random()
        if maxlen <= 3:
            ln = rng.randint(0, maxlen)
        elif r < 0.5:
            ln = rng.randint(0, 3)
        elif r < 0.9:
            ln = rng.randint(0, min(maxlen, 24))
        else:
            ln = rng.randint(0, maxlen)
        if ln > 24:
            # long strings: a counter prefix makes most of them distinct, shared suffix common
            body = ("%x" % rng.getrandbits(24)) + alpha[0] * (ln - 6)
            out.append(body[:ln])
        else:
            out.append("".join(rng.choice(alpha) for _ in range(ln)))
    return out


def build_section_bytes(sec):
    """Returns (bytes, starts[]) of a string section."""
    buf = bytearray()
    starts = []
    npad = 0
    for it in sec["items"]:
        if it[0] == "s":
            strs = [it[1]]
        elif it[0] == "r":
            strs = gen_run(it[1], it[2], it[3], it[4])
        else:
            e = it[1]
            n = (-(len(buf) + 1 + e)) % BLOCK
            npad += 1
            pat = ("p%d" % npad) + "ab" * (n // 2 + 1)
            strs = [pat[:n]]
        for s in strs:
            starts.append(len(buf))
            buf += s.encode() + b"\0"
    if sec["unterminated"] and buf:
        # last string loses its terminator (give it a body if it was empty)
        buf.pop()
        if len(buf) == starts[-1]:
            buf += b"u"
    return bytes(buf), starts


def out_name(name):
    """Output-section class of an input name under the default rules of both linkers."""
    if name.startswith(".rodata"):
        return ".rodata"
    if name.startswith(".data.rel.ro"):
        return ".data.rel.ro"
    return name


class Sec:
    pass


class Ref:
    pass


def build_model(case):
    objs = []
    for oi, o in enumerate(case["objs"]):
        secs = []
        used = set()
        for si, s in enumerate(o["secs"]):
            name = SEC_NAMES[s["name"] % len(SEC_NAMES)]
            if name in used:
                name = f"{name}.u{si}"
            used.add(name)
            m = Sec()
            m.oi, m.si, m.name, m.al = oi, si, name, s["al"]
            m.data, m.starts = build_section_bytes(s)
            m.unterminated = bool(s["unterminated"] and m.data)
            m.file = f"o{oi}s{si}.bin"
            m.nrefs = 0
            secs.append(m)
        objs.append({"secs": secs, "cst": o["cst"], "refs": [], "trefs": [], "crefs": []})
    nonempty = [(oi, si) for oi, o in enumerate(objs) for si, s in enumerate(o["secs"]) if s.data]
    if not nonempty:
        return objs, []
    refs = []
    symn = [0]

    def add_ref(oi, si, T, via, sd, glob, frm):
        sec = objs[oi]["secs"][si]
        data, starts = sec.data, sec.starts
        T = max(0, min(T, len(data) - 1))
        k = bisect.bisect_right(starts, T) - 1
        S = starts[k]
        E = data.find(b"\0", T)
        if E < 0:
            E = len(data)   # unterminated tail
        r = Ref()
        r.oi, r.si, r.sec = oi, si, sec
        if frm == "lea" and via == "sec":
            frm = "movabs"          # PC-relative against a section symbol is not expressible
        if frm == "got":
            via = "named0" if via == "sec" else via
            glob = True
        if via == "sec":
            r.sym, r.addend, r.symval, r.glob = sec.name, T, None, False
        else:
            span = E - S + 1 if E < len(data) else E - S
            V = S if via == "named0" else S + sd % max(1, span)
            if frm == "got":
                T = V
                E2 = data.find(b"\0", T)
                E = E2 if E2 >= 0 else len(data)
            symn[0] += 1
            r.sym, r.addend, r.symval, r.glob = f"y{oi}_{symn[0]}", T - V, V, glob
        r.T, r.S = T, S
        r.expect = data[T:E]
        r.terminated = E < len(data)
        r.frm, r.via = frm, via
        r.mid = T != S
        sec.nrefs += 1
        refs.append(r)
        (objs[oi]["refs"] if frm == "data" else objs[oi]["trefs"]).append(r)

    for rf in case["refs"]:
        oi, si = nonempty[(rf["o"] * 4 + rf["s"]) % len(nonempty)]
        sec = objs[oi]["secs"][si]
        at = rf["at"]
        if at[0] == "blk":
            nblk = len(sec.data) // BLOCK + 1
            T = (at[1] % nblk) * BLOCK + at[2]
        else:
            k = at[1] % len(sec.starts)
            S = sec.starts[k]
            E = sec.data.find(b"\0", S)
            E = len(sec.data) - 1 if E < 0 else E
            T = S + at[2] % (E - S + 1)
        add_ref(oi, si, T, rf["via"], rf["sd"], rf["glob"], rf["from"])
    # Boundary sweep over the largest section.
    n = case["sweep"]
    if n:
        oi, si = max(nonempty, key=lambda p: (len(objs[p[0]]["secs"][p[1]].data), -p[0], -p[1]))
        sec = objs[oi]["secs"][si]
        nblk = len(sec.data) // BLOCK
        for i in range(n):
            if nblk == 0:
                break
            k = 1 + (i * max(1, nblk // n)) % nblk
            d = (-1, 0, 1, 2)[i % 4]
            via = ("sec", "namedmid", "sec", "named0")[(i // 4) % 4]
            add_ref(oi, si, k * BLOCK + d, via, i, False, "data")
    return objs, refs


# ------------------------------------------------------------------------------------------------
# Emission


def emit_object(oi, o, cst_refs, d):
    lines = []
    for sec in o["secs"]:
        tools.write(f"{d}/{sec.file}", sec.data)
        lines.append(f'.section {sec.name},"aMS",@progbits,1')
        if sec.al:
            lines.append(f".p2align {sec.al}")
        lines.append(f".Lb{oi}_{sec.si}:")
        if sec.data:
            lines.append(f'.incbin "{sec.file}"')
    cst = o["cst"]
    if cst:
        es = cst["es"]
        lines.append(f'.section .rodata.cst{es},"aM",@progbits,{es}')
        if not cst.get("al1"):
            lines.append(f".p2align {es.bit_length() - 1}")
        lines.append(f".Lc{oi}:")
        for v in cst["elems"]:
            lines.append(".byte " + ",".join(str((0x41 + v + j) & 0xff) for j in range(es)))
    # named symbols
    for r in o["refs"] + o["trefs"]:
        if r.symval is not None:
            if r.glob:
                lines.append(f".globl {r.sym}")
            lines.append(f".set {r.sym}, .Lb{oi}_{r.si} + {r.symval}")
    lines.append('.section .data.slots,"aw",@progbits')
    lines.append(".p2align 3")
    lines.append(f".globl slots_{oi}\nslots_{oi}:")
    for r in o["refs"]:
        lines.append(f"  .quad {r.sym} + {r.addend}")
    lines.append(f".globl cslots_{oi}\ncslots_{oi}:")
    o["crefs"] = []
    if cst:
        total = cst["es"] * len(cst["elems"])
        for (_, off, named) in cst_refs:
            off %= total
            if named:
                nm = f"c{oi}_{len(o['crefs'])}"
                lines.append(f".set {nm}, .Lc{oi} + {off - off % cst['es']}")
                lines.append(f"  .quad {nm} + {off % cst['es']}")
            else:
                lines.append(f"  .quad .rodata.cst{cst['es']} + {off}")
            o["crefs"].append(off)
    lines.append(f'.section .text.f{oi},"ax",@progbits')
    lines.append(f".globl f_{oi}\nf_{oi}:")
    for j, r in enumerate(o["trefs"]):
        lines.append(f".globl tr_{oi}_{j}\ntr_{oi}_{j}:")
        tgt = f"{r.sym} + {r.addend}" if r.addend >= 0 else f"{r.sym} - {-r.addend}"
        if r.frm == "lea":
            lines.append(f"  lea {tgt}(%rip), %rdi")
        elif r.frm == "movabs":
            lines.append(f"  movabs ${tgt}, %rdi")
        elif r.frm == "mov32":
            lines.append(f"  mov ${tgt}, %edi")
        else:
            lines.append(f"  mov {r.sym}@GOTPCREL(%rip), %rdi")
        lines.append("  call emit")
    lines.append("  ret")
    asm("\n".join(lines) + "\n", f"o{oi}.o", d)


def asm(text, out, cwd):
    """tools.asm with one retry (an assembler timeout on an overloaded machine is not a verdict)."""
    try:
        return tools.asm(text, out, cwd=cwd)
    except Inconclusive:
        return tools.asm(text, out, cwd=cwd)


MAIN_RT = r"""
.text
.globl emit
emit:
    mov %rdi, %rsi
    xor %edx, %edx
1:  cmpb $0, (%rsi,%rdx)
    je 2f
    inc %rdx
    jmp 1b
2:  mov $1, %eax
    mov $1, %edi
    syscall
    lea nl(%rip), %rsi
    mov $1, %edx
    mov $1, %eax
    mov $1, %edi
    syscall
    ret
print_slots:
    push %r12
    push %r13
    push %r14
    mov %rdi, %r12
    mov %rsi, %r13
1:  test %r13, %r13
    jz 2f
    mov (%r12), %rdi
    call emit
    add $8, %r12
    dec %r13
    jmp 1b
2:  pop %r14
    pop %r13
    pop %r12
    ret
.globl _start
_start:
    and $-16, %rsp
"""


def emit_main(objs, d):
    lines = [MAIN_RT]
    for oi, o in enumerate(objs):
        lines.append(f"    lea slots_{oi}(%rip), %rdi\n    mov ${len(o['refs'])}, %esi\n    call print_slots")
        lines.append(f"    lea cslots_{oi}(%rip), %rax")   # keeps the constants slots reachable
    for oi, _ in enumerate(objs):
        lines.append(f"    call f_{oi}")
    lines.append("    xor %edi, %edi\n    mov $60, %eax\n    syscall")
    lines.append('.section .rodata.nl,"a",@progbits\nnl: .byte 10')
    asm("\n".join(lines) + "\n", "main.o", d)


# ------------------------------------------------------------------------------------------------
# Oracles on one linked output


class OracleFail(Exception):
    def __init__(self, sig, msg):
        super().__init__(msg)
        self.sig, self.msg = sig, msg


def file_off(e, vaddr):
    off = e.vaddr_to_off(vaddr)
    if off is None:
        raise OracleFail("pointer-outside-image", f"pointer {vaddr:#x} is not in any file-backed PT_LOAD")
    return off


def pointer_of(e, o_idx, kind, j, r):
    if kind == "data":
        return e.read_u64(e.addr(f"slots_{o_idx}") + 8 * j)
    p = e.addr(f"tr_{o_idx}_{j}")
    if r.frm == "lea":
        op = e.read(p, 3)
        if op != b"\x48\x8d\x3d":
            raise OracleFail("harness", f"unexpected lea encoding {op.hex()}")
        disp = int.from_bytes(e.read(p + 3, 4), "little", signed=True)
        return (p + 7 + disp) & ((1 << 64) - 1)
    if r.frm == "movabs":
        return e.read_u64(p + 2)
    if r.frm == "mov32":
        return e.read_u32(p + 1)
    op = e.read(p, 3)
    disp = int.from_bytes(e.read(p + 3, 4), "little", signed=True)
    if op == b"\x48\x8d\x3d":       # relaxed to lea
        return (p + 7 + disp) & ((1 << 64) - 1)
    if op == b"\x48\x8b\x3d":       # through the GOT
        return e.read_u64(p + 7 + disp)
    if op == b"\x48\xc7\xc7":       # relaxed to mov $imm32
        return int.from_bytes(e.read(p + 3, 4), "little")
    raise OracleFail("harness", f"unexpected GOTPCREL site encoding {op.hex()}")


def check_output(path, objs, refs, live_all):
    """Oracles 1 and 2 on one output file. Raises OracleFail."""
    try:
        e = Elf(path)
        data = e.data
        sec_out = {}     # (oi, si) -> output section hosting its references
        for oi, o in enumerate(objs):
            for kind, lst in (("data", o["refs"]), ("text", o["trefs"])):
                for j, r in enumerate(lst):
                    ptr = pointer_of(e, oi, kind, j, r)
                    off = file_off(e, ptr)
                    want = r.expect + (b"\0" if r.terminated else b"")
                    got = data[off:off + len(want)]
                    if got != want:
                        end = data.find(b"\0", off, off + 80)
                        shown = data[off:end if end >= 0 else off + 80]
                        raise OracleFail(
                            "roundtrip:" + r.via + ("-mid" if r.mid else "-start"),
                            f"{r.frm} reference {r.sym}+{r.addend} into {r.sec.name} of o{oi}.o (input offset {r.T}, "
                            f"string starts at {r.S}) should point at {want[:60]!r} but output has {shown[:60]!r} at {ptr:#x}")
                    s = e.section_at(ptr)
                    if s is not None:
                        sec_out.setdefault((oi, r.si), s)
            # constants (non-string merge section): bytes to the end of the element
            cst = o["cst"]
            if cst and o["crefs"]:
                es = cst["es"]
                base = e.addr(f"cslots_{oi}")
                blob = b"".join(bytes((0x41 + v + j) & 0xff for j in range(es)) for v in cst["elems"])
                for j, off_in in enumerate(o["crefs"]):
                    ptr = e.read_u64(base + 8 * j)
                    want = blob[off_in:off_in - off_in % es + es]
                    off = file_off(e, ptr)
                    if data[off:off + len(want)] != want:
                        raise OracleFail("roundtrip:cst", f"reference into .rodata.cst{es}+{off_in} of o{oi}.o should "
                                         f"point at {want!r}, output has {data[off:off + len(want)]!r}")
        # completeness
        by_name = {}
        for (oi, si), s in sec_out.items():
            by_name.setdefault(out_name(objs[oi]["secs"][si].name), s)
        checked = 0
        cache = {}
        for oi, o in enumerate(objs):
            for sec in o["secs"]:
                if not sec.data:
                    continue
                outs = sec_out.get((oi, sec.si))
                if outs is None and live_all:
                    outs = by_name.get(out_name(sec.name))
                if outs is None:
                    continue
                if outs.index not in cache:
                    od = e.section_data(outs)
                    pieces = od.split(b"\0")
                    pieces.pop()
                    cache[outs.index] = (od, set(pieces))
                od, pieces = cache[outs.index]
                body = sec.data
                strs = body.split(b"\0")
                last = strs.pop()
                if sec.unterminated:
                    strs.append(last)
                for s in set(strs):
                    checked += 1
                    if s in pieces:
                        continue
                    if (s + b"\0") in od:
                        continue
                    if sec.unterminated and s == last and s in od:
                        continue
                    raise OracleFail("missing-string", f"string {s[:60]!r} (len {len(s)}) of {sec.name} in o{oi}.o does not "
                                     f"occur NUL-terminated in output section {outs.name}")
        return checked
    except ElfError as x:
        raise OracleFail("bad-output", f"output unreadable: {x}")


MERGE_MSG = re.compile(r"merge-string|Merge-string|merge string|not null-terminated|string-merge", re.I)


class C07(Check):
    prop = "C07"
    level = "exploration"
    technique = ("generated multi-object programs; static pointer round-trip + completeness on the output image "
                 "(calibrated on GNU ld's output of the same case) + metamorphic stdout equality across "
                 "(threads, --wild-experiments) / --no-string-merge / GNU ld")
    rule = ("Hypothesis-generated objects with string-merge sections built from literals, seeded runs and "
            "boundary-padding strings; references by section symbol+offset and named symbol+addend to string starts "
            "and middles from data and text, plus a sweep of references around 256-byte block boundaries; non-trivial "
            "= the output section's padded input bytes exceed the active merge group size (>=2 input groups) and >=1 "
            "reference targets the middle of a string; distinct by (size class, group size, #groups bucket, "
            "reference-kind set, #objects)")
    assumptions = ["GNU ld 2.40 output of the same case must satisfy the same predicates (else oracle split)",
                   "named symbol + addend stays inside the symbol's own string (addend crossing into another string is "
                   "outside the statement for any merging linker)",
                   "static non-PIE x86-64 executables only"]
    quick_cases = 300
    thorough_cases = 10000
    max_workers = 16
    case_timeout = 180

    def strategy(self, tier):
        return case_strategy(tier)

    # -- helpers --------------------------------------------------------------------------------
    @staticmethod
    def _wild_args(cfg, objs_files, out, extra=()):
        args = [f"--threads={cfg['threads']}"]
        if cfg["P"] is not None or cfg["G"] is not None:
            p = "_" if cfg["P"] is None else str(cfg["P"])
            g = "_" if cfg["G"] is None else str(cfg["G"])
            args.append(f"--wild-experiments={p},{g}")
        args.append("--gc-sections" if cfg["gc"] else "--no-gc-sections")
        return [*args, *extra, *objs_files, "-o", out]

    @staticmethod
    def _env(cfg):
        if cfg.get("sched"):
            return {"WILD_VERIF_SCHED": f"{cfg['sched']}:300:200"}
        return None

    def _link_wild(self, cfg, files, out, d, extra=()):
        r = tools.link("wild", self._wild_args(cfg, files, out, extra), cwd=d, env=self._env(cfg), timeout=120)
        if r.timed_out:     # overloaded machine: one retry with a long timeout before giving up
            r = tools.link("wild", self._wild_args(cfg, files, out, extra), cwd=d, env=self._env(cfg), timeout=600)
        if r.timed_out:
            raise Inconclusive("wild timed out (termination is C39/C40's subject)")
        return r

    def run_case(self, case, ctx):
        d = ctx.dir
        objs, refs = build_model(case)
        if not refs:
            raise Discard("no non-empty string section")
        cst_refs = case["cst_refs"]
        for oi, o in enumerate(objs):
            emit_object(oi, o, cst_refs, d)
        emit_main(objs, d)
        files = ["main.o"] + [f"o{oi}.o" for oi in range(len(objs))]
        expected_out = b"".join(r.expect + b"\n" for o in objs for r in o["refs"]) + \
            b"".join(r.expect + b"\n" for o in objs for r in o["trefs"])
        unterminated = any(s.unterminated for o in objs for s in o["secs"])
        cfg, cfg2 = case["cfg"], case["cfg2"]
        info = {"classes": [], "counters": {}}

        def crashed(r):
            return r.rc < 0 or "panicked at" in r.err or r.rc == 101

        # ---- unterminated final string: diagnostic expected ----
        if unterminated:
            r = self._link_wild(cfg, files, "w1.out", d)
            if crashed(r):
                raise Violation("crash-unterminated", f"wild crashed on an unterminated merge string: rc={r.rc} {r.err[-300:]}")
            if r.rc == 97 or "VERIF-INVARIANT" in r.err:
                raise Violation("invariant-unterminated", f"string-merge invariant broken: {r.err[-300:]}")
            if r.rc != 0:
                if "wild: error" not in r.err:
                    raise Violation("silent-failure-unterminated", f"wild failed (rc={r.rc}) without a diagnostic: {r.err[-200:]}")
                info["classes"].append("unterminated:diagnostic")
                info["nontrivial"] = False
                info["key"] = "unterminated"
                return info
            try:
                check_output(f"{d}/w1.out", objs, refs, False)
            except OracleFail as f:
                if f.sig == "harness":
                    raise Inconclusive(f.msg)
                raise Violation("unterminated-accepted-wrong:" + f.sig, "wild accepted an unterminated merge string "
                                "without a diagnostic and the output is wrong: " + f.msg)
            live = any(s.unterminated and s.nrefs and s.al == 0 for o in objs for s in o["secs"])
            info["classes"].append("unterminated:accepted-ok:" + ("merged-referenced" if live else "unreferenced-or-unmerged-section"))
            info["nontrivial"] = False
            info["key"] = "unterminated"
            return info

        # ---- reference: GNU ld; calibrates the predicates ----
        lr = tools.link("ld", [*files, "-o", "ld.out", "--no-gc-sections"], cwd=d, timeout=600)
        if lr.timed_out:
            raise Inconclusive("GNU ld timed out")
        if lr.rc != 0:
            raise Discard("GNU ld rejects the case: " + lr.err.strip().split("\n")[-1][:50])
        try:
            check_output(f"{d}/ld.out", objs, refs, True)
        except OracleFail as f:
            raise OracleSplit(f"GNU ld's output fails the predicate [{f.sig}]: {f.msg}")
        ld_out = self._run(f"{d}/ld.out", d)
        if ld_out != expected_out:
            raise OracleSplit("GNU ld-linked program's stdout differs from the model")

        # ---- wild, configuration 1 and 2, and --no-string-merge ----
        variants = [("cfg1", cfg, ()), ("cfg2", cfg2, ()), ("nomerge", cfg, ("--no-string-merge",))]
        for tag, c, extra in variants:
            out = f"w_{tag}.out"
            r = self._link_wild(c, files, out, d, extra)
            desc = f"[{tag}: threads={c['threads']} P={c['P']} G={c['G']} gc={c['gc']} sched={c.get('sched')} {' '.join(extra)}]"
            if crashed(r):
                raise Violation("crash", f"wild crashed {desc}: rc={r.rc} {r.err[-400:]}")
            if r.rc == 97 or "VERIF-INVARIANT" in r.err:
                raise Violation("merge-invariant", f"string-merge quiescence invariant broken {desc}: {r.err[-300:]}")
            if r.rc != 0:
                if MERGE_MSG.search(r.err):
                    raise Violation("wild-rejects-valid-merge-input", f"GNU ld links this and the program prints the expected "
                                    f"strings, wild fails {desc}: {r.err[-300:]}")
                raise Discard("wild rejects: " + r.err.strip().split("\n")[0][:50])
            try:
                n = check_output(f"{d}/{out}", objs, refs, not c["gc"] and tag != "nomerge")
                info["counters"]["strings_checked"] = info["counters"].get("strings_checked", 0) + n
            except OracleFail as f:
                if f.sig == "harness":
                    raise Inconclusive(f.msg)
                raise Violation(f.sig, f"{desc} {f.msg}", {"variant": tag})
            got = self._run(f"{d}/{out}", d)
            if got != expected_out:
                raise Violation("stdout-differs:" + ("nomerge" if tag == "nomerge" else "merge"),
                                f"{desc} program output differs from GNU ld's / the model's "
                                f"({len(got)} vs {len(expected_out)} bytes; first difference at "
                                f"{next((i for i, (a, b) in enumerate(zip(got, expected_out)) if a != b), min(len(got), len(expected_out)))})")
        info["counters"]["refs_checked"] = 3 * len(refs)

        # ---- classification ----
        totals = {}
        for o in objs:
            for s in o["secs"]:
                if s.data:
                    totals[out_name(s.name)] = totals.get(out_name(s.name), 0) + -(-len(s.data) // BLOCK) * BLOCK
        biggest = max(totals.values())
        ngroups_max = 0
        for c in (cfg, cfg2):
            g = DEFAULT_GROUP if c["G"] is None else c["G"]
            g = -(-g // BLOCK) * BLOCK
            ngroups_max = max(ngroups_max, -(-biggest // g))
        mid = any(r.mid for r in refs)
        kinds = sorted({r.frm + ":" + r.via + (":mid" if r.mid else "") for r in refs})
        for k in kinds:
            info["classes"].append("ref:" + k)
        info["classes"].append("size:" + case["size"])
        info["classes"].append("groups:" + ("1" if ngroups_max <= 1 else "2-8" if ngroups_max <= 8 else "9-64" if ngroups_max <= 64 else ">64"))
        if any(r.T % BLOCK == 0 and not r.mid for r in refs):
            info["classes"].append("ref-at-block-start-is-string-start")
        if any(r.T % BLOCK == 0 and r.mid for r in refs):
            info["classes"].append("ref-at-block-start-mid-string")
        if any(len(r.expect) > BLOCK for r in refs):
            info["classes"].append("ref-into-string-longer-than-block")
        if biggest > DEFAULT_GROUP and (cfg["G"] is None or cfg2["G"] is None):
            info["classes"].append("default-group-size-crossed")
        if any(o["cst"] and o["crefs"] for o in objs):
            info["classes"].append("nonstring-merge-ref")
        info["nontrivial"] = bool(ngroups_max >= 2 and mid)
        gb = "1" if ngroups_max <= 1 else "2-8" if ngroups_max <= 8 else "9-64" if ngroups_max <= 64 else ">64"
        info["key"] = f"{case['size']}|{cfg['G']}|{cfg2['G']}|{gb}|{','.join(kinds)}|{len(objs)}"
        return info

    @staticmethod
    def _run(path, d):
        r = tools.run(["/" + path.lstrip("/")], cwd=d, timeout=300, binary=True)
        if r.timed_out:
            raise Inconclusive("linked program timed out")
        if r.rc != 0:
            return b"<rc=%d>" % r.rc + r.out
        return r.out


CHECK = C07()
