"""C10 — Unwind tables cover every retained function.

Domain (asm flavour): 2-3 objects with 3..30 functions written in assembly with `.cfi_*`
directives: some without FDEs, some in per-function sections, some sharing `.text`, some in COMDAT
groups defined in several objects (one copy kept), some unreachable (collected by --gc-sections),
CIE flavours differing in personality/LSDA encodings (0x9b indirect, 0x1b pcrel, 0x03 udata4,
0x00 absptr), signal frames, identical CIEs repeated across objects; static / PIE / shared outputs,
with and without --eh-frame-hdr, wild thread counts {1, default, 16}.
Domain (c++ flavour): small generated C++ programs (g++ -O0/-O2, -ffunction-sections, inline
functions duplicated across translation units, destructors on the unwind path, catch/rethrow,
optionally one translation unit in a shared library) linked through g++ by wild and by GNU ld.

Oracle (vlib/ehframe.py, independent parser), clauses of the statement:
 (1) .eh_frame_hdr's fde_count equals the number of FDEs in .eh_frame and the table holds one entry
     per FDE (bijection on FDE addresses);
 (2) the table is sorted by initial location;
 (3) each entry's FDE has pc_begin equal to the entry's initial location;
 (4) every FDE's range starts at a retained function (a function symbol of the output's .symtab
     inside an executable section which the generator gave an FDE; size = the symbol's size), no
     two FDEs describe the same address;
 (5) every generated function with an FDE that is retained (defined in the output .symtab inside an
     executable section) is described by an FDE.
The validator also runs on GNU ld's and lld's outputs of the same objects (complaint there =>
Inconclusive).  c++ flavour: stdout/exit status of wild's program must equal GNU ld's program
(run-time throw/catch differential), and clauses (1)-(3) plus (5) relative to GNU ld (functions
named vf_*/vi_* that GNU ld's output covers and wild retains must be covered).
"""
import os

from hypothesis import strategies as st

from vlib import ehframe as EH
from vlib import elf as E
from vlib import slow, tools
from vlib.core import Check, Discard, Inconclusive, Violation
from vlib.elf import Elf

PLT_NAMES = (".plt", ".plt.got", ".plt.sec", ".iplt")


# -------------------------------------------------------------------------------------------------
# Structural validator


def eh_validate(path, who, expect_hdr, strict_terminators=False):
    """Parses the output's unwind tables and checks clauses (1)-(3). Returns a dict with the parsed
    data. Raises Violation."""
    try:
        elf = Elf(path)
    except E.ElfError as e:
        raise Violation("bad-elf", f"{who}: unreadable output: {e}")
    ehs = [s for s in elf.sections if s.name == ".eh_frame" and s.flags & E.SHF_ALLOC]
    hdrs = [s for s in elf.sections if s.name == ".eh_frame_hdr"]
    out = {"elf": elf, "fdes": [], "cies": {}, "hdr": None}
    if len(ehs) > 1:
        raise Violation("multiple-eh-frame", f"{who}: {len(ehs)} .eh_frame output sections")
    if ehs:
        sec = ehs[0]
        try:
            cies, fdes, terms = EH.parse_eh_frame(elf.section_data(sec), sec.addr)
        except EH.EhError as e:
            raise Violation("eh-frame-" + e.kind, f"{who}: .eh_frame: {e.msg}")
        for t in terms:
            if t + 4 != sec.size:
                from vlib.core import still_known
                if who == "wild" and not strict_terminators and still_known("C10", "eh-frame-early-terminator"):
                    # known finding: tolerated here so that the records after the terminator are still checked
                    out["early_terminator"] = True
                    continue
                raise Violation("eh-frame-early-terminator", f"{who}: zero terminator at offset {t:#x} of .eh_frame "
                                f"(size {sec.size:#x}) hides the records after it")
        out["fdes"], out["cies"] = fdes, cies
    if not hdrs:
        if expect_hdr and out["fdes"]:
            raise Violation("hdr-missing", f"{who}: --eh-frame-hdr requested, .eh_frame has {len(out['fdes'])} FDEs, "
                            "but there is no .eh_frame_hdr")
        return out
    hs = hdrs[0]
    try:
        h = EH.parse_eh_frame_hdr(elf.section_data(hs), hs.addr)
    except EH.EhError as e:
        raise Violation("hdr-" + e.kind, f"{who}: .eh_frame_hdr: {e.msg}")
    out["hdr"] = h
    if h.fde_count is None:
        return out  # no search table produced: nothing to check (statement: "when ... is produced")
    fdes = out["fdes"]
    if ehs and h.eh_frame_ptr != ehs[0].addr:
        raise Violation("hdr-eh-frame-ptr", f"{who}: eh_frame_ptr={h.eh_frame_ptr:#x}, .eh_frame is at {ehs[0].addr:#x}")
    if h.fde_count != len(fdes):
        raise Violation("hdr-count", f"{who}: .eh_frame_hdr fde_count={h.fde_count} but .eh_frame holds {len(fdes)} FDEs")
    by_addr = {f.addr: f for f in fdes}
    seen = set()
    prev = None
    for i, (loc, fa) in enumerate(h.table):
        if prev is not None and loc < prev:
            raise Violation("hdr-unsorted", f"{who}: search table entry {i} has initial location {loc:#x} after {prev:#x}")
        prev = loc
        f = by_addr.get(fa)
        if f is None:
            raise Violation("hdr-entry-not-an-fde", f"{who}: search table entry {i} ({loc:#x}) points to {fa:#x}, "
                            "where no FDE starts")
        if f.pc_begin != loc:
            raise Violation("hdr-entry-pc-mismatch", f"{who}: search table entry {i} says {loc:#x} but its FDE at {fa:#x} "
                            f"begins at pc {f.pc_begin:#x}")
        if fa in seen:
            raise Violation("hdr-duplicate-entry", f"{who}: FDE at {fa:#x} appears twice in the search table")
        seen.add(fa)
    return out


def exec_ranges(elf):
    return [(s.addr, s.addr + s.size, s.name) for s in elf.sections
            if s.flags & E.SHF_ALLOC and s.flags & E.SHF_EXECINSTR and s.size]


# -------------------------------------------------------------------------------------------------
# asm generator

PERS = [None, None, 0x9b, 0x1b, 0x03, 0x00]


def asm_strategy():
    cie = st.fixed_dictionaries({
        "pers": st.sampled_from(PERS),
        "lsda_enc": st.sampled_from([0x1b, 0x1b, 0x03, 0x00]),
        "signal": st.sampled_from([False, False, False, True]),
    })
    func = st.fixed_dictionaries({
        "obj": st.integers(0, 2),
        "place": st.sampled_from(["own", "own", "text", "comdat"]),
        "fde": st.sampled_from([True, True, True, False]),
        "cie": st.integers(0, 2),
        "lsda": st.booleans(),
        "pad": st.integers(0, 24),
        "glob": st.booleans(),
        "callees": st.lists(st.integers(0, 29), max_size=3),
        "copies": st.integers(2, 3),
    })
    return st.fixed_dictionaries({
        "flavour": st.just("asm"),
        "kind": st.sampled_from(["exe", "exe", "pie", "shared"]),
        "gc": st.sampled_from([True, True, False]),
        "hdr": st.sampled_from([True, True, True, False]),
        "threads": st.sampled_from([0, 1, 16]),
        "nobj": st.integers(2, 3),
        "cies": st.lists(cie, min_size=1, max_size=3),
        "funcs": st.lists(func, min_size=3, max_size=30),
        "roots": st.lists(st.integers(0, 29), min_size=1, max_size=4),
        "order": st.booleans(),
        # position (in link order) of an object whose .eh_frame is only a zero terminator, as crtend.o's is;
        # None = no such object. Objects after it must still get correct FDE addresses.
        "term": st.sampled_from([None, None, None, 0, 1, 2]),
    })


def cxx_strategy():
    fn = st.fixed_dictionaries({
        "tu": st.integers(0, 2),
        "inline": st.sampled_from([False, False, True]),
        "guard": st.booleans(),
        "throw_at": st.sampled_from([None, None, 1, 2, 3]),
        "catch": st.sampled_from([None, None, "int", "all-rethrow", "ex"]),
        "calls": st.lists(st.integers(1, 6), max_size=2),
        "tmpl": st.booleans(),
    })
    return st.fixed_dictionaries({
        "flavour": st.just("cxx"),
        "opt": st.sampled_from(["-O0", "-O2"]),
        "fsections": st.booleans(),
        "gc": st.booleans(),
        "ntu": st.integers(2, 3),
        "mode": st.sampled_from(["pie", "no-pie", "static", "shlib"]),
        "funcs": st.lists(fn, min_size=3, max_size=9),
        "inputs": st.lists(st.integers(0, 4), min_size=1, max_size=4, unique=True),
        "threads": st.sampled_from([0, 1, 16]),
    })


class C10(Check):
    prop = "C10"
    level = "exploration"
    technique = ("PBT with an independent .eh_frame/.eh_frame_hdr parser over generated .cfi assembly programs (COMDAT "
                 "duplicates, GC'd functions, CIE flavours), calibrated on GNU ld and lld; generated C++ throw/catch "
                 "programs run differentially against GNU ld")
    rule = ("Hypothesis draws functions (object, own section/.text/COMDAT, FDE or not, CIE flavour, LSDA, callees), roots, "
            "output kind, gc, hdr, threads; or a C++ program shape; non-trivial (asm) = >= 1 function with an FDE discarded "
            "(GC or COMDAT duplicate) and >= 2 objects using an identical CIE; non-trivial (c++) = an exception propagated "
            "through >= 2 frames; distinct by (flavour, kind, #FDEs kept/dropped, CIE profile, gc, hdr)")
    assumptions = ["GNU ld 2.40 and lld 14 outputs pass the same validator (checked per case)",
                   "a function is 'retained' iff the output .symtab defines it inside an executable section",
                   "c++ flavour: GNU ld's program behaviour is the reference for stdout/exit status"]
    quick_cases = 280
    thorough_cases = 6000

    def strategy(self, tier):
        a, c = asm_strategy(), cxx_strategy()
        # hand-written .eh_frame: FDEs whose pc-begin is relocated against a *named function symbol* at a non-zero
        # offset of its section (gas and LLVM always emit section symbol + addend for .cfi-generated FDEs)
        h = st.fixed_dictionaries({
            "flavour": st.just("handfde"),
            "pads": st.lists(st.sampled_from([0, 1, 3, 16, 29, 64]), min_size=2, max_size=5),
            "local": st.lists(st.booleans(), min_size=5, max_size=5),
            "hdr": st.sampled_from([True, True, False]),
            "gc": st.booleans(),
            "kind": st.sampled_from(["exe", "pie", "shared"]),
            "threads": st.sampled_from([0, 1, 4]),
        })
        # 6 assembly cases per C++ case (one_of would give 1:1; the C++ flavour costs ~10x more)
        return st.integers(0, 7).flatmap(lambda k: c if k == 0 else h if k == 7 else a)

    def run_case(self, case, ctx):
        if case["flavour"] == "asm":
            return self.run_asm(case, ctx)
        if case["flavour"] == "handfde":
            return self.run_handfde(case, ctx)
        return self.run_cxx(case, ctx)

    def run_handfde(self, case, ctx):
        d = ctx.dir
        n = len(case["pads"])
        L = ["    .text", "    .globl _start", "_start:"]
        for i in range(n):
            L.append(f"    call hf{i}")
        L += ["    ret", '    .section .text.hf,"ax",@progbits']
        for i, pad in enumerate(case["pads"]):
            L.append(f"    .skip {pad}, 0x90")
            if not case["local"][i]:
                L.append(f"    .globl hf{i}")
            L += [f"    .type hf{i},@function", f"hf{i}:", f"    mov ${i}, %eax", "    ret", f"    .size hf{i}, .-hf{i}", f".Lend{i}:"]
        # CIE: version 1, "zR", code align 1, data align -8, RA 16, augmentation data: pcrel|sdata4; def_cfa rsp+8; offset ra
        L += ['    .section .eh_frame,"a",@progbits', ".Lcie:", "    .long .Lcie_end - .Lcie - 4", "    .long 0", "    .byte 1",
              '    .asciz "zR"', "    .uleb128 1", "    .sleb128 -8", "    .byte 16", "    .uleb128 1", "    .byte 0x1b",
              "    .byte 0x0c, 7, 8", "    .byte 0x90, 1", "    .balign 8", ".Lcie_end:"]
        for i in range(n):
            L += [f".Lfde{i}:", f"    .long .Lfde{i}_end - .Lfde{i} - 4", f"    .long . - .Lcie", f"    .long hf{i} - .",
                  f"    .long .Lend{i} - hf{i}", "    .uleb128 0", "    .balign 8", f".Lfde{i}_end:"]
        L.append('    .section .note.GNU-stack,"",@progbits')
        slow.asm("\n".join(L) + "\n", "hf.o", cwd=d)
        funcs = {f"hf{i}" for i in range(n)}
        res = {}
        for who in ("ld", "wild"):
            args = ["hf.o", "-o", f"out.{who}", "--eh-frame-hdr" if case["hdr"] else "--no-eh-frame-hdr",
                    "--gc-sections" if case["gc"] else "--no-gc-sections"]
            if case["kind"] == "pie":
                args = ["-pie"] + args
            elif case["kind"] == "shared":
                args = ["-shared"] + args
            if who == "wild" and case["threads"]:
                args.append(f"--threads={case['threads']}")
            r = slow.link(who, args, cwd=d)
            if r.timed_out:
                raise Inconclusive(f"{who} timed out")
            if r.rc != 0:
                if who == "ld":
                    raise Discard("GNU ld rejects: " + r.err.strip().split("\n")[-1][:60])
                if r.rc < 0 or "panicked at" in r.err:
                    raise Violation("wild-crash", f"wild crashed on hand-written unwind input: rc={r.rc} {r.err[-300:]}")
                raise Violation("wild-rejects-valid-link", f"GNU ld links this case, wild fails: {r.err[-400:]}")
            try:
                parsed = eh_validate(f"{d}/out.{who}", who, case["hdr"], ctx.strict)
                elf = parsed["elf"]
                addr = {sy.name: sy.value for sy in elf.symtab() if sy.name in funcs and sy.shndx != E.SHN_UNDEF}
                starts = {f.pc_begin for f in parsed["fdes"]}
                for name in sorted(funcs):
                    if name not in addr:
                        raise Violation("retained-function-missing", f"{who}: {name} is called from _start but absent from the output")
                    if addr[name] not in starts:
                        raise Violation("retained-function-lost-fde", f"{who}: {name} at {addr[name]:#x} had an FDE in its input but no "
                                        "FDE of the output begins there")
            except Violation as v:
                if who != "wild":
                    raise Inconclusive(f"oracle self-check failed: validator flags {who} output: {v}")
                raise
            res[who] = parsed
        nz = sum(1 for i, pad in enumerate(case["pads"]) if i > 0 or pad)
        return {"nontrivial": bool(case["hdr"] and nz), "key": f"handfde|{case['kind']}|{case['hdr']}|{case['gc']}|{case['pads']}",
                "classes": ["handfde:" + case["kind"], "hdr" if case["hdr"] else "nohdr", "gc" if case["gc"] else "nogc",
                            "fde-reloc-vs-named-symbol"],
                "counters": {"fdes_checked": len(res["wild"]["fdes"])}}

    # ------------------------------------------------------------------------------------------
    # asm flavour
    @staticmethod
    def plan(case):
        """Pure normalisation of the drawn case into concrete functions."""
        nobj = case["nobj"]
        pic = case["kind"] != "exe"
        cies = []
        for c in case["cies"]:
            c = dict(c)
            if pic:
                # absolute encodings need text relocations in position-independent outputs
                if c["pers"] in (0x03, 0x00):
                    c["pers"] = 0x9b
                if c["lsda_enc"] in (0x03, 0x00):
                    c["lsda_enc"] = 0x1b
            cies.append(c)
        funcs = []
        for i, f in enumerate(case["funcs"]):
            g = dict(f)
            g["idx"] = i
            g["obj"] = f["obj"] % nobj
            g["cie"] = f["cie"] % len(cies)
            if g["place"] == "comdat":
                g["name"] = f"vc{i}"
                g["glob"] = True
                g["objs"] = sorted({(g["obj"] + k) % nobj for k in range(min(f["copies"], nobj))})
            else:
                g["name"] = f"vf{i}"
                g["objs"] = [g["obj"]]
            funcs.append(g)
        n = len(funcs)
        for g in funcs:
            cal = []
            for c in g["callees"]:
                t = funcs[c % n]
                if t["idx"] == g["idx"]:
                    continue
                # a local function can only be called from its own object
                if t["glob"] or (t["objs"] == g["objs"] and len(g["objs"]) == 1):
                    cal.append(t["idx"])
            g["cal"] = sorted(set(cal))
        roots = sorted({r % n for r in case["roots"]})
        roots = [r for r in roots if funcs[r]["glob"] or funcs[r]["objs"] == [0]]
        return cies, funcs, roots

    def build_asm(self, case, d):
        cies, funcs, roots = self.plan(case)
        nobj = case["nobj"]
        pic = case["kind"] != "exe"
        srcs = [[] for _ in range(nobj)]
        uses_pers = any(c["pers"] is not None for c in cies)
        for g in funcs:
            for obj in g["objs"]:
                c = cies[g["cie"]]
                s = []
                nm = g["name"]
                if g["place"] == "comdat":
                    s.append(f'.section .text.{nm},"axG",@progbits,grp_{nm},comdat\n.weak {nm}\n')
                elif g["place"] == "own":
                    s.append(f'.section .text.{nm},"ax",@progbits\n')
                    if g["glob"]:
                        s.append(f".globl {nm}\n")
                else:
                    s.append(".text\n")
                    if g["glob"]:
                        s.append(f".globl {nm}\n")
                s.append(f".type {nm},@function\n{nm}:\n")
                if g["fde"]:
                    s.append(".cfi_startproc\n")
                    if c["pers"] is not None:
                        sym = "vpers_slot" if c["pers"] & 0x80 else "vpers"
                        s.append(f".cfi_personality {c['pers']:#x}, {sym}\n")
                        if g["lsda"]:
                            s.append(f".cfi_lsda {c['lsda_enc']:#x}, .Llsda_{nm}_{obj}\n")
                    if c["signal"]:
                        s.append(".cfi_signal_frame\n")
                    s.append("pushq %rbp\n.cfi_def_cfa_offset 16\n.cfi_offset 6, -16\n")
                else:
                    s.append("pushq %rbp\n")
                if g["pad"]:
                    s.append(f".rept {g['pad']}\nnop\n.endr\n")
                for t in g["cal"]:
                    tn = funcs[t]["name"]
                    s.append(f"call {tn}@PLT\n" if pic and funcs[t]["glob"] else f"call {tn}\n")
                s.append("popq %rbp\n")
                if g["fde"]:
                    s.append(".cfi_def_cfa_offset 8\n")
                s.append("ret\n")
                if g["fde"]:
                    s.append(".cfi_endproc\n")
                s.append(f".size {nm}, .-{nm}\n")
                if g["fde"] and c["pers"] is not None and g["lsda"]:
                    if g["place"] == "comdat":
                        s.append(f'.section .gcc_except_table.{nm},"aG",@progbits,grp_{nm},comdat\n')
                    else:
                        s.append(f'.section .gcc_except_table.{nm},"a",@progbits\n')
                    s.append(f".Llsda_{nm}_{obj}:\n.byte 0xff,0xff,0x01,0x00\n")
                srcs[obj].append("".join(s))
        start = ['.section .text._start,"ax",@progbits\n.globl _start\n.type _start,@function\n_start:\n.cfi_startproc\n']
        for r in roots:
            tn = funcs[r]["name"]
            start.append(f"call {tn}@PLT\n" if pic and funcs[r]["glob"] else f"call {tn}\n")
        start.append("movl $60, %eax\nxorl %edi, %edi\nsyscall\n.cfi_endproc\n.size _start, .-_start\n")
        srcs[0].append("".join(start))
        if uses_pers:
            srcs[0].append('.section .text.vpers,"ax",@progbits\n.globl vpers\n.hidden vpers\n.type vpers,@function\nvpers:\n'
                           '.cfi_startproc\nret\n.cfi_endproc\n.size vpers,.-vpers\n'
                           '.section .data.rel.local.vpers_slot,"aw",@progbits\n.balign 8\n.globl vpers_slot\n'
                           '.hidden vpers_slot\nvpers_slot: .quad vpers\n')
        objs = []
        order = list(range(nobj))
        for obj in order:
            slow.asm("".join(srcs[obj]), f"o{obj}.o", cwd=d)
            objs.append(f"o{obj}.o")
        if case["order"]:
            objs = [objs[0]] + objs[1:][::-1]
        if case.get("term") is not None:
            slow.asm('.section .eh_frame,"a",@progbits\n.long 0\n', "term.o", cwd=d)
            objs.insert(min(case["term"] + 1, len(objs)), "term.o")
        return cies, funcs, roots, objs

    def asm_link_args(self, case, who, objs, out):
        a = []
        k = case["kind"]
        if k == "pie":
            a += ["-pie", "--no-dynamic-linker"] if who != "wild" else ["-pie"]
        elif k == "shared":
            a += ["-shared"]
        a += ["--eh-frame-hdr"] if case["hdr"] else ["--no-eh-frame-hdr"]
        a += ["--gc-sections"] if case["gc"] else ["--no-gc-sections"]
        if who == "wild" and case["threads"]:
            a += [f"--threads={case['threads']}"]
        return a + objs + ["-o", out]

    def asm_semantic(self, who, parsed, funcs):
        """Clauses (4) and (5)."""
        elf = parsed["elf"]
        xr = exec_ranges(elf)

        def in_exec(a):
            return next((n for lo, hi, n in xr if lo <= a < hi), None)

        gen = {g["name"]: g for g in funcs}
        gen["_start"] = {"fde": True, "name": "_start"}
        gen["vpers"] = {"fde": True, "name": "vpers"}
        syms = {}
        for s in elf.symtab():
            if s.name in gen and s.shndx != E.SHN_UNDEF and s.type == E.STT_FUNC:
                if s.name in syms and syms[s.name].value != s.value:
                    raise Violation("function-defined-twice", f"{who}: .symtab defines {s.name} at {syms[s.name].value:#x} "
                                    f"and {s.value:#x}")
                syms[s.name] = s
        retained = {n: s for n, s in syms.items() if in_exec(s.value) is not None}
        by_addr = {}
        for n, s in retained.items():
            by_addr.setdefault(s.value, []).append(n)
        seen_pc = {}
        covered = set()
        for f in parsed["fdes"]:
            secname = in_exec(f.pc_begin)
            if secname in PLT_NAMES:
                continue  # linker-synthesised FDE for its own PLT code
            if f.pc_begin in seen_pc:
                raise Violation("duplicate-fde", f"{who}: FDEs at {seen_pc[f.pc_begin]:#x} and {f.addr:#x} both begin at pc "
                                f"{f.pc_begin:#x} ({by_addr.get(f.pc_begin)})")
            seen_pc[f.pc_begin] = f.addr
            names = by_addr.get(f.pc_begin)
            if not names:
                raise Violation("fde-without-retained-function", f"{who}: FDE at {f.addr:#x} describes pc {f.pc_begin:#x}"
                                f"+{f.pc_range:#x} (section {secname}), which is not the start of a retained function")
            if not any(gen[n]["fde"] for n in names):
                raise Violation("fde-for-function-without-cfi", f"{who}: FDE at {f.addr:#x} describes {names}, which had no FDE")
            size = max(retained[n].size for n in names)
            if f.pc_range != size:
                raise Violation("fde-range", f"{who}: FDE for {names} covers {f.pc_range:#x} bytes, the function has {size:#x}")
            covered.update(names)
        for n, s in retained.items():
            if gen[n]["fde"] and n not in covered:
                raise Violation("retained-function-lost-fde", f"{who}: {n} is retained at {s.value:#x} and had an FDE in its "
                                "input, but no FDE in the output .eh_frame begins there")
        return retained, covered

    def excluded_by_construction(self, case):
        """Known finding comdat-duplicate-kept-without-gc: --no-gc-sections and a COMDAT function with
        an FDE defined in >= 2 objects."""
        if case.get("flavour") != "asm" or case["gc"]:
            return None
        cies, funcs, roots = self.plan(case)
        if any(g["place"] == "comdat" and g["fde"] and len(g["objs"]) >= 2 for g in funcs):
            return "comdat-duplicate-kept-without-gc"
        return None

    @staticmethod
    def _extra_fdes_are_comdat_copies(parsed, funcs):
        """True iff every FDE that does not start at a function symbol has the size of a duplicated
        COMDAT function (strict replay of the known finding)."""
        elf = parsed["elf"]
        starts = {s.value for s in elf.symtab() if s.shndx != E.SHN_UNDEF and s.type == E.STT_FUNC}
        sizes = {s.size for s in elf.symtab() if s.type == E.STT_FUNC and s.name in
                 {g["name"] for g in funcs if g["place"] == "comdat" and g["fde"] and len(g["objs"]) >= 2}}
        extra = [f for f in parsed["fdes"] if f.pc_begin not in starts]
        return bool(extra) and all(f.pc_range in sizes for f in extra)

    def run_asm(self, case, ctx):
        d = ctx.dir
        cies, funcs, roots, objs = self.build_asm(case, d)
        res = {}
        for who in ("ld", "lld", "wild"):
            out = f"out.{who}"
            r = slow.link(who, self.asm_link_args(case, who, objs, out), cwd=d)
            if who == "wild":
                if r.timed_out:
                    raise Inconclusive("wild timed out")
                if r.rc < 0 or "panicked at" in r.err:
                    raise Violation("wild-crash", f"wild crashed on valid unwind input: rc={r.rc} {r.err[-300:]}")
                if r.rc != 0:
                    raise Violation("wild-rejects-valid-link", f"GNU ld links this case, wild fails: {r.err[-400:]}")
            elif r.rc != 0 or r.timed_out:
                if who == "ld":
                    raise Discard("GNU ld rejects: " + r.err.strip().split("\n")[-1][:60])
                res[who] = None
                continue
            try:
                parsed = eh_validate(f"{d}/{out}", who, case["hdr"], ctx.strict)
                retained, covered = self.asm_semantic(who, parsed, funcs)
            except Violation as v:
                if who != "wild":
                    raise Inconclusive(f"oracle self-check failed: validator flags {who} output: {v}")
                if v.signature == "fde-without-retained-function" and self.excluded_by_construction(case) \
                        and self._extra_fdes_are_comdat_copies(parsed, funcs):
                    raise Violation("comdat-duplicate-kept-without-gc", v.message, v.detail)
                raise
            res[who] = (parsed, retained, covered)
        parsed, retained, covered = res["wild"]
        all_names = {g["name"] for g in funcs}
        with_fde = {g["name"] for g in funcs if g["fde"]}
        dropped_fde = sorted(n for n in with_fde if n not in retained)
        comdat_dups = sum(len(g["objs"]) - 1 for g in funcs if g["place"] == "comdat" and g["fde"] and g["name"] in retained)
        # identical CIE used by >= 2 objects
        cie_users = {}
        for g in funcs:
            if g["fde"]:
                for o in g["objs"]:
                    key = (g["cie"], bool(g["lsda"]) and cies[g["cie"]]["pers"] is not None)
                    cie_users.setdefault(key, set()).add(o)
        shared_cie = any(len(v) >= 2 for v in cie_users.values())
        classes = [f"asm:{case['kind']}", "gc" if case["gc"] else "nogc", "hdr" if case["hdr"] else "nohdr",
                   f"threads:{case['threads']}"]
        if case.get("term") is not None:
            classes.append("mid-link-terminator")
        if parsed.get("early_terminator"):
            classes.append("early-terminator-tolerated")
        if dropped_fde:
            classes.append("gc-dropped-fde")
        if comdat_dups:
            classes.append("comdat-dup-fde")
        if shared_cie:
            classes.append("shared-cie")
        for c in cies:
            classes.append("pers:" + (hex(c["pers"]) if c["pers"] is not None else "none"))
        if len(parsed["cies"]) < len(res["ld"][0]["cies"]):
            classes.append("fewer-cies-than-ld")
        nontrivial = bool(dropped_fde or comdat_dups) and shared_cie and parsed["hdr"] is not None
        key = (f"asm|{case['kind']}|{case['gc']}|{case['hdr']}|{len(parsed['fdes'])}|{len(dropped_fde)}|{comdat_dups}|"
               f"{len(parsed['cies'])}|{sorted(str(c['pers']) for c in cies)}")
        return {"nontrivial": nontrivial, "key": key, "classes": classes,
                "counters": {"fdes_checked": len(parsed["fdes"]), "fdes_dropped": len(dropped_fde) + comdat_dups}}

    # ------------------------------------------------------------------------------------------
    # c++ flavour
    def build_cxx(self, case, d):
        ntu = case["ntu"]
        funcs = [dict(f, idx=i, tu=f["tu"] % ntu) for i, f in enumerate(case["funcs"])]
        n = len(funcs)
        hdr = ["#include <cstdio>\n",
               "struct Ex { int v; };\n",
               "struct Guard { int id; explicit Guard(int i) : id(i) {} ~Guard() { std::printf(\"d%d\\n\", id); } };\n"]
        for f in funcs:
            i = f["idx"]
            if not f["inline"]:
                hdr.append(f"int vf_{i}(int x);\n")
        bodies = {}
        for f in funcs:
            i = f["idx"]
            b = []
            if f["guard"]:
                b.append(f"  Guard g({i});\n")
            if f["throw_at"] is not None:
                if i % 2:
                    b.append(f"  if (x == {f['throw_at']}) throw Ex{{{i}}};\n")
                else:
                    b.append(f"  if (x == {f['throw_at']}) throw {i};\n")
            calls = sorted({i + c for c in f["calls"] if i + c < n})
            expr = " + ".join([f"{'vi' if funcs[c]['inline'] else 'vf'}_{c}(x)" for c in calls] + ["x"])
            if f["tmpl"]:
                expr = f"vt<{i}>({expr})"
            if f["catch"] == "int":
                b.append(f"  int r;\n  try {{ r = {expr}; }} catch (int e) {{ std::printf(\"c{i}:%d\\n\", e); r = e; }}\n  return r;\n")
            elif f["catch"] == "ex":
                b.append(f"  int r;\n  try {{ r = {expr}; }} catch (const Ex &e) {{ std::printf(\"x{i}:%d\\n\", e.v); r = e.v; }}\n  return r;\n")
            elif f["catch"] == "all-rethrow":
                b.append(f"  int r;\n  try {{ r = {expr}; }} catch (...) {{ std::printf(\"r{i}\\n\"); throw; }}\n  return r;\n")
            else:
                b.append(f"  return {expr};\n")
            bodies[i] = "".join(b)
        hdr.append("template <int N> int vt(int x) { Guard g(1000 + N); if (x == 1000 + N) throw N; return x + N; }\n")
        # inline functions live in the header (COMDAT copies in every TU); later ones first (callees)
        for f in reversed(funcs):
            if f["inline"]:
                hdr.append(f"inline int vi_{f['idx']}(int x) {{\n{bodies[f['idx']]}}}\n")
        tools.write(f"{d}/v.h", "".join(hdr))
        tus = [["#include \"v.h\"\n"] for _ in range(ntu)]
        for f in funcs:
            if not f["inline"]:
                tus[f["tu"]].append(f"int vf_{f['idx']}(int x) {{\n{bodies[f['idx']]}}}\n")
            else:
                # make sure each TU instantiates the inline function (address taken)
                for t in range(ntu):
                    tus[t].append(f"int (*vp_{f['idx']}_{t})(int) = vi_{f['idx']};\n")
        first = f"{'vi' if funcs[0]['inline'] else 'vf'}_0"
        main = ["int main() {\n"]
        for x in case["inputs"]:
            main.append(f"  try {{ std::printf(\"r%d\\n\", {first}({x})); }} catch (int e) {{ std::printf(\"m:%d\\n\", e); }} "
                        f"catch (const Ex &e) {{ std::printf(\"mx:%d\\n\", e.v); }}\n")
        main.append("  return 0;\n}\n")
        tus[0].append("".join(main))
        flags = [case["opt"], "-fno-inline" if case["opt"] == "-O2" and len(funcs) % 2 else "-g0"]
        if case["fsections"]:
            flags.append("-ffunction-sections")
        mode = case["mode"]
        flags.append({"pie": "-fPIE", "no-pie": "-fno-pie", "static": "-fno-pie", "shlib": "-fPIC"}[mode])
        objs = []
        for t in range(ntu):
            slow.cc("".join(tus[t]), f"t{t}.o", flags=flags, cwd=d, compiler="g++", lang="c++")
            objs.append(f"t{t}.o")
        return funcs, objs

    def cxx_link(self, case, who, objs, d):
        mode = case["mode"]
        extra = []
        if case["gc"]:
            extra.append("-Wl,--gc-sections")
        if who == "wild" and case["threads"]:
            extra.append(f"-Wl,--threads={case['threads']}")
        exe = f"prog.{who}"
        if mode == "shlib":
            lib = f"libv_{who}.so"
            r = tools.cc_link(who, ["-shared", "-o", lib, objs[-1]] + extra, cwd=d, compiler="g++", timeout=400)
            if r.rc != 0:
                return r, exe
            r = tools.cc_link(who, ["-o", exe] + objs[:-1] + [lib, f"-Wl,-rpath,{d}"] + extra, cwd=d, compiler="g++", timeout=400)
            return r, exe
        m = {"pie": ["-pie"], "no-pie": ["-no-pie"], "static": ["-static", "-no-pie"]}[mode]
        r = tools.cc_link(who, m + ["-o", exe] + objs + extra, cwd=d, compiler="g++", timeout=400)
        return r, exe

    def run_cxx(self, case, ctx):
        d = ctx.dir
        funcs, objs = self.build_cxx(case, d)
        outs = {}
        for who in ("ld", "wild"):
            r, exe = self.cxx_link(case, who, objs, d)
            if r.timed_out:
                raise Inconclusive(f"g++ link with {who} did not finish within 400 s")
            if r.rc != 0:
                if who == "ld":
                    raise Discard("g++/GNU ld rejects the program: " + r.err.strip().split("\n")[-1][:60])
                if r.rc < 0 or "panicked at" in r.err:
                    raise Violation("wild-crash", f"wild crashed linking C++: {r.err[-300:]}")
                raise Violation("wild-rejects-valid-link", f"GNU ld links the C++ program, wild fails: {r.err[-400:]}")
            run = tools.run_exe(f"{d}/{exe}", cwd=d, timeout=120)
            if run.timed_out:
                raise Inconclusive(f"program linked by {who} did not finish within 120 s (machine load?)")
            outs[who] = (run.rc, run.out, run.err[-200:])
            files = [exe] + ([f"libv_{who}.so"] if case["mode"] == "shlib" else [])
            parsed = []
            for fn in files:
                try:
                    parsed.append(eh_validate(f"{d}/{fn}", who, False, ctx.strict))  # gcc decides about --eh-frame-hdr
                except Violation as v:
                    if who != "wild":
                        raise Inconclusive(f"oracle self-check failed: validator flags {who} output {fn}: {v}")
                    raise
            outs[who + "_parsed"] = parsed
        if outs["ld"][0] != 0:
            raise Inconclusive(f"reference program exits {outs['ld'][0]}: {outs['ld'][2]}")
        if outs["wild"][:2] != outs["ld"][:2]:
            raise Violation("cxx-behaviour-differs", f"C++ program linked by wild: rc={outs['wild'][0]} stdout="
                            f"{outs['wild'][1][-300:]!r} stderr={outs['wild'][2]!r}; linked by GNU ld: rc=0 stdout="
                            f"{outs['ld'][1][-300:]!r}")
        # clause (5) relative to GNU ld, for generated functions
        nf = 0
        for pl, pw in zip(outs["ld_parsed"], outs["wild_parsed"]):
            nf += len(pw["fdes"])
            ld_cov = self._covered_names(pl)
            w_cov = self._covered_names(pw)
            w_syms = {s.name for s in pw["elf"].symtab() if s.shndx != E.SHN_UNDEF and s.type == E.STT_FUNC}
            for n in sorted(ld_cov):
                if n in w_syms and n not in w_cov:
                    raise Violation("retained-function-lost-fde", f"wild: {n} is retained and GNU ld's output has an FDE for it, "
                                    "wild's .eh_frame has none")
            xr = exec_ranges(pw["elf"])
            for f in pw["fdes"]:
                if not any(lo <= f.pc_begin and f.pc_begin + f.pc_range <= hi for lo, hi, _ in xr):
                    raise Violation("fde-without-retained-function", f"wild: FDE at {f.addr:#x} covers {f.pc_begin:#x}+"
                                    f"{f.pc_range:#x}, outside every executable section")
        out = outs["ld"][1]
        depth2 = any(line.startswith(("c", "x", "m", "r")) for line in out.split("\n")) and "d" in out
        classes = [f"cxx:{case['mode']}", case["opt"], "cxx-gc" if case["gc"] else "cxx-nogc"]
        if "m:" in out or "mx:" in out:
            classes.append("caught-in-main")
        if "\nr" in "\n" + out and any(ln.startswith("r") and not ln[1:].lstrip("-").isdigit() for ln in out.split("\n")):
            classes.append("rethrow")
        thrown = any(ln[:1] in "cxm" for ln in out.split("\n"))
        if thrown:
            classes.append("exception-thrown")
        key = f"cxx|{case['mode']}|{case['opt']}|{case['gc']}|{hash_text(out)}"
        return {"nontrivial": thrown and depth2, "key": key, "classes": classes, "counters": {"fdes_checked": nf}}

    @staticmethod
    def _covered_names(parsed):
        starts = {f.pc_begin for f in parsed["fdes"]}
        out = set()
        for s in parsed["elf"].symtab():
            if s.shndx != E.SHN_UNDEF and s.type == E.STT_FUNC and (s.name.startswith(("_Z2vf", "_Z2vi", "_Z5vf", "_Z5vi"))
                                                                  or "vf_" in s.name or "vi_" in s.name):
                if s.value in starts:
                    out.add(s.name)
        return out


def hash_text(t):
    import hashlib
    return hashlib.sha1(t.encode()).hexdigest()[:10]


CHECK = C10()
