"""C21 — Relinking never alters a running program or loaded library (default options).

A case is a history: a generated *payload* (N page-sized read-only data blocks each starting with
an ID marker + M functions each alone on its own page returning an ID, and `walk()` which digests
all of them) is linked by wild to path P as one of: static non-PIE executable, static PIE,
dynamic non-PIE and PIE executables (through `gcc -B<wild>`), a shared library loaded at start
through DT_NEEDED, a shared library loaded with dlopen().  The program prints READY and blocks on
stdin *before* touching any payload page.  The harness then relinks the same path P with wild
(default write-mode options; thread count / fork varied) from a different payload (other IDs; same
size, larger or smaller so page contents shift), waits until wild and its forked worker have
exited, and only then releases the process, which first-touches >= 100 file-backed pages and
prints the digest.

Oracle (the statement): the digest printed by the process that was running across the relink
equals the digest of a control run of the old output (no relink), and the process exits 0.
Afterwards, if wild exited 0 the path holds the new output (running it prints the new payload's
digest, taken from a control link of the new inputs at another path); if wild exited non-zero that
is the "fails to update it in place" branch of the statement and only the running process is
judged.
"""
import os
import select
import signal
import subprocess
import time

from hypothesis import strategies as st

from vlib import core, hist, tools
from vlib.core import Check, Discard, Inconclusive, Violation

KINDS = ["static", "static_pie", "dyn_nonpie", "dyn_pie", "shlib_needed", "shlib_dlopen"]

START_ASM = r"""
    .globl _start
    .text
_start:
    xorl %ebp, %ebp
    andq $-16, %rsp
    movl $1, %eax
    movl $1, %edi
    leaq ready(%rip), %rsi
    movl $6, %edx
    syscall
    xorl %eax, %eax
    xorl %edi, %edi
    leaq buf(%rip), %rsi
    movl $1, %edx
    syscall
    call walk
    leaq buf(%rip), %rdi
    movl $16, %ecx
1:  rolq $4, %rax
    movl %eax, %edx
    andl $15, %edx
    leaq hexd(%rip), %r8
    movb (%r8,%rdx), %dl
    movb %dl, (%rdi)
    incq %rdi
    decl %ecx
    jnz 1b
    movb $10, (%rdi)
    movl $1, %eax
    movl $1, %edi
    leaq buf(%rip), %rsi
    movl $17, %edx
    syscall
    movl $60, %eax
    xorl %edi, %edi
    syscall
    .section .rodata.start,"a"
ready: .ascii "READY\n"
hexd:  .ascii "0123456789abcdef"
    .bss
buf: .skip 32
"""

MAIN_C = r"""
#include <stdio.h>
#include <unistd.h>
extern unsigned long walk(void);
int main(void) {
    char c;
    if (write(1, "READY\n", 6) != 6) return 3;
    if (read(0, &c, 1) < 0) return 4;
    printf("%016lx\n", walk());
    return 0;
}
"""

MAIN_DL_C = r"""
#include <stdio.h>
#include <unistd.h>
#include <dlfcn.h>
int main(int argc, char **argv) {
    char c;
    void *h = dlopen(argv[1], RTLD_NOW);
    if (!h) { fprintf(stderr, "dlopen: %s\n", dlerror()); return 5; }
    unsigned long (*walk)(void) = (unsigned long (*)(void))dlsym(h, "walk");
    if (!walk) return 6;
    if (write(1, "READY\n", 6) != 6) return 3;
    if (read(0, &c, 1) < 0) return 4;
    printf("%016lx\n", walk());
    return 0;
}
"""


def payload_asm(ident, n_ro, n_fn):
    """Position-independent payload: no relocations against its own pages."""
    out = ['    .section .rodata.payload,"a",@progbits', "    .p2align 12", "ro_base:"]
    for k in range(n_ro):
        out.append(f"    .quad 0x{(ident << 32 | k) & 0xffffffffffffffff:x}")
        out.append(f"    .fill 4088, 1, {(ident * 7 + k * 13) & 0xff}")
    out += ["    .text", "    .p2align 12"]
    for k in range(n_fn):
        out += [f"fn_{k}:", f"    movl ${(ident * 1000 + k) & 0x7fffffff}, %eax", "    ret", "    .p2align 12"]
    out += ["    .globl walk", "    .type walk, @function", "walk:",
            "    xorl %eax, %eax", "    leaq ro_base(%rip), %rsi", f"    movl ${n_ro}, %ecx",
            "1:  movq (%rsi), %rdx", "    rolq $7, %rax", "    xorq %rdx, %rax", "    movzbq 2048(%rsi), %rdx",
            "    addq %rdx, %rax", "    addq $4096, %rsi", "    decl %ecx", "    jnz 1b",
            "    pushq %rbx", "    movq %rax, %rbx"]
    for k in range(n_fn):
        out += [f"    call fn_{k}", "    rolq $5, %rbx", "    addq %rax, %rbx"]
    out += ["    movq %rbx, %rax", "    popq %rbx", "    ret", "    .size walk, .-walk",
            '    .section .note.GNU-stack,"",@progbits', ""]
    return "\n".join(out)


def model_digest(ident, n_ro, n_fn):
    m = (1 << 64) - 1

    def rol(v, n):
        return ((v << n) | (v >> (64 - n))) & m
    a = 0
    for k in range(n_ro):
        a = rol(a, 7) ^ ((ident << 32 | k) & m)
        a = (a + ((ident * 7 + k * 13) & 0xff)) & m
    for k in range(n_fn):
        a = (rol(a, 5) + ((ident * 1000 + k) & 0x7fffffff)) & m
    return f"{a:016x}"


class Proc:
    """The long-running program: started, waits for READY, later released."""

    def __init__(self, argv, cwd, env=None):
        e = dict(os.environ)
        e.update(env or {})
        self.p = subprocess.Popen(argv, cwd=cwd, env=e, stdin=subprocess.PIPE, stdout=subprocess.PIPE,
                                  stderr=subprocess.PIPE, start_new_session=True)

    def wait_ready(self, timeout=90):
        fd = self.p.stdout.fileno()
        buf = b""
        end = time.time() + timeout
        while b"READY\n" not in buf:
            left = end - time.time()
            if left <= 0:
                self.kill()
                raise Inconclusive("program did not print READY in time")
            r, _, _ = select.select([fd], [], [], left)
            if r:
                b = os.read(fd, 64)
                if not b:
                    err = self.p.stderr.read().decode("utf-8", "replace")
                    self.kill()
                    raise Inconclusive(f"program exited before READY: rc={self.p.poll()} {err[-200:]}")
                buf += b
        self.pre = buf.split(b"READY\n", 1)[1]

    def release(self, timeout=120):
        try:
            out, err = self.p.communicate(b"x", timeout=timeout)
        except subprocess.TimeoutExpired:
            self.kill()
            raise Inconclusive("released program did not finish")
        return self.p.returncode, (self.pre + out).decode("utf-8", "replace").strip(), err.decode("utf-8", "replace")

    def kill(self):
        try:
            os.killpg(self.p.pid, signal.SIGKILL)
        except ProcessLookupError:
            pass
        try:
            self.p.communicate(timeout=5)
        except Exception:  # noqa: BLE001
            pass


class C21(Check):
    prop = "C21"
    level = "exploration"
    technique = ("history PBT (Hypothesis): run the old output, relink the same path with wild while it is blocked, "
                 "release it, compare the digest over >=100 first-touched file-backed pages with a control run; then "
                 "check the path holds the new output")
    rule = ("a history = output kind (static, static-pie, dynamic non-PIE, dynamic PIE executable via execve; shared "
            "library via DT_NEEDED / dlopen) x relink size (same/larger/smaller) x hard-linked peer (and which name is "
            "executed) x threads x fork x payload sizes; non-trivial = the process first-touches >=100 file-backed "
            "payload pages after the relink and old/new payload digests differ; distinct by "
            "(kind, relink, peer, threads-class, fork, n_ro, n_fn)")
    assumptions = [
        "payload pages are untouched before READY by construction (no relocations target them, no code in them has run)",
        "a wild failure (non-zero exit) when the output is busy is allowed by the statement; only exit-0 relinks must leave the new output",
    ]
    quick_cases = 160
    thorough_cases = 2000
    max_workers = 12

    def strategy(self, tier):
        return st.fixed_dictionaries({
            "kind": st.sampled_from(KINDS),
            "relink": st.sampled_from(["same", "larger", "smaller"]),
            "n_ro": st.integers(70, 130),
            "n_fn": st.integers(34, 60),
            "delta": st.integers(3, 40),
            # how the output path relates to the file the process runs: a hard-linked peer name, or the output
            # path is a symlink to the real file (libfoo.so -> libfoo.so.1) and the process opened either name
            "peer": st.sampled_from(["none", "none", "peer_exists", "run_via_peer", "symlink", "symlink_run_real"]),
            "threads": st.sampled_from([0, 1, 2, 4]),
            "fork": st.booleans(),
            "id_old": st.integers(1, 30000),
            "id_step": st.integers(1, 30000),
        })

    # --------------------------------------------------------------------------------------------
    def _link(self, kind, objs, out, w, extra, via_gcc_ok=True):
        """Links the payload-bearing output with wild. Returns Result (all descendants exited)."""
        if kind == "static":
            return hist.wild(["start.o", *objs, "-o", out, *extra], cwd=w)
        if kind == "static_pie":
            return hist.wild(["-static", "-pie", "--no-dynamic-linker", "start.o", *objs, "-o", out, *extra], cwd=w)
        if kind in ("shlib_needed", "shlib_dlopen"):
            return hist.wild(["-shared", "-soname=libpayload.so", *objs, "-o", out, *extra], cwd=w)
        flags = ["-no-pie"] if kind == "dyn_nonpie" else ["-pie"]
        cmd = ["gcc", "-B" + tools.bdir("wild"), *flags, "main.o", *objs, "-o", out] + [f"-Wl,{e}" for e in extra]
        env = dict(os.environ)
        env["WILD_VALIDATE_OUTPUT"] = "0"
        return hist.run_all(cmd, cwd=w, env=env, timeout=300)

    @hist.retry_environmental
    def run_case(self, case, ctx):
        w = os.path.join(ctx.dir, "w")
        os.makedirs(w)
        kind = case["kind"]
        n_ro, n_fn = case["n_ro"], case["n_fn"]
        d = case["delta"]
        if case["relink"] == "same":
            n_ro2, n_fn2 = n_ro, n_fn
        elif case["relink"] == "larger":
            n_ro2, n_fn2 = n_ro + d, n_fn + d // 3
        else:
            n_ro2, n_fn2 = max(8, n_ro - d), max(4, n_fn - d // 3)
        id_old = case["id_old"]
        id_new = id_old + case["id_step"]
        tools.asm(payload_asm(id_old, n_ro, n_fn), "payload_old.o", cwd=w)
        tools.asm(payload_asm(id_new, n_ro2, n_fn2), "payload_new.o", cwd=w)
        exe_kind = kind in ("static", "static_pie", "dyn_nonpie", "dyn_pie")
        if kind in ("static", "static_pie"):
            tools.asm(START_ASM, "start.o", cwd=w)
        elif kind in ("dyn_nonpie", "dyn_pie"):
            tools.cc(MAIN_C, "main.o", flags=["-O1", "-fPIE"], cwd=w)
        path = "prog" if exe_kind else "libpayload.so"
        extra = []
        if case["threads"]:
            extra.append(f"--threads={case['threads']}")
        if not case["fork"]:
            extra.append("--no-fork")

        # Old output at P, control link of the new payload at another path.
        r = self._link(kind, ["payload_old.o"], path, w, extra)
        if r.timed_out:
            raise Inconclusive("wild timed out")
        if r.rc != 0:
            if "unsupported" in r.err.lower() or "not supported" in r.err.lower():
                raise Discard("wild: unsupported configuration")
            raise Inconclusive(f"initial link failed: {r.err[-400:]}")
        ctl_new = "ctl/prog" if exe_kind else "ctl/libpayload.so"
        os.makedirs(os.path.join(w, "ctl"))
        tools.must(self._link(kind, ["payload_new.o"], ctl_new, w, extra), "control link of the new payload")

        # Runner command lines.
        if kind == "shlib_needed":
            tools.cc(MAIN_C, "main.o", flags=["-O1"], cwd=w)
            tools.must(tools.run(["gcc", "-o", "mainprog", "main.o", "-L.", "-lpayload", "-Wl,-rpath,$ORIGIN",
                                  "-Wl,--disable-new-dtags"], cwd=w), "linking the host program")
            shutil_copy = os.path.join(w, "ctl", "mainprog")
            os.link(os.path.join(w, "mainprog"), shutil_copy)
            argv, argv_ctl = ["./mainprog"], ["./ctl/mainprog"]
        elif kind == "shlib_dlopen":
            tools.cc(MAIN_DL_C, "main.o", flags=["-O1"], cwd=w)
            tools.must(tools.run(["gcc", "-o", "mainprog", "main.o", "-ldl"], cwd=w), "linking the host program")
            argv, argv_ctl = ["./mainprog", "./libpayload.so"], ["./mainprog", "./ctl/libpayload.so"]
        else:
            argv, argv_ctl = ["./prog"], ["./ctl/prog"]
        if case["peer"] in ("symlink", "symlink_run_real"):
            os.rename(os.path.join(w, path), os.path.join(w, path + ".real"))
            os.symlink(path + ".real", os.path.join(w, path))
            if case["peer"] == "symlink_run_real":
                if exe_kind:
                    argv = ["./prog.real"]
                elif kind == "shlib_dlopen":
                    argv = ["./mainprog", "./libpayload.so.real"]
        elif case["peer"] != "none":
            os.link(os.path.join(w, path), os.path.join(w, path + ".peer"))
            if case["peer"] == "run_via_peer":
                if exe_kind:
                    argv = ["./prog.peer"]
                elif kind == "shlib_dlopen":
                    argv = ["./mainprog", "./libpayload.so.peer"]

        def control(av):
            p = Proc(av, w)
            p.wait_ready()
            return p.release()

        rc_o, digest_old, err_o = control(argv)
        rc_n, digest_new, err_n = control(argv_ctl)
        if rc_o != 0 or rc_n != 0:
            raise Inconclusive(f"control runs failed: {rc_o} {err_o[-200:]} / {rc_n} {err_n[-200:]}")
        if digest_old != model_digest(id_old, n_ro, n_fn) or digest_new != model_digest(id_new, n_ro2, n_fn2):
            raise Inconclusive(f"control digests disagree with the payload model: {digest_old} {digest_new}")
        if digest_old == digest_new:
            raise Discard("old and new payload digests coincide")

        ino_before = os.stat(os.path.join(w, path)).st_ino
        proc = Proc(argv, w)
        try:
            proc.wait_ready()
            rl = self._link(kind, ["payload_new.o"], path, w, extra)
            if rl.timed_out:
                raise Inconclusive("relink timed out")
            rc, digest_seen, err = proc.release()
        finally:
            proc.kill()
        detail = {"kind": kind, "relink_rc": rl.rc, "relink_err": rl.err[-300:], "argv": argv,
                  "old": digest_old, "new": digest_new, "seen": digest_seen, "prog_rc": rc, "prog_err": err[-200:]}
        if rc != 0 or digest_seen != digest_old:
            what = ("saw-new-bytes" if digest_seen == digest_new else
                    "died" if rc != 0 else "saw-mixed-bytes")
            raise Violation(f"running-{'executable' if exe_kind else 'library'}-altered:{what}",
                            f"{kind}: process running across the relink printed `{digest_seen}` rc={rc}, control run of "
                            f"the old output printed `{digest_old}` (new payload: `{digest_new}`); relink rc={rl.rc}",
                            detail)
        info = {"classes": [f"kind:{kind}", f"relink:{case['relink']}", f"peer:{case['peer']}"], "counters": {}}
        if rl.rc == 0:
            try:
                ino_after = os.stat(os.path.join(w, path)).st_ino
            except OSError:
                raise Violation("relink-exit0-no-output", f"{kind}: relink exited 0 but `{path}` does not exist", detail)
            main_av = ["./prog"] if exe_kind else (["./mainprog"] if kind == "shlib_needed" else ["./mainprog", "./libpayload.so"])
            rc2, digest_after, err2 = control(main_av)
            if rc2 != 0 or digest_after != digest_new:
                raise Violation("relink-exit0-path-not-new-output",
                                f"{kind}: relink exited 0 but running `{path}` afterwards prints `{digest_after}` rc={rc2}, "
                                f"expected the new payload's `{digest_new}`", detail)
            info["classes"].append("relink:rc0")
            info["classes"].append("inode:replaced" if ino_after != ino_before else "inode:same")
        else:
            if hist.crashed(rl):
                raise Inconclusive(f"wild crashed during the relink: {rl.err[-300:]}")
            info["classes"].append("relink:failed-nonzero(allowed)")
        info["counters"]["pages_first_touched"] = n_ro + n_fn
        info["nontrivial"] = (n_ro + n_fn) >= 100
        info["key"] = (f"{kind}|{case['relink']}|{case['peer']}|{'t1' if case['threads'] == 1 else 'tN'}|"
                       f"{int(case['fork'])}|{n_ro}|{n_fn}")
        return info


CHECK = C21()
