"""C22 — Malformed input produces a diagnostic, never a crash.

Statement: for any bytes supplied as objects, archives, linker scripts, version scripts, export
lists or response files, and for any argument list, wild terminates with either a successful link
or an error message and a non-zero status.  It never panics, aborts, crashes or hangs.

Two engines.
(1) Process level (Hypothesis, this file): a *valid seed input* (ELF objects for x86-64/AArch64, a
    shared object with version definitions, regular/thin archives with long names, linker scripts,
    version scripts, dynamic lists, response files, argument lists) plus a *structure-aware
    mutation recipe* (ELF header / section header i / symbol j / relocation k / group word /
    .eh_frame record / .note.gnu.property / versym-verdef-verneed / .dynamic / hash header fields set
    to boundary values; archive header fields, symbol-table counts, long-name table; token-level
    edits of texts; generated argument lists with missing operands, duplicates, @file recursion),
    fed to the real `wild` binary.  Accepted outcomes: exit 0, or non-zero exit with a `wild: error`
    line and no `panicked at`, no signal.  A timeout is a violation only when the watchdog confirms
    that the process tree is idle (deadlock); otherwise inconclusive.
(2) Coverage-guided (libFuzzer targets under /verif/fuzz, built with `cargo +nightly fuzz`), run from
    `extra_phases` on fresh corpora seeded with the same inputs, `-runs=N -seed=VERIF_SEED`.  Every
    crash artifact is replayed through the real binary and only reported if it reproduces there.

Panics are keyed on the innermost libwild frame + normalised message (line numbers drift); known
findings are tolerated by that key so the campaign continues behind them.
"""
import hashlib
import json
import os
import re
import shutil
import signal
import struct
import subprocess
import time

from hypothesis import strategies as st

from vlib import core, tools
from vlib.core import Check, Discard, Inconclusive, Violation

M64 = (1 << 64) - 1

# ------------------------------------------------------------------------------------------------
# Seeds

MAIN_S = r"""
    .globl _start
    .text
_start:
    call seed_fn@PLT
    movq seed_data@GOTPCREL(%rip), %rax
    call ext_fn0@PLT
    ret
    .weak seed_fn, seed_data, ext_fn0
    .section .note.GNU-stack,"",@progbits
"""

OBJ1_S = r"""
    .section .text.seed_fn,"ax",@progbits
    .globl seed_fn
    .type seed_fn,@function
seed_fn:
    .cfi_startproc
    call helper@PLT
    movq seed_data@GOTPCREL(%rip), %rax
    leaq local_data(%rip), %rcx
    movq tls_var@gottpoff(%rip), %rdx
    .byte 0x66
    leaq tls_var@tlsgd(%rip), %rdi
    .value 0x6666
    rex64
    call __tls_get_addr@PLT
    call ifn@PLT
    leaq .Lstr1(%rip), %rsi
    ret
    .cfi_endproc
    .size seed_fn, . - seed_fn

    .section .text.helper,"axG",@progbits,helper_group,comdat
    .weak helper
    .type helper,@function
helper:
    .cfi_startproc
    ret
    .cfi_endproc

    .section .text.ifn,"ax",@progbits
    .globl ifn
    .type ifn,@gnu_indirect_function
ifn:
    leaq helper(%rip), %rax
    ret

    .data
    .globl seed_data
    .type seed_data,@object
    .size seed_data, 16
seed_data:
    .quad seed_fn
    .quad local_data+4
local_data:
    .long seed_fn - .
    .long 7
    .section .init_array,"aw",@init_array
    .quad seed_fn
    .section .tdata,"awT",@progbits
    .globl tls_var
    .type tls_var,@object
    .size tls_var, 8
tls_var: .quad 5
    .section .rodata.str1.1,"aMS",@progbits,1
.Lstr1: .string "hello"
    .string "world"
    .section .rodata.cst8,"aM",@progbits,8
    .quad 0x1122334455667788
    .comm common_sym, 32, 16
    .weak __tls_get_addr
    .section .note.gnu.property,"a",@note
    .balign 8
    .long 4, 16, 5
    .asciz "GNU"
    .long 0xc0000002, 4, 3, 0
    .section .debug_info,"",@progbits
    .long 0x10
    .quad seed_fn
    .section .note.GNU-stack,"",@progbits
"""

OBJ2_C = r"""
#include <stddef.h>
struct node { struct node *next; int v; };
static struct node n2 = { NULL, 2 };
struct node n1 = { &n2, 1 };
__thread int tl = 4;
extern int ext_fn0(int);
int __attribute__((weak)) weak_fn(int x) { return x + 1; }
static int counter;
__attribute__((constructor)) static void init(void) { counter++; }
const char *msg(void) { return "a string literal"; }
int sum(void) { int s = tl; for (struct node *p = &n1; p; p = p->next) s += p->v; return s + weak_fn(counter) + ext_fn0(1); }
"""

DEP_S = r"""
    .text
    .globl ext_fn0, ext_fn1, __tls_get_addr
    .type ext_fn0,@function
    .type ext_fn1,@function
    .type __tls_get_addr,@function
ext_fn0: ret
ext_fn1: ret
__tls_get_addr: ret
    .data
    .globl ext_data0
    .type ext_data0,@object
    .size ext_data0, 8
ext_data0: .quad ext_fn0
    .section .tdata,"awT",@progbits
    .globl ext_tls0
    .type ext_tls0,@object
    .size ext_tls0, 8
ext_tls0: .quad 9
    .section .note.GNU-stack,"",@progbits
"""
DEP_VER = "V1 { global: ext_fn0; ext_data0; __tls_get_addr; ext_tls0; local: *; };\nV2 { global: ext_fn1; } V1;\n"

A64_S = r"""
    .text
    .globl _start
    .type _start,%function
_start:
    bl callee
    adrp x0, var
    add x0, x0, :lo12:var
    ret
callee:
    ret
    .data
var: .xword callee
"""

SCRIPTS = [
    "ENTRY(_start)\nSECTIONS {\n  . = 0x400000;\n  .text : { *(.text .text.*) }\n  . = ALIGN(4096);\n  .data : ALIGN(16) { KEEP(*(.data*)) start_x = .; *(.init_array) }\n  .bss : { *(.bss) *(COMMON) }\n}\n",
    "/* c */ OUTPUT_FORMAT(elf64-x86-64)\nPROVIDE(foo = 0x10 + 2 * (3 << 4));\nASSERT(foo > 1, \"msg\")\nVERSION { V1 { global: seed_*; local: *; }; }\nSECTIONS { .text 0x10000 : { main.o(.text*) } .rodata : { *(.rodata*) PROVIDE_HIDDEN(e = .); } }\n",
    "MEMORY { ram : ORIGIN = 0x1000, LENGTH = 64K  rom : o = 0x100000, l = 1M }\nbar = MAX(ORIGIN(ram), MIN(LENGTH(rom), 12)) / 3;\nSECTIONS { .text : { *(.text) } ASSERT(SIZEOF(.text) < 0x1000 && ADDR(.text) != ALIGNOF(.text), \"x\") }\n",
    "GROUP(main.o AS_NEEDED(libdep.so))\nINPUT(obj1.o)\n",
    "SECTIONS { .a : { *(.a[0-9] .b?x \\*esc) } .b : { KEEP(*x.o(.keep)) } /DISCARD/ : { *(.comment) } }\n",
]
VERSION_SCRIPTS = [
    "V1 { global: seed_fn; seed_d*; extern \"C++\" { ns::*; \"f(int)\"; }; local: *; };\nV2 { global: ifn; } V1;\n",
    "{ global: *; local: helper; };\n",
    "# c\nVERS_1.0 { global: a; b; c?; [abc]*; /* x */ local: *; };\nVERS_2.0 { } VERS_1.0;\n",
]
DYN_LISTS = ["{ seed_fn; seed_data; extern \"C++\" { foo*; }; };\n", "{\n  a*;\n  \"quoted\";\n};\n"]
RESPONSES = ["main.o obj1.o -o out --gc-sections\n", "'main.o' \"obj1.o\" -o out\\\n  -shared # c\n--hash-style=gnu",
             "@r2.rsp main.o -o out"]
TEXT_DICT = ["{", "}", "(", ")", ";", ":", "*", "/*", "*/", "\"", "'", "\\", "=", ".", ",", "0x", "0xffffffffffffffffff",
             "99999999999999999999999", "SECTIONS", "KEEP", "ENTRY", "PROVIDE", "ASSERT", "ALIGN", "VERSION", "global:",
             "local:", "extern", "\"C++\"", "INPUT", "GROUP", "AS_NEEDED", "MEMORY", "ORIGIN", "LENGTH", "INCLUDE", "@",
             "@self.rsp", "-", "--", "\0", "\xff", "\n", "#", "?", "[", "]", "<<", ">>", "&&", "||", "!", "~", "K", "M"]

ARG_OPTS = None  # harvested from `wild --help` at setup


def build_seeds(dest):
    """Builds the seed corpus into `dest` (idempotent; stamped)."""
    stamp = os.path.join(dest, "ok-v3")
    if os.path.exists(stamp):
        return
    tmp = dest + f".tmp{os.getpid()}"
    shutil.rmtree(tmp, ignore_errors=True)
    os.makedirs(tmp)
    tools.asm(MAIN_S, "main.o", cwd=tmp)
    tools.asm(OBJ1_S, "obj1.o", cwd=tmp)
    tools.cc(OBJ2_C, "obj2.o", flags=["-O1", "-g", "-fPIC", "-ffunction-sections", "-fdata-sections"], cwd=tmp)
    tools.asm(DEP_S, "dep.o", cwd=tmp)
    tools.write(f"{tmp}/dep.ver", DEP_VER)
    tools.must(tools.link("ld", ["-shared", "-o", "libdep.so", "dep.o", "--version-script=dep.ver", "--soname=libdep.so",
                                 "--hash-style=both"], cwd=tmp), "libdep.so")
    shutil.copy(f"{tmp}/obj2.o", f"{tmp}/a_member_with_a_very_long_name.o")
    tools.ar("liba.a", ["obj1.o", "a_member_with_a_very_long_name.o", "dep.o"], cwd=tmp)
    tools.ar("libt.a", ["obj1.o", "obj2.o"], cwd=tmp, thin=True)
    try:
        tools.asm(A64_S, "a64.o", arch="aarch64", cwd=tmp)
    except Inconclusive:
        pass
    tools.write(f"{tmp}/ok-v3", "1")
    shutil.rmtree(dest, ignore_errors=True)
    try:
        os.rename(tmp, dest)
    except OSError:
        shutil.rmtree(tmp, ignore_errors=True)


# ------------------------------------------------------------------------------------------------
# ELF structure-aware mutation

EHDR_FIELDS = [("e_ident_class", 4, 1), ("e_ident_data", 5, 1), ("e_ident_version", 6, 1), ("e_ident_osabi", 7, 1),
               ("e_type", 16, 2), ("e_machine", 18, 2), ("e_version", 20, 4), ("e_entry", 24, 8), ("e_phoff", 32, 8),
               ("e_shoff", 40, 8), ("e_flags", 48, 4), ("e_ehsize", 52, 2), ("e_phentsize", 54, 2), ("e_phnum", 56, 2),
               ("e_shentsize", 58, 2), ("e_shnum", 60, 2), ("e_shstrndx", 62, 2)]
_SH = {"sh_name": (0, 4), "sh_type": (4, 4), "sh_flags": (8, 8), "sh_addr": (16, 8), "sh_offset": (24, 8), "sh_size": (32, 8),
       "sh_link": (40, 4), "sh_info": (44, 4), "sh_addralign": (48, 8), "sh_entsize": (56, 8)}
# weighted: offsets/sizes/indices are where bounds checks live
SHDR_FIELDS = [(n, *_SH[n]) for n in ("sh_offset", "sh_offset", "sh_offset", "sh_size", "sh_size", "sh_size", "sh_link", "sh_link",
                                      "sh_info", "sh_info", "sh_type", "sh_type", "sh_entsize", "sh_entsize", "sh_flags",
                                      "sh_flags", "sh_name", "sh_addr", "sh_addralign", "sh_addralign")]
SYM_FIELDS = [("st_name", 0, 4), ("st_info", 4, 1), ("st_other", 5, 1), ("st_shndx", 6, 2), ("st_value", 8, 8), ("st_size", 16, 8)]
RELA_FIELDS = [("r_offset", 0, 8), ("r_type", 8, 4), ("r_sym", 12, 4), ("r_addend", 16, 8)]
DYN_FIELDS = [("d_tag", 0, 8), ("d_val", 8, 8)]
PHDR_FIELDS = [("p_type", 0, 4), ("p_flags", 4, 4), ("p_offset", 8, 8), ("p_vaddr", 16, 8), ("p_filesz", 32, 8),
               ("p_memsz", 40, 8), ("p_align", 48, 8)]
STRUCTS = ["ehdr", "ehdr", "shdr", "shdr", "shdr", "shdr", "shdr", "shdr", "sym", "sym", "sym", "sym", "rela", "rela", "rela",
           "rela", "group", "ehframe", "ehframe", "gnuprop", "versym", "verdef", "verneed", "dynamic", "dynsym", "hash",
           "strtab", "phdr", "secbyte", "trunc"]
ENUM_VALUES = {
    "sh_type": [0, 1, 2, 3, 4, 5, 6, 7, 8, 9, 11, 14, 15, 16, 17, 18, 19, 0x6ffffff6, 0x6ffffffd, 0x6ffffffe, 0x6fffffff,
                0x70000001, 0x70000003, 0x7fffffff, 0xffffffff],
    "sh_flags": [0, 1, 2, 4, 0x10, 0x20, 0x30, 0x40, 0x80, 0x200, 0x400, 0x800, 0x200000, 0x80000000, 0x32, 0x802, M64],
    "st_info": [0, 1, 2, 3, 4, 5, 6, 10, 0x10, 0x11, 0x12, 0x13, 0x16, 0x1a, 0x20, 0x21, 0x22, 0xa0, 0xa2, 0xff],
    "st_other": [0, 1, 2, 3, 4, 0x80, 0xff],
    "st_shndx": [0, 1, 0xff00, 0xfff1, 0xfff2, 0xffff],
    "e_type": [0, 1, 2, 3, 4, 0xffff],
    "e_machine": [0, 3, 40, 62, 183, 243, 258, 0xffff],
    "r_type": [0, 1, 2, 3, 4, 5, 6, 7, 8, 9, 10, 11, 14, 15, 16, 17, 18, 19, 20, 21, 22, 23, 24, 25, 26, 27, 28, 29, 31, 32,
               34, 35, 36, 37, 41, 42, 43, 200, 0xffffffff],
    "d_tag": [0, 1, 2, 3, 4, 5, 6, 7, 8, 9, 10, 11, 12, 14, 15, 20, 21, 23, 24, 29, 30, 35, 36, 0x6ffffef5, 0x6ffffff0,
              0x6ffffffb, 0x6ffffffc, 0x6ffffffd, 0x6ffffffe, 0x6fffffff, M64],
}


def u(data, off, n):
    return int.from_bytes(data[off:off + n], "little")


class ElfMap:
    """Offsets of the structures of a (valid) seed file."""

    def __init__(self, data):
        self.n = len(data)
        d = data
        self.shoff, self.shnum, self.shentsize = u(d, 40, 8), u(d, 60, 2), u(d, 58, 2)
        self.phoff, self.phnum = u(d, 32, 8), u(d, 56, 2)
        self.sh = []
        for i in range(self.shnum):
            o = self.shoff + i * 64
            self.sh.append({"hdr": o, "type": u(d, o + 4, 4), "off": u(d, o + 24, 8), "size": u(d, o + 32, 8),
                            "name_off": u(d, o, 4), "entsize": u(d, o + 56, 8)})
        strndx = u(d, 62, 2)
        self.names = {}
        if strndx < len(self.sh):
            so = self.sh[strndx]["off"]
            for i, s in enumerate(self.sh):
                end = d.find(b"\0", so + s["name_off"])
                s["name"] = d[so + s["name_off"]:end].decode("latin-1")
        self.by_type = {}
        for i, s in enumerate(self.sh):
            self.by_type.setdefault(s["type"], []).append(i)

    def secs(self, *types, name=None):
        out = []
        for t in types:
            out += self.by_type.get(t, [])
        if name is not None:
            out += [i for i, s in enumerate(self.sh) if s.get("name", "").startswith(name) and i not in out]
        return out


def pick_value(field, size, orig, val, raw, ctx_count, filesize):
    bits = size * 8
    mx = (1 << bits) - 1
    if field in ENUM_VALUES and val % 3 != 0:
        lst = ENUM_VALUES[field]
        return lst[(val // 3) % len(lst)] & mx
    choices = [0, 1, 2, 0x7f, 0x80, 0xff, mx, mx - 1, mx >> 1, (mx >> 1) + 1, orig + 1, orig - 1, orig * 2, orig ^ 1,
               orig | (1 << (bits - 1)), filesize, filesize - 1, filesize + 1, ctx_count, ctx_count + 1, ctx_count - 1,
               orig + 8, orig - 8, orig + 0x10000, raw, 3, 7, 0x100, 0xffff, 0xfff1, 24, 64,
               1 << 31, orig + (1 << 32), 1 << 36, raw & 0xffffffff, raw & 0xffffff]
    return choices[val % len(choices)] & mx


def mutate_elf(seed, muts):
    """Applies the recipe; returns (bytes, [labels])."""
    data = bytearray(seed)
    m = ElfMap(seed)
    labels = []
    fs = len(seed)
    trunc = None
    for mu in muts:
        st_, i, f, val, raw = mu["struct"], mu["i"], mu["f"], mu["val"], mu["raw"]

        def poke(base, fields, count, label):
            name, off, size = fields[f % len(fields)]
            o = base + off
            if o + size > len(data):
                return
            new = pick_value(name, size, u(seed, o, size), val, raw, count, fs)
            data[o:o + size] = new.to_bytes(size, "little")
            labels.append(f"{label}.{name}")

        if st_ == "ehdr":
            poke(0, EHDR_FIELDS, m.shnum, "ehdr")
        elif st_ == "shdr" and m.shnum:
            poke(m.sh[i % m.shnum]["hdr"], SHDR_FIELDS, m.shnum, "shdr")
        elif st_ == "phdr" and m.phnum:
            poke(m.phoff + (i % m.phnum) * 56, PHDR_FIELDS, m.phnum, "phdr")
        elif st_ in ("sym", "dynsym"):
            secs = m.secs(2 if st_ == "sym" else 11)
            if secs:
                s = m.sh[secs[0]]
                cnt = s["size"] // 24
                if cnt:
                    poke(s["off"] + (i % cnt) * 24, SYM_FIELDS, m.shnum if f % len(SYM_FIELDS) == 3 else cnt, st_)
        elif st_ == "rela":
            secs = m.secs(4)
            if secs:
                s = m.sh[secs[(i >> 8) % len(secs)]]
                cnt = s["size"] // 24
                if cnt:
                    nsym = (m.sh[m.secs(2, 11)[0]]["size"] // 24) if m.secs(2, 11) else 0
                    poke(s["off"] + (i % cnt) * 24, RELA_FIELDS, nsym, "rela")
        elif st_ == "dynamic":
            secs = m.secs(6)
            if secs:
                s = m.sh[secs[0]]
                cnt = s["size"] // 16
                if cnt:
                    poke(s["off"] + (i % cnt) * 16, DYN_FIELDS, cnt, "dynamic")
        elif st_ in ("group", "versym", "hash", "verdef", "verneed", "gnuprop", "ehframe"):
            spec = {"group": ((17,), None, 4), "versym": ((0x6fffffff,), None, 2), "hash": ((5, 0x6ffffff6), None, 4),
                    "verdef": ((0x6ffffffd,), None, 2), "verneed": ((0x6ffffffe,), None, 2),
                    "gnuprop": ((), ".note.gnu.property", 4), "ehframe": ((), ".eh_frame", 4)}[st_]
            secs = m.secs(*spec[0], name=spec[1]) if spec[1] else m.secs(*spec[0])
            if secs:
                s = m.sh[secs[(i >> 8) % len(secs)]]
                w = spec[2]
                cnt = s["size"] // w
                if cnt:
                    # Words early in the section are headers/lengths: bias towards them.
                    k = (i % cnt) if f % 2 else (i % min(cnt, 8))
                    poke(s["off"] + k * w, [("word", 0, w)], cnt, st_)
        elif st_ == "strtab":
            secs = m.secs(3)
            if secs:
                s = m.sh[secs[i % len(secs)]]
                if s["size"]:
                    pos = s["off"] + (s["size"] - 1 if f % 2 == 0 else val % s["size"])
                    if pos < len(data):
                        data[pos] = [0x41, 0xff, 0x00, 0x2f][val % 4] if f % 2 else 0x41
                        labels.append("strtab.byte")
        elif st_ == "secbyte" and m.shnum:
            s = m.sh[i % m.shnum]
            if s["size"] and s["type"] != 8 and s["off"] + s["size"] <= len(data):
                pos = s["off"] + raw % s["size"]
                data[pos] = [0, 0xff, 0x80, data[pos] ^ 1][val % 4]
                labels.append("secbyte." + s.get("name", "?")[:16])
        elif st_ == "trunc":
            cuts = [fs - 1, fs - 8, m.shoff, m.shoff + 64 * max(0, m.shnum - 1) + 10, fs // 2, 64, 52, 16, raw % (fs + 1)]
            trunc = max(0, min(fs, cuts[val % len(cuts)]))
            labels.append("trunc")
    out = bytes(data if trunc is None else data[:trunc])
    return out, labels


SIG_HANG_MERGE = "hang:cpu-bound:libwild::string_merging::find_string"
SIG_HANG_EXTERN = "hang:cpu-bound:libwild::version_script::parse_matcher"
SIG_RSP_RECURSION = "signal:SIGABRT:libwild::args:stack overflow"


def merge_string_far_offset(data):
    """Domain of the known finding SIG_HANG_MERGE: some relocation refers to a SHF_MERGE|SHF_STRINGS
    section with an addend (plus symbol value) at least 2^24 bytes outside it.  wild then walks
    backwards one byte at a time (`for i in 1..=input_offset` in string_merging::find_string)."""
    try:
        from vlib.elf import Elf, SHT_RELA, SHT_SYMTAB
        e = Elf(data)
        symsec = next((x for x in e.sections if x.type == SHT_SYMTAB), None)
        if symsec is None:
            return False
        syms = e._symtab(symsec)
        for sec in e.sections:
            if sec.type != SHT_RELA or sec.offset + sec.size > len(data):
                continue
            for r in e.relas(sec):
                if r.sym >= len(syms):
                    continue
                sy = syms[r.sym]
                if not (0 < sy.shndx < len(e.sections)):
                    continue
                ts = e.sections[sy.shndx]
                if (ts.flags & 0x30) != 0x30:
                    continue
                off = sy.value + r.addend      # addend is signed; small negative biases (pc-relative -4) are normal
                if off >= (1 << 24) or off <= -(1 << 24):
                    return True
    except Exception:  # noqa: BLE001 - malformed beyond this parser: not this domain
        return False
    return False


# ------------------------------------------------------------------------------------------------
# Archive mutation

AR_FIELDS = [("name", 0, 16), ("date", 16, 12), ("uid", 28, 6), ("gid", 34, 6), ("mode", 40, 8), ("size", 48, 10), ("fmag", 58, 2)]
AR_STRINGS = ["0", "1", "-1", "9999999999", "4294967296", "", "abc", "/", "//", "/0", "/9999", "/-1", "#1/20", "#1/999999",
              "18446744073709551616", "0x10", "12 3", "/SYM64/", "x.o/", "`\n"]


def ar_members(data):
    out = []
    off = 8
    while off + 60 <= len(data):
        try:
            size = int(data[off + 48:off + 58].decode("latin-1").strip() or "0")
        except ValueError:
            break
        out.append((off, size))
        off += 60 + size + (size & 1)
    return out


def mutate_archive(seed, muts):
    data = bytearray(seed)
    labels = []
    mem = ar_members(seed)
    trunc = None
    for mu in muts:
        k, i, f, val, raw = mu["struct"], mu["i"], mu["f"], mu["val"], mu["raw"]
        if not mem:
            break
        sel = {"ehdr": 0, "shdr": 1, "sym": 2, "rela": 3, "group": 4, "trunc": 5, "strtab": 6}.get(k, 0 if val % 2 else 7)
        if sel in (0, 1, 7):
            off, size = mem[i % len(mem)]
            name, fo, fl = AR_FIELDS[f % len(AR_FIELDS)]
            if sel == 1:
                name, fo, fl = AR_FIELDS[5]
            if val % 5 == 4 and name == "size":
                s = str([size + 1, size - 1, size * 2, len(seed), len(seed) - off][raw % 5])
            else:
                s = AR_STRINGS[val % len(AR_STRINGS)]
            data[off + fo:off + fo + fl] = s.encode("latin-1")[:fl].ljust(fl, b" ")
            labels.append("ar." + name)
        elif sel == 2:  # symbol table: count / offsets (big-endian words at the start of member 0)
            off, size = mem[0]
            if size >= 8:
                w = (i % min(size // 4, 6))
                new = [0, 1, 0xffffffff, 0x7fffffff, len(seed), len(seed) + 1, raw & 0xffffffff, 7][val % 8]
                data[off + 60 + 4 * w:off + 64 + 4 * w] = new.to_bytes(4, "big")
                labels.append("ar.symtab")
        elif sel == 3:  # long-name table: kill terminators
            for off, size in mem[:3]:
                if data[off:off + 2] == b"//":
                    for j in range(off + 60, min(off + 60 + size, len(data))):
                        if data[j] in (0x2f, 0x0a) and (j + raw) % 2 == 0:
                            data[j] = 0x41
                    labels.append("ar.longnames")
        elif sel == 4:  # magic
            data[0:8] = [b"!<thin>\n", b"!<arch>\r", b"!<arch>\n", b"!<bout>\n"][val % 4]
            labels.append("ar.magic")
        elif sel == 5:
            offs = [len(seed) - 1, mem[-1][0] + 30, mem[-1][0] + 60, mem[0][0] + 60 + 4, 8, 9, 67, raw % (len(seed) + 1)]
            trunc = offs[val % len(offs)]
            labels.append("ar.trunc")
        elif sel == 6:  # corrupt the first bytes of a member's content (its ELF header)
            off, size = mem[i % len(mem)]
            if size > 64:
                pos = off + 60 + [0, 4, 5, 16, 18, 40, 58, 60, 62][f % 9]
                if pos < len(data):     # thin archives: member sizes describe external files
                    data[pos] = [0, 0xff, 1, 2][val % 4]
                    labels.append("ar.member-ehdr")
    out = bytes(data if trunc is None else data[:max(0, trunc)])
    return out, labels


# ------------------------------------------------------------------------------------------------
# Text mutation

TOKEN_RE = re.compile(r"\s+|/\*|\*/|[A-Za-z_.$][\w.$*?\[\]-]*|0[xX][0-9a-fA-F]+|\d+|.", re.S)


def mutate_text(seed, muts):
    toks = TOKEN_RE.findall(seed)
    labels = []
    for mu in muts:
        if not toks:
            toks = [""]
        op = ["del", "dup", "swap", "ins", "ins", "num", "unbalance", "comment", "string", "trunc", "repeat", "nest"][mu["f"] % 12]
        i = mu["i"] % len(toks)
        d = TEXT_DICT[mu["val"] % len(TEXT_DICT)]
        if op == "del":
            del toks[i]
        elif op == "dup":
            toks.insert(i, toks[i])
        elif op == "swap":
            j = mu["raw"] % len(toks)
            toks[i], toks[j] = toks[j], toks[i]
        elif op == "ins":
            toks.insert(i, d)
        elif op == "num":
            toks[i] = ["0", "0xffffffffffffffff", "18446744073709551616", "-1", "0x", "1K", "9999999999999999999999M",
                       "4294967297", "0x8000000000000000"][mu["val"] % 9]
        elif op == "unbalance":
            idx = [k for k, t in enumerate(toks) if t in "{}()"]
            if idx:
                del toks[idx[mu["raw"] % len(idx)]]
        elif op == "comment":
            toks.insert(i, "/*")
        elif op == "string":
            toks.insert(i, "\"")
        elif op == "trunc":
            toks = toks[:i]
        elif op == "repeat":
            toks[i:i + 1] = [toks[i]] * (2 + mu["val"] % 40)
        elif op == "nest":
            toks.insert(i, "{ " * (1 + mu["val"] % 64))
        labels.append("text." + op)
    return "".join(toks), labels


# ------------------------------------------------------------------------------------------------
# Strategies

mut_strategy = st.fixed_dictionaries({"struct": st.sampled_from(STRUCTS), "i": st.integers(0, 4095), "f": st.integers(0, 31),
                                      "val": st.integers(0, 255), "raw": st.integers(0, M64)})   # noqa

FAMILIES = ["elf-obj", "elf-obj", "elf-obj", "elf-obj", "elf-obj", "elf-so", "elf-so", "archive", "archive", "script", "version",
            "dynlist", "response", "args"]

ARG_VALUES = ["", "x", "0", "-1", "0x10", "99999999999999999999", "main.o", "nonexistent", "=", "a=b", "a=0x10", ".text=0x1000",
              "gnu", "sysv", "both", "none", "md5", "sha1", "uuid", "0x12", "0xzz", "all", "safe", "ALL", "libdep.so", "/", ".",
              "elf_x86_64", "aarch64elf", "bogus", "ignore-all", "report-all", "1", "2", "64", "4096", "3", "name", "alignment"]


def case_strategy():
    return st.fixed_dictionaries({
        "family": st.sampled_from(FAMILIES),
        "seed": st.integers(0, 7),
        "muts": st.lists(mut_strategy, min_size=1, max_size=4),
        "mode": st.integers(0, 63),
        "args": st.lists(st.tuples(st.integers(0, 400), st.integers(0, 63), st.integers(0, 7)), min_size=1, max_size=8),
    })


def harvest_options(wild):
    """[(flag, takes_value, joined)] from `wild --help`."""
    r = tools.run([wild, "--help"])
    opts = []
    for line in r.out.split("\n"):
        mm = re.match(r"^\s{4}(\S.*?)\s{2,}\S", line)
        if not mm:
            continue
        for part in mm.group(1).split(","):
            part = part.strip()
            m2 = re.match(r"^(-{1,2}[\w-]+)(\[?=<VALUE>\]?| <VALUE>)?$", part)
            if m2 and m2.group(1) not in ("--help", "-z"):
                opts.append((m2.group(1), bool(m2.group(2)), bool(m2.group(2)) and "=" in m2.group(2)))
    for z in re.findall(r"^\s{6}-z (\S+)", r.out, re.M):
        opts.append(("-z", True, False, z.replace("<VALUE>", "4096")))
    return opts


# ------------------------------------------------------------------------------------------------
# Outcome classification

CPU_HANG_SECONDS = 60      # user-mode CPU seconds burnt by one tiny link before it is called a hang
WALL_GIVE_UP = 900


def proc_tree_cpu(pid):
    """(user-mode CPU seconds, all threads sleeping, found, [pids]) over the process group rooted at pid."""
    total, all_sleeping, pids = 0, True, []
    tick = os.sysconf("SC_CLK_TCK")
    for p in os.listdir("/proc"):
        if not p.isdigit():
            continue
        try:
            with open(f"/proc/{p}/stat") as fh:
                s = fh.read()
            fields = s[s.rfind(")") + 2:].split()
            if int(fields[2]) != pid:
                continue
            pids.append(int(p))
            for t in os.listdir(f"/proc/{p}/task"):
                with open(f"/proc/{p}/task/{t}/stat") as fh:
                    ts = fh.read()
                tf = ts[ts.rfind(")") + 2:].split()
                total += int(tf[11])
                if tf[0] not in ("S", "Z", "I"):
                    all_sleeping = False
        except (OSError, ValueError, IndexError):
            continue
    return total / tick, all_sleeping, bool(pids), pids


def busy_frame(pids):
    """The libwild function that owns the loop: the innermost frame common to three stack samples of
    the busiest running (non-parked) thread, via gdb; None if unavailable."""
    def sample(pid):
        try:
            r = subprocess.run(["gdb", "-p", str(pid), "-batch", "-ex", "thread apply all bt 60"], stdout=subprocess.PIPE,
                               stderr=subprocess.DEVNULL, text=True, timeout=180)
        except (OSError, subprocess.TimeoutExpired):
            return None
        for th in re.split(r"\nThread \d+ ", r.stdout):
            head = th.split("#3")[0]
            if re.search(r"futex|park|syscall|epoll|nanosleep|read \(|waitpid|pthread_cond", head):
                continue
            fns = re.findall(r"^#\d+\s+(?:0x[0-9a-f]+ in )?(libwild::[^\s(]+)", th, re.M)
            if fns:
                fns = [re.sub(r"<.*", "", re.sub(r"::\{(impl|closure)#\d+\}", "", f)) for f in fns]
                # leaf helpers called from a loop are not the loop's owner
                fns = [f for f in fns if not f.startswith(("libwild::glob_match", "libwild::hash", "libwild::error"))]
                return list(reversed(fns))      # outermost first
        return None

    for pid in pids:
        samples = []
        for _ in range(3):
            sm = sample(pid)
            if sm:
                samples.append(sm)
            time.sleep(1)
        if not samples:
            continue
        common = []
        for frames in zip(*samples):
            if len(set(frames)) != 1:
                break
            common.append(frames[0])
        if common:
            return common[-1]
    return None


def run_watched(cmd, cwd, env, timeout):
    """Runs cmd in its own process group. Returns (Result, hang) with hang in
    (None, 'deadlock', 'cpu-bound[:frame]', 'busy')."""
    e = dict(os.environ)
    e.update(env)
    p = subprocess.Popen(cmd, cwd=cwd, env=e, stdout=subprocess.PIPE, stderr=subprocess.PIPE, stdin=subprocess.DEVNULL,
                         start_new_session=True)
    hang = None
    t0 = time.time()
    try:
        out, err = p.communicate(timeout=timeout)
    except subprocess.TimeoutExpired:
        out = err = None
        while True:
            c1, sl1, f1, _ = proc_tree_cpu(p.pid)
            try:
                out, err = p.communicate(timeout=5)
                break  # it was only slow
            except subprocess.TimeoutExpired:
                pass
            c2, sl2, f2, pids = proc_tree_cpu(p.pid)
            if f1 and f2 and c1 == c2 and sl1 and sl2:
                hang = "deadlock"
            elif c2 >= CPU_HANG_SECONDS:
                fr = busy_frame(pids)
                hang = "cpu-bound" + (":" + fr if fr else "")
            elif time.time() - t0 > WALL_GIVE_UP:
                hang = "busy"
            if hang:
                break
        if hang:
            try:
                os.killpg(p.pid, signal.SIGKILL)
            except ProcessLookupError:
                pass
            out, err = p.communicate()
    return tools.Result(p.returncode, out.decode("utf-8", "replace"), err.decode("utf-8", "replace"), hang is not None), hang


def gdb_crash_frame(argv, d, cycle=False):
    """Re-runs the link under gdb (no fork) and returns the innermost libwild frame at the fatal signal
    (cycle=True, for stack overflows: only its module, because the innermost frame is an arbitrary point of
    the recursion)."""
    try:
        r = subprocess.run(["gdb", "-batch", "-ex", "run", "-ex", "bt 40", "--args", core.WILD, "--no-fork", *argv], cwd=d,
                           stdout=subprocess.PIPE, stderr=subprocess.DEVNULL, text=True, timeout=300,
                           env=dict(os.environ, WILD_VALIDATE_OUTPUT="0", RUST_BACKTRACE="0"))
    except (OSError, subprocess.TimeoutExpired):
        return None

    def clean(fn):
        fn = re.sub(r"::\{impl#\d+\}", "", fn)
        fn = re.sub(r"::\{closure#\d+\}", "", fn)
        return re.sub(r"<.*", "", fn)

    fns = [clean(m) for m in re.findall(r"^#\d+\s+(?:0x[0-9a-f]+ in )?(libwild::[^\s(]+)", r.stdout, re.M)]
    if not fns:
        return None
    if cycle:
        return "::".join(fns[0].split("::")[:2])   # module only: the frame is an arbitrary point of the recursion
    return fns[0]


def normalise_fn(sym):
    sym = re.sub(r"::\{\{closure\}\}", "", sym)
    sym = re.sub(r"::h[0-9a-f]{16}$", "", sym)
    m = re.match(r"^<(.+?) as .+>::(\w+)$", sym)
    if m:
        sym = f"{m.group(1)}::{m.group(2)}"
    sym = re.sub(r"<[^<>]*>", "", sym)
    return sym


def panic_message(err):
    m = re.search(r"panicked at ([^\s:]+):(\d+):\d+:\s*\n?([^\n]*)", err)
    if not m:
        return None, None, ""
    msg = re.sub(r"\d+", "N", m.group(3).strip())
    msg = re.sub(r"\(\"[^\"]*\"\)", "(..)", msg)
    return m.group(1), int(m.group(2)), msg[:70]


_FRAME_CACHE = {}


def innermost_frame(err_bt):
    """First libwild/linker-utils frame of a RUST_BACKTRACE=1 dump, else first non-std frame."""
    frames = re.findall(r"^\s*\d+: (.+)\n\s+at (\S+)", err_bt, re.M)
    for fn, at in frames:
        if fn.startswith(("libwild::", "<libwild::", "linker_utils::", "<linker_utils::")):
            return normalise_fn(fn)
    for fn, at in frames:
        if "/rustc/" not in at and "/library/" not in at:
            return normalise_fn(fn)
    return None


class C22(Check):
    prop = "C22"
    level = "exploration"
    technique = ("structure-aware mutation PBT of valid seed inputs against the real wild binary (process status + stderr), plus "
                 "coverage-guided libFuzzer targets running libwild in-process with crash replay through the real binary")
    rule = ("seed input x 1-4 structure-aware mutations (or a generated argument list); non-trivial = the mutated input differs "
            "from its seed, keeps its magic (still recognised as its file kind) and wild got at least as far as opening it "
            "(hook point file), i.e. the outcome was decided by parsing/linking logic, not by a missing file; distinct by "
            "(family, seed, mutated structure.field set, outcome class)")
    assumptions = ["a non-zero exit with a `wild: error` line and no panic text is the accepted failure mode",
                   "a timeout is a hang only if the whole process group shows no CPU progress and only sleeping threads over 5 s",
                   "libFuzzer crash artifacts count only if the real binary reproduces them"]
    quick_cases = 1200
    thorough_cases = 40000
    case_timeout = 60
    fuzz_runs_quick = 4000
    fuzz_runs_thorough = 400000

    # ---------------------------------------------------------------------------------------------
    def setup(self, tier):
        self.seed_dir = os.path.join(core.TARGET, "c22-seeds")
        build_seeds(self.seed_dir)
        self.options = harvest_options(core.WILD)
        if len(self.options) < 60:
            raise Inconclusive(f"could only harvest {len(self.options)} options from --help")

    def strategy(self, tier):
        return case_strategy()

    def _seeds(self):
        if not hasattr(self, "_seed_cache"):
            d = self.seed_dir if hasattr(self, "seed_dir") else os.path.join(core.TARGET, "c22-seeds")
            if not os.path.exists(os.path.join(d, "ok-v3")):
                build_seeds(d)
            self.seed_dir = d
            rd = lambda n: open(os.path.join(d, n), "rb").read()  # noqa: E731
            objs = ["obj1.o", "obj2.o", "main.o", "dep.o"] + (["a64.o"] if os.path.exists(os.path.join(d, "a64.o")) else [])
            self._seed_cache = {
                "elf-obj": [(n, rd(n)) for n in objs],
                "elf-so": [("libdep.so", rd("libdep.so"))],
                "archive": [("liba.a", rd("liba.a")), ("libt.a", rd("libt.a"))],
                "script": [(f"s{i}.ld", s) for i, s in enumerate(SCRIPTS)],
                "version": [(f"v{i}.ver", s) for i, s in enumerate(VERSION_SCRIPTS)],
                "dynlist": [(f"d{i}.lst", s) for i, s in enumerate(DYN_LISTS)],
                "response": [(f"r{i}.rsp", s) for i, s in enumerate(RESPONSES)],
            }
        return self._seed_cache

    def excluded_by_construction(self, case):
        fam = case.get("family")
        if fam == "response" and "@r2.rsp" in RESPONSES[case["seed"] % len(RESPONSES)] and case["mode"] & 1:
            # in.rsp includes r2.rsp which includes in.rsp: the known unbounded @file recursion
            # (unless a mutation happened to delete the reference; not worth a run to find out)
            return SIG_RSP_RECURSION
        if fam in ("version", "dynlist"):
            lst = self._seeds()[fam]
            text, _ = mutate_text(lst[case["seed"] % len(lst)][1], case["muts"])
            for m in re.finditer(r"extern", text):
                brace = text.find("{", m.end())
                if brace >= 0 and "}" not in text[brace:]:
                    return SIG_HANG_EXTERN      # unterminated extern block: known endless loop
            return None
        if fam not in ("elf-obj", "archive"):
            return None
        lst = self._seeds()[fam]
        name, seed = lst[case["seed"] % len(lst)]
        if fam == "elf-obj":
            data, _ = mutate_elf(seed, case["muts"])
            return SIG_HANG_MERGE if merge_string_far_offset(data) else None
        data, _ = mutate_archive(seed, case["muts"])
        for off, size in ar_members(data):
            body = data[off + 60:off + 60 + size]
            if body[:4] == b"\x7fELF" and merge_string_far_offset(body):
                return SIG_HANG_MERGE
        return None

    def _link_mode_args(self, mode):
        a = [[], ["-shared"], ["-pie"], ["-r"]][mode & 3]
        a = a + (["--gc-sections"] if mode & 4 else ["--no-gc-sections"])
        if mode & 8:
            a.append("--no-fork")
        if mode & 16 and (mode & 3) != 3:
            a.append("--export-dynamic")
        return a

    def build_command(self, case, d):
        """Writes the inputs into d; returns (argv without program, labels, changed, magic_ok)."""
        fam = case["family"]
        mode = case["mode"]
        seeds = self._seeds()
        sd = self.seed_dir
        for n in ("main.o", "obj1.o", "obj2.o", "libdep.so"):
            if not os.path.exists(f"{d}/{n}"):
                shutil.copy(os.path.join(sd, n), f"{d}/{n}")  # copies: a generated `-o main.o` must not reach the corpus
        if fam == "args":
            opts = getattr(self, "options", None) or harvest_options(core.WILD)
            self.options = opts
            argv = []
            for (oi, vi, how) in case["args"]:
                o = opts[oi % len(opts)]
                v = ARG_VALUES[vi % len(ARG_VALUES)]
                if o[0] == "-z":
                    argv += ["-z", o[3] if how % 4 else v]
                elif not o[1]:
                    argv.append(o[0] if how % 8 else o[0] + "=" + v)
                elif how % 8 == 7:
                    argv.append(o[0])  # missing operand (possibly last)
                elif o[2] or how % 2:
                    argv.append(f"{o[0]}={v}" if o[0].startswith("--") else f"{o[0]}{v}")
                else:
                    argv += [o[0], v]
            if mode & 1:
                argv = ["main.o", "obj1.o"] + argv
            if mode & 2:
                argv += ["-o", "out"]
            if mode & 4:
                argv += argv[: 1 + (mode >> 3) % 3]  # duplicates
            # never let generated options escape the scratch dir
            argv = [a for a in argv if not a.startswith("/") and ".." not in a]
            return argv, ["args"], True, True
        lst = seeds[fam]
        name, seed = lst[case["seed"] % len(lst)]
        if fam in ("elf-obj", "elf-so"):
            data, labels = mutate_elf(seed, case["muts"])
            magic_ok = data[:4] == b"\x7fELF"
            fn = "in.so" if fam == "elf-so" else "in.o"
            tools.write(f"{d}/{fn}", data)
            lm = self._link_mode_args(mode)
            if name == "a64.o":
                argv = [*lm, fn, "-o", "out"]
            elif name == "main.o":
                argv = [*lm, fn, "obj1.o", "-o", "out"]
            elif fam == "elf-so":
                argv = [*lm, "main.o", "obj1.o", fn, "-o", "out"]
            else:
                argv = [*lm, "main.o", fn] + (["libdep.so"] if mode & 32 else []) + ["-o", "out"]
            return argv, labels, data != seed, magic_ok
        if fam == "archive":
            data, labels = mutate_archive(seed, case["muts"])
            tools.write(f"{d}/in.a", data)
            if name == "libt.a":
                pass  # thin members are referenced by relative path: obj1.o / obj2.o exist in d
            lm = self._link_mode_args(mode)
            argv = [*lm, "main.o"] + (["--whole-archive"] if mode & 32 else []) + ["in.a", "-o", "out"]
            return argv, labels, data != seed, data[:7] in (b"!<arch>", b"!<thin>")
        text, labels = mutate_text(seed, case["muts"])
        data = text.encode("latin-1", "replace")
        if fam == "script":
            tools.write(f"{d}/in.ld", data)
            argv = (["-T", "in.ld", "main.o", "obj1.o"] if mode & 1 else ["main.o", "obj1.o", "in.ld"]) + ["-o", "out"]
            if mode & 2:
                argv = ["--no-gc-sections"] + argv
        elif fam == "version":
            tools.write(f"{d}/in.ver", data)
            argv = ["-shared", "--version-script=in.ver", "main.o", "obj1.o", "-o", "out"]
        elif fam == "dynlist":
            tools.write(f"{d}/in.lst", data)
            opt = ["--dynamic-list=in.lst", "--export-dynamic-symbol-list=in.lst"][mode & 1]
            argv = [["-shared"], ["-pie"], []][(mode >> 1) % 3] + [opt, "main.o", "obj1.o", "-o", "out"]
        else:
            tools.write(f"{d}/in.rsp", data)
            tools.write(f"{d}/self.rsp", "@self.rsp\n")
            tools.write(f"{d}/r2.rsp", "--no-gc-sections @in.rsp\n" if mode & 1 else "obj1.o\n")
            argv = ["@in.rsp"]
        return argv, labels, text != seed, True

    def judge(self, res, hang, what, detail, d=None, argv=None, hang_hint=None):
        """Raises Violation for a crash/hang; returns the outcome class otherwise."""
        if hang == "deadlock":
            raise Violation("hang:deadlock", f"wild did not terminate within {self.case_timeout}s and its process group is idle "
                            f"(no CPU progress, all threads sleeping) on {what}", detail)
        if hang == "cpu-bound" and hang_hint:
            hang = hang_hint[len("hang:"):]      # gdb could not attribute the loop; the input lies in a known hang's domain
        if hang and hang.startswith("cpu-bound"):
            raise Violation("hang:" + hang, f"wild burnt more than {CPU_HANG_SECONDS}s of user CPU without terminating on {what} "
                            f"(a link of these inputs normally takes well under a second)", detail)
        if hang == "busy":
            raise Inconclusive(f"wild timed out (still consuming CPU) on {what}: {json.dumps(detail)[:600]}")
        err = res.err
        if "panicked at" in err or res.rc == 101:
            file, line, msg = panic_message(err)
            fn = _FRAME_CACHE.get((file, line))
            if fn is None and d is not None and argv is not None:
                # The panic location determines the function for a given binary: symbolise once per worker.
                for _attempt in range(3):   # several threads may fail at once: insist on the same panic
                    # symbolising the dev binary's backtrace can take minutes on an oversubscribed machine
                    bt = tools.run([core.WILD, *argv], cwd=d, env={"RUST_BACKTRACE": "1", "WILD_VALIDATE_OUTPUT": "0"},
                                   timeout=600)
                    f2, l2, _ = panic_message(bt.err)
                    if (f2, l2) == (file, line):
                        fn = innermost_frame(bt.err)
                        if fn:
                            _FRAME_CACHE[(file, line)] = fn
                        break
            sig = f"panic:{fn or file}:{msg}"
            detail = dict(detail)
            detail["panic_at"] = f"{file}:{line}"
            raise Violation(sig, f"wild panicked on {what}: {err.strip()[:400]}", detail)
        signo = -res.rc if res.rc < 0 else (res.rc - 128 if res.rc > 128 and not re.search(r"^wild: error", err, re.M) else 0)
        if signo:
            name = signal.Signals(signo).name if signo in signal.Signals._value2member_map_ else str(signo)
            overflow = "overflowed its stack" in err
            fn = gdb_crash_frame(argv, d, cycle=overflow) if (d is not None and argv is not None) else None
            what_msg = "memory allocation failed" if "memory allocation of" in err else "stack overflow" if overflow else ""
            sig = f"signal:{name}:{fn or '?'}" + (f":{what_msg}" if what_msg else "")
            raise Violation(sig, f"wild was killed by {name} on {what}: {err.strip()[:300]}", detail)
        if res.rc == 0:
            return "ok"
        if re.search(r"^wild: error", err, re.M):
            return "error"
        if "VERIF-INVARIANT" in err:
            return "invariant"  # hooks-build quiescence check: other properties' business
        raise Violation("exit-without-error-message", f"wild exited with status {res.rc} without a `wild: error` message on {what}: "
                        f"stderr={err.strip()[:300]!r}", detail)

    def run_case(self, case, ctx):
        d = ctx.dir
        if case.get("family") == "fuzz-artifact":
            # Replay of a libFuzzer crash input kept by extra_phases.
            self._seeds()
            target = {"input": "fuzz_input", "text": "fuzz_text", "args": "fuzz_args"}[case["campaign"].split("-")[0]]
            apath = case["artifact"] if os.path.isabs(case["artifact"]) else os.path.join(core.VERIF, case["artifact"])
            data = open(apath, "rb").read()
            rep = self.replay_artifact(target, data, d)
            if rep is None:
                return {"nontrivial": False}
            res, hang, argv, rd = rep
            self.judge(res, hang, "libFuzzer artifact", {"argv": argv, "artifact": case["artifact"]}, rd, argv)
            return {"nontrivial": True, "key": case["artifact"]}
        argv, labels, changed, magic_ok = self.build_command(case, d)
        points = f"{d}/points.txt"
        env = {"WILD_VALIDATE_OUTPUT": "0", "RUST_BACKTRACE": "0", "WILD_VERIF_POINTS": points}
        res, hang = run_watched([core.WILD, *argv], d, env, self.case_timeout)
        detail = {"family": case["family"], "argv": argv, "mutations": labels}
        outcome = self.judge(res, hang, f"{case['family']} input ({', '.join(labels[:4])})", detail, d, argv)
        reached = []
        try:
            reached = open(points).read().split()
        except OSError:
            pass
        last = next((p for p in reversed(reached) if not p.startswith("opened=")), "none")
        opened = any(p.startswith("opened=in.") or p.startswith("opened=out") for p in reached) or case["family"] in ("args", "response")
        err_kind = ""
        if outcome == "error":
            m = re.search(r"^wild: error: (.*)", res.err, re.M)
            err_kind = re.sub(r"`[^`]*`|\d+|/\S+|\bin\.\w+", "", m.group(1))[:40] if m else ""
        info = {"classes": [f"family:{case['family']}", f"outcome:{outcome}", f"reached:{last}"]
                + [f"mut:{lb}" for lb in sorted(set(labels))][:6], "counters": {"executions": 1}}
        info["nontrivial"] = bool(changed and magic_ok and opened)
        info["key"] = f"{case['family']}|{case['seed'] % 8}|{','.join(sorted(set(labels)))}|{outcome}:{err_kind}"
        return info

    # ---------------------------------------------------------------------------------------------
    # Engine 2: libFuzzer

    def build_fuzz(self):
        """Builds the libFuzzer targets against core.REPO. Returns dir with the binaries."""
        src = os.path.join(core.VERIF, "fuzz")
        gen = os.path.join(core.TARGET, "fuzzsrc", "parent")
        tdir = os.path.join(core.TARGET, "fuzz")
        bindir = os.path.join(tdir, "x86_64-unknown-linux-gnu", "release")
        if os.environ.get("VERIF_SKIP_BUILD") == "1" and os.path.exists(os.path.join(bindir, "fuzz_input")):
            return bindir
        lock = core._flock(os.path.join(core.TARGET, ".fbuild.lock"))
        try:
            os.makedirs(os.path.join(gen, "src"), exist_ok=True)
            os.makedirs(os.path.join(gen, "fuzz"), exist_ok=True)
            core._write_if_changed(os.path.join(gen, "Cargo.toml"),
                                   '[package]\nname = "vfuzz-parent"\nversion = "0.0.0"\nedition = "2024"\n[workspace]\n')
            core._write_if_changed(os.path.join(gen, "src", "lib.rs"), "\n")
            tmpl = open(os.path.join(src, "Cargo.toml.in")).read().replace("@REPO@", core.REPO)
            core._write_if_changed(os.path.join(gen, "fuzz", "Cargo.toml"), tmpl)
            lockfile = os.path.join(gen, "fuzz", "Cargo.lock")
            if not os.path.exists(lockfile):
                shutil.copy(os.path.join(core.REPO, "Cargo.lock"), lockfile)
            for sub in ("src", "fuzz_targets"):
                link = os.path.join(gen, "fuzz", sub)
                if not os.path.islink(link) or os.readlink(link) != os.path.join(src, sub):
                    if os.path.lexists(link):
                        os.unlink(link)
                    os.symlink(os.path.join(src, sub), link)
            env = dict(os.environ)
            env["CARGO_NET_OFFLINE"] = "true"
            env["CARGO_TARGET_DIR"] = tdir
            env.pop("RUSTFLAGS", None)
            t0 = time.time()
            p = subprocess.run(["cargo", "+nightly", "fuzz", "build", "-s", "none"], cwd=gen, env=env,
                               stdout=subprocess.PIPE, stderr=subprocess.STDOUT, text=True)
            if p.returncode != 0:
                core.log(p.stdout[-3000:])
                raise Inconclusive("cargo fuzz build failed")
            if time.time() - t0 > 10:
                core.log(f"[build] fuzz targets rebuilt in {time.time() - t0:.0f}s")
            return bindir
        finally:
            lock.close()

    def fuzz_campaigns(self):
        s = self._seeds()
        modes_obj = [0x20, 0x21, 0x22, 0x24, 0x03, 0x30]
        camp = {
            "input-obj": ("fuzz_input", [bytes([modes_obj[i % len(modes_obj)]]) + b for i, (n, b) in enumerate(s["elf-obj"]) if n != "a64.o"]
                          + [bytes([0x00]) + b for n, b in s["elf-obj"] if n == "a64.o"]),
            "input-so": ("fuzz_input", [bytes([0x20]) + s["elf-so"][0][1], bytes([0x22]) + s["elf-so"][0][1]]),
            "input-archive": ("fuzz_input", [bytes([0x20]) + s["archive"][0][1], bytes([0x28]) + s["archive"][0][1]]),
            "text-script": ("fuzz_text", [bytes([i % 2]) + t.encode() for i, (n, t) in enumerate(s["script"])]),
            "text-version": ("fuzz_text", [bytes([2]) + t.encode() for n, t in s["version"]]
                             + [bytes([3 + i % 2]) + t.encode() for i, (n, t) in enumerate(s["dynlist"])]),
            "text-response": ("fuzz_text", [bytes([5]) + t.encode() for n, t in s["response"]]),
            "args": ("fuzz_args", [b"--gc-sections\n-o\nout\nmain.o\n--hash-style=gnu", b"-shared\n-z\nnow\n--version-script=v\n-lfoo\n-L.",
                                   b"@r.rsp\n--push-state\n--as-needed\n--pop-state\n-m\nelf_x86_64"]),
        }
        return camp

    def replay_artifact(self, target, data, scratch):
        """Re-runs a libFuzzer crash input through the real binary. Returns (Result, hang, argv) or None."""
        d = os.path.join(scratch, "replay")
        shutil.rmtree(d, ignore_errors=True)
        os.makedirs(d)
        sd = self.seed_dir
        for n in ("main.o", "obj1.o", "obj2.o", "libdep.so"):
            shutil.copy(os.path.join(sd, n), f"{d}/{n}")
        if target == "fuzz_args":
            text = data.decode("utf-8", "replace")
            argv = [a for a in re.split(r"[\n\0]", text) if a]
        elif not data:
            return None
        elif target == "fuzz_input":
            mode = data[0]
            tools.write(f"{d}/in.bin", data[1:])
            argv = [[], ["-shared"], ["-pie"], ["-r"]][mode & 3] + ["--gc-sections" if mode & 4 else "--no-gc-sections"]
            if mode & 8:
                argv.append("--whole-archive")
            if mode & 16:
                argv.append("--export-dynamic")
            if mode & 32:
                argv.append("main.o")
            argv += ["in.bin", "-o", "out"]
        else:
            mode = data[0] % 6
            tools.write(f"{d}/in.txt", data[1:])
            argv = {0: ["-T", "in.txt", "main.o"], 1: ["main.o", "in.txt"], 2: ["-shared", "--version-script=in.txt", "main.o"],
                    3: ["-shared", "--dynamic-list=in.txt", "main.o"], 4: ["-pie", "--export-dynamic-symbol-list=in.txt", "main.o"],
                    5: ["@in.txt"]}[mode]
            if mode != 5:
                argv += ["-o", "out"]
        res, hang = run_watched([core.WILD, "--threads=1", *argv], d, {"WILD_VALIDATE_OUTPUT": "0", "RUST_BACKTRACE": "0"},
                                self.case_timeout)
        return res, hang, ["--threads=1", *argv], d

    def extra_phases(self, tier, seed, stats):
        if os.environ.get("VERIF_C22_NO_FUZZ") == "1":
            stats.extra["fuzz"] = "skipped (VERIF_C22_NO_FUZZ=1)"
            return
        from concurrent.futures import ThreadPoolExecutor
        bindir = self.build_fuzz()
        runs = int(os.environ.get("VERIF_C22_FUZZ_RUNS") or (self.fuzz_runs_quick if tier == "quick" else self.fuzz_runs_thorough))
        scratch = os.path.join(os.environ.get("VERIF_SCRATCH", "/dev/shm"), f"verif-fz-{os.getpid()}")
        shutil.rmtree(scratch, ignore_errors=True)
        os.makedirs(scratch)
        known = [e for e in core.load_known(self.prop) if e.get("status") == "known"]
        known_sub = [e["panic_contains"] for e in known if e.get("panic_contains")]
        camps = self.fuzz_campaigns()
        self._seeds()

        def campaign(item):
            """Runs one campaign to its run budget, restarting (same corpus, next seed) after every crash that is a
            known finding. Returns a dict of results."""
            name, (target, seeds) = item
            base = os.path.join(scratch, name)
            cdir, adir = os.path.join(base, "corpus"), os.path.join(base, "artifacts")
            os.makedirs(cdir)
            os.makedirs(adir)
            for i, b in enumerate(seeds):
                tools.write(os.path.join(cdir, f"seed{i:02d}"), b)
            env = dict(os.environ)
            env.update({"VERIF_FUZZ_AUX": self.seed_dir, "VERIF_FUZZ_SCRATCH": base,
                        "VERIF_KNOWN_PANICS": "\n".join(known_sub), "RUST_BACKTRACE": "0"})
            out = {"name": name, "execs": 0, "cov": 0, "known": {}, "violation": None, "inconclusive": None,
                   "not_reproduced": 0, "restarts": 0}
            remaining, attempt = runs, 0
            while remaining > 0 and attempt < 12:
                for f in os.listdir(adir):
                    os.unlink(os.path.join(adir, f))
                cmd = [os.path.join(bindir, target), f"-runs={remaining}", f"-seed={seed + attempt}", "-len_control=0",
                       "-timeout=60", "-rss_limit_mb=4096", "-max_len=16384", f"-artifact_prefix={adir}/",
                       "-print_final_stats=1", cdir]
                attempt += 1
                errpath = os.path.join(base, f"stderr-{attempt}.log")
                t_start = time.time()
                stuck = False
                with open(errpath, "w") as errf:
                    proc = subprocess.Popen(cmd, cwd=base, env=env, stdout=subprocess.DEVNULL, stderr=errf)
                    cur = os.path.join(base, f"verif-fuzz-{proc.pid}", "cur.raw")
                    wall = 3600 if tier == "quick" else 10 * 3600
                    while proc.poll() is None:
                        time.sleep(2)
                        now = time.time()
                        try:
                            age = now - os.path.getmtime(cur)
                        except OSError:
                            age = now - t_start
                        # libFuzzer's own -timeout can deadlock in its signal handler (malloc lock):
                        # an execution that has not finished after 150 s is declared stuck from outside.
                        if age > 150 or now - t_start > wall:
                            stuck = True
                            proc.kill()
                            proc.wait()
                            break
                perr = open(errpath, errors="replace").read()
                if stuck:
                    try:
                        data = open(cur, "rb").read()
                        done = int(open(os.path.join(os.path.dirname(cur), "count")).read() or "0")
                    except (OSError, ValueError):
                        out["inconclusive"] = f"libFuzzer campaign {name} got stuck and left no current unit"
                        break
                    out["execs"] += done
                    remaining -= max(done, 1)
                    shutil.rmtree(os.path.dirname(cur), ignore_errors=True)
                    rc, arts_data, where = 70, data, None
                else:
                    rc, arts_data, where = proc.returncode, None, None

                class _P:  # noqa: N801 - tiny adapter so the code below reads like the subprocess.run version
                    returncode = rc
                    stderr = perr
                p = _P
                m = re.search(r"stat::number_of_executed_units:\s*(\d+)", p.stderr)
                execs = int(m.group(1)) if m else 0
                if not stuck:
                    out["execs"] += execs
                    remaining -= max(execs, 1)
                cov = re.findall(r"cov: (\d+)", p.stderr)
                out["cov"] = max(out["cov"], int(cov[-1]) if cov else 0)
                if p.returncode == 0:
                    break
                arts = sorted(os.listdir(adir))
                where = re.search(r"VERIF-PANIC target=\S+ at=(.*)", p.stderr)
                if stuck:
                    data = arts_data
                elif not arts:
                    out["inconclusive"] = f"libFuzzer campaign {name} exited {p.returncode} without an artifact: {p.stderr[-400:]}"
                    break
                else:
                    data = open(os.path.join(adir, arts[0]), "rb").read()
                rep = self.replay_artifact(target, data, base)
                if rep is None:
                    continue
                res, hang, argv, d = rep
                detail = {"campaign": name, "artifact_len": len(data), "artifact_sha1": hashlib.sha1(data).hexdigest(),
                          "argv": argv, "in_process": where.group(1)[:200] if where else p.stderr.strip()[-200:],
                          "artifact_hex_head": data[:64].hex()}
                hint = None
                if target == "fuzz_input" and len(data) > 1:
                    body = data[1:]
                    parts = [body] if body[:4] == b"\x7fELF" else [body[o + 60:o + 60 + sz] for o, sz in ar_members(body)]
                    if any(pt[:4] == b"\x7fELF" and merge_string_far_offset(pt) for pt in parts):
                        hint = SIG_HANG_MERGE
                try:
                    self.judge(res, hang, f"libFuzzer artifact of campaign {name}", detail, d, argv, hang_hint=hint)
                    out["not_reproduced"] += 1
                    out["restarts"] += 1
                except Inconclusive as e:
                    out["inconclusive"] = str(e)[:400]
                    break
                except Violation as v:
                    if any(core.sig_matches(e["signature"], v.signature) for e in known):
                        out["known"][v.signature] = out["known"].get(v.signature, 0) + 1
                        out["restarts"] += 1
                        continue
                    keep = os.path.join(core.FAIL_DIR, self.prop)
                    os.makedirs(keep, exist_ok=True)
                    apath = os.path.join(keep, f"artifact-{name}-{hashlib.sha1(data).hexdigest()[:12]}.bin")
                    tools.write(apath, data)
                    v.detail = dict(v.detail or {}, artifact=apath)
                    v.case = {"family": "fuzz-artifact", "campaign": name, "artifact": apath}
                    out["violation"] = v
                    break
            return out

        try:
            with ThreadPoolExecutor(max_workers=min(len(camps), max(2, core.NWORKERS))) as ex:
                results = list(ex.map(campaign, camps.items()))
        finally:
            shutil.rmtree(scratch, ignore_errors=True)
        total = 0
        first = None
        for r in results:
            total += r["execs"]
            stats.extra[f"fuzz_{r['name']}_execs"] = r["execs"]
            stats.extra[f"fuzz_{r['name']}_cov"] = r["cov"]
            stats.classes[f"fuzz:{r['name']}"] += r["execs"]
            if r["restarts"]:
                stats.extra[f"fuzz_{r['name']}_restarts_after_known_crash"] = r["restarts"]
            if r["not_reproduced"]:
                stats.extra["fuzz_crashes_not_reproduced_by_binary"] = stats.extra.get(
                    "fuzz_crashes_not_reproduced_by_binary", 0) + r["not_reproduced"]
            for sg, n in r["known"].items():
                stats.excluded_known[sg] += n
            if r["inconclusive"]:
                stats.inconclusive.append(r["inconclusive"])
            if r["violation"] is not None and first is None:
                first = r["violation"]
        stats.extra["fuzz_total_execs"] = total
        stats.evaluations += total
        if first is not None:
            raise first


CHECK = C22()
