"""C08 — Dynamic symbol hash tables find every exported symbol.

Domain: shared objects and dynamic (PIE / non-PIE, --export-dynamic) executables built from
generated assembly with 0..5000 exported symbols whose names are biased toward hash collisions
(full 32-bit GNU-hash collisions "az"/"bY", full SysV collisions "aq"/"ba", same residue modulo
small powers of two, 1-char names, 300-char names, UTF-8 (bytes >= 0x80) names, names differing in
the last byte only), versioned duplicates (foo@V1 / foo@@V2), undefined imports interleaved,
--hash-style gnu|sysv|both|(default), -Bsymbolic, several input objects.

Oracle (vlib/hashlookup.py): glibc's do_lookup_x re-implemented (dl_new_hash, bloom word / two-bit
test, bucket -> chain walk to the low-bit terminator, `(chain ^ hash) >> 1 == 0`, strcmp; and
_dl_elf_hash bucket/chain walk), locating the tables through PT_DYNAMIC's DT_* like the loader.
Every defined global/weak .dynsym entry must be reached by a lookup of its own name through every
table present; every table the requested hash style asks for must be present when there is
something to find; every chain must terminate inside the table (so that lookups of absent names
terminate and return nothing).  The same validator runs on the GNU ld and lld outputs of the same
objects: a complaint there is a harness error (Inconclusive), never a Violation.
Run-time spot check (subset of cases): a driver dlopen()s the library and dlsym()s sampled present
and absent names; results must agree with .dynsym (also calibrated on GNU ld's library).
"""
import os
import struct

from hypothesis import strategies as st

from vlib import core, slow, tools
from vlib import elf as E
from vlib.core import Check, Discard, Inconclusive, Violation
from vlib.elf import Elf
from vlib.hashlookup import DynView, HashError, dl_elf_hash, dl_new_hash

FIRST = "abcdefghijklmnopqrstuvwxyzABCDEFGHIJKLMNOPQRSTUVWXYZ_"
HIGH = ["\u00e9", "\u00ff", "\u0394", "\u4e2d", "\u00f1", "\u07ff"]


def _mix(a, b):
    """Small deterministic integer mixer (pure function; not an RNG)."""
    x = (a * 0x9E3779B1 + b * 0x85EBCA77 + 0x165667B1) & 0xffffffff
    x ^= x >> 15
    x = (x * 0x2C1B3C6D) & 0xffffffff
    x ^= x >> 13
    return x


def group_names(g):
    """Names of one generator group (pure function of the group description)."""
    kind = g[0]
    if kind == "gcoll":      # full dl_new_hash collisions: 33*'a'+'z' == 33*'b'+'Y'
        _, prefix, k, masks = g
        return [prefix + "".join("bY" if (m >> i) & 1 else "az" for i in range(k)) for m in masks]
    if kind == "scoll":      # full SysV collisions: 16*'a'+'q' == 16*'b'+'a'
        _, prefix, k, masks = g
        return [prefix + "".join("ba" if (m >> i) & 1 else "aq" for i in range(k)) for m in masks]
    if kind == "residue":    # same dl_new_hash (or SysV hash) modulo a small power of two
        _, prefix, which, mod, r, count = g
        f = dl_new_hash if which == "gnu" else dl_elf_hash
        out, j = [], 0
        while len(out) < count and j < 40000:
            n = f"{prefix}{j}"
            if f(n.encode()) % mod == r % mod:
                out.append(n)
            j += 1
        return out
    if kind == "long":
        _, ch, n, count = g
        return [ch * n + f"_{i}" for i in range(count)]
    if kind == "short":
        return list(g[1])
    if kind == "high":
        _, prefix, idxs = g
        return [prefix + HIGH[i % len(HIGH)] + (HIGH[(i // 7) % len(HIGH)] if i % 3 == 0 else "") + str(i % 5)
                for i in idxs]
    if kind == "lastbyte":
        _, prefix, chars = g
        return [prefix + c for c in chars]
    if kind == "bulk":
        _, prefix, salt, n = g
        return [f"{prefix}{_mix(salt, i) % 100000:x}_{i}" for i in range(n)]
    raise ValueError(kind)


def ident(min_size=1, max_size=6):
    return st.builds(lambda a, b: a + b, st.sampled_from(FIRST),
                     st.text(FIRST + "0123456789", min_size=min_size - 1, max_size=max_size - 1))


def group_strategy():
    masks = st.lists(st.integers(0, 255), min_size=2, max_size=8, unique=True)
    return st.one_of(
        st.tuples(st.just("gcoll"), ident(1, 3), st.integers(1, 8), masks).map(list),
        st.tuples(st.just("scoll"), ident(1, 2), st.integers(1, 3), masks).map(list),
        st.tuples(st.just("residue"), ident(1, 3), st.sampled_from(["gnu", "sysv"]),
                  st.sampled_from([2, 4, 8, 16, 32, 64, 128]), st.integers(0, 127), st.integers(2, 24)).map(list),
        st.tuples(st.just("long"), st.sampled_from("xyzQ_"), st.sampled_from([60, 255, 300]), st.integers(1, 4)).map(list),
        st.tuples(st.just("short"), st.lists(st.sampled_from(FIRST), min_size=1, max_size=10, unique=True)).map(list),
        st.tuples(st.just("high"), ident(1, 3), st.lists(st.integers(0, 200), min_size=1, max_size=6, unique=True)).map(list),
        st.tuples(st.just("lastbyte"), ident(1, 12), st.lists(st.sampled_from(FIRST + "0123456789$."), min_size=2,
                                                              max_size=12, unique=True)).map(list),
    )


def bulk_strategy(tier):
    big = 5000 if tier == "quick" else 60000
    n = st.one_of(st.integers(0, 40), st.integers(0, 40), st.integers(0, 40), st.integers(0, 40), st.integers(0, 40),
                  st.integers(0, 40), st.integers(41, 400), st.integers(41, 400),
                  st.integers(401, big), st.sampled_from([0, 1, 2, 3, 4, 7, 8, 9, 15, 16, 17, 31, 32, 33, 63, 64, 65, 127, 128,
                                                          129, 255, 256, 257, 1023, 1024, 1025, big]))
    return st.tuples(st.just("bulk"), ident(1, 4), st.integers(0, 1 << 30), n).map(list)


class C08(Check):
    prop = "C08"
    level = "exploration"
    technique = ("PBT with a re-implemented glibc loader lookup (GNU hash + SysV hash) over generated collision-biased "
                 "export sets; validator calibrated on GNU ld and lld outputs of the same objects; dlopen/dlsym spot check")
    rule = ("Hypothesis draws name groups (full GNU/SysV hash collisions, equal residues modulo 2..128, 1-char, 300-char, "
            "UTF-8, last-byte variants, bulk 0..5000), versioned duplicates, imports, output kind and --hash-style; "
            "non-trivial = >= 8 defined dynamic symbols and >= 1 chain of length >= 2 in a table wild wrote; "
            "distinct by (kind, hash style, #defined, multiset of group kinds, chain-length profile)")
    assumptions = ["glibc 2.36 do_lookup_x semantics as re-implemented in vlib/hashlookup.py",
                   "GNU ld 2.40 and lld 14 outputs pass the same validator (checked per case)",
                   "symbol versions are checked at name level only (every version entry must be reachable along the chain)"]
    quick_cases = 320
    thorough_cases = 10000

    # ------------------------------------------------------------------------------------------
    def strategy(self, tier):
        return st.fixed_dictionaries({
            "kind": st.sampled_from(["shared", "shared", "shared", "pie", "exe"]),
            "hash_style": st.sampled_from(["gnu", "sysv", "both", "both", "default"]),
            "groups": st.lists(group_strategy(), min_size=0, max_size=5),
            "bulk": bulk_strategy(tier),
            "versioned": st.lists(st.tuples(ident(1, 5), st.integers(2, 3)).map(list), max_size=3,
                                  unique_by=lambda t: t[0]),
            "imports": st.lists(ident(2, 6), max_size=4, unique=True),
            "nobj": st.integers(1, 3),
            "attr_salt": st.integers(0, 1 << 16),
            "bsymbolic": st.booleans(),
            "gc": st.booleans(),
            "dlcheck": st.sampled_from([False, False, True]),
            "threads": st.sampled_from([0, 1, 4]),
        })

    def setup(self, tier):
        d = os.path.join(core.TARGET, "c08")
        os.makedirs(d, exist_ok=True)
        src = os.path.join(d, "vdl.c")
        exe = os.path.join(d, "vdl")
        text = DRIVER_C
        try:
            if open(src).read() == text and os.path.exists(exe):
                return
        except OSError:
            pass
        tools.write(src, text)
        tools.must(tools.run(["gcc", "-O1", "-o", exe + ".tmp", src, "-ldl"]), "building dlsym driver")
        os.replace(exe + ".tmp", exe)

    # ------------------------------------------------------------------------------------------
    @staticmethod
    def names_of(case):
        seen = set()
        names = []
        kinds = []
        vbase = {v[0] for v in case["versioned"]}
        for g in list(case["groups"]) + [case["bulk"]]:
            kinds.append(g[0])
            for n in group_names(g):
                if n in seen or n in vbase or n.startswith("vv_"):
                    continue
                seen.add(n)
                names.append(n)
        imports = [n for n in case["imports"] if n not in seen and n not in vbase and not n.startswith("vv_")]
        return names, imports, kinds

    def build_inputs(self, case, d):
        names, imports, kinds = self.names_of(case)
        nobj = case["nobj"]
        salt = case["attr_salt"]
        texts = [[".text\n"] for _ in range(nobj)]
        datas = [[".data\n"] for _ in range(nobj)]
        for i, n in enumerate(names):
            a = _mix(salt, i)
            o = a % nobj
            bind = ".weak" if a % 11 == 3 else ".globl"
            if a % 5 == 0:
                datas[o].append(f"{bind} {n}\n.type {n},@object\n{n}: .byte {i & 255}\n")
            else:
                typ = "" if a % 7 == 1 else f".type {n},@function\n"
                texts[o].append(f"{bind} {n}\n{typ}{n}: ret\n")
        vscript = None
        if case["versioned"]:
            maxv = max(v[1] for v in case["versioned"])
            lines = []
            for base, nv in case["versioned"]:
                for k in range(1, nv + 1):
                    loc = f"vv_{base}_{k}"
                    at = "@@" if k == nv else "@"
                    texts[0].append(f".globl {loc}\n.type {loc},@function\n.symver {loc}, {base}{at}VER{k}\n{loc}: ret\n")
            prev = None
            for k in range(1, maxv + 1):
                globs = " ".join(f"{b};" for b, nv in case["versioned"] if nv >= k)
                lines.append(f"VER{k} {{ global: {globs} local: vv_*; }}" + (f" VER{prev};" if prev else ";"))
                prev = k
            vscript = "\n".join(lines) + "\n"
        for j, n in enumerate(imports):
            datas[j % nobj].append(f".quad {n}\n")
        objs = []
        for o in range(nobj):
            src = ".text\n.byte 0x90,0x90\n" + "".join(texts[o]) + "".join(datas[o])
            if o == 0:
                src += ".text\n.globl _start\n.type _start,@function\n_start: ret\n"
            slow.asm(src.encode("utf-8"), f"o{o}.o", cwd=d)
            objs.append(f"o{o}.o")
        helper = None
        if imports:
            hs = ".data\n.byte 1\n" + "".join(f".globl {n}\n.type {n},@object\n{n}: .quad 0\n" for n in imports)
            slow.asm(hs, "h.o", cwd=d)
            tools.must(slow.link("ld", ["-shared", "-o", "libh.so", "h.o"], cwd=d), "helper library")
            helper = "libh.so"
        if vscript:
            tools.write(f"{d}/v.map", vscript)
        return names, imports, kinds, objs, helper, bool(vscript)

    def link_args(self, case, objs, helper, has_vs, out):
        a = []
        kind = case["kind"]
        if kind == "shared":
            a += ["-shared"]
        elif kind == "pie":
            a += ["-pie", "--export-dynamic", "--dynamic-linker=/lib64/ld-linux-x86-64.so.2"]
        else:
            a += ["--export-dynamic", "--dynamic-linker=/lib64/ld-linux-x86-64.so.2"]
        if case["hash_style"] != "default":
            a.append("--hash-style=" + case["hash_style"])
        if case["bsymbolic"]:
            a.append("-Bsymbolic")
        if case["gc"]:
            a.append("--gc-sections")
        if has_vs:
            a.append("--version-script=v.map")
        a += objs
        if helper:
            a.append(helper)
        a += ["-o", out]
        return a

    # ------------------------------------------------------------------------------------------
    def validate(self, path, case, who, expect_names, absent):
        """Returns (stats dict) or raises Violation (signature prefixed; caller maps references to
        Inconclusive)."""
        try:
            elf = Elf(path)
        except E.ElfError as e:
            raise Violation("bad-elf", f"{who}: output is not a readable ELF: {e}")
        dv = DynView(elf)
        syms = elf.dynsym()
        nsyms = len(syms)
        defined = [s for s in syms if s.index > 0 and s.shndx != E.SHN_UNDEF and s.bind in (E.STB_GLOBAL, E.STB_WEAK)
                   and s.name != ""]
        have_gnu = dv.gnu is not None
        have_sysv = dv.sysv is not None
        style = case["hash_style"]
        if defined:
            if style in ("gnu", "both") and not have_gnu:
                raise Violation("gnu-table-missing", f"{who}: --hash-style={style} but no DT_GNU_HASH although "
                                f"{len(defined)} dynamic symbols are defined")
            if style in ("sysv", "both") and not have_sysv:
                raise Violation("sysv-table-missing", f"{who}: --hash-style={style} but no DT_HASH although "
                                f"{len(defined)} dynamic symbols are defined")
            if not have_gnu and not have_sysv:
                raise Violation("no-hash-table", f"{who}: {len(defined)} defined dynamic symbols but neither DT_GNU_HASH nor DT_HASH")
        # The expected exports must be in .dynsym at all (otherwise the case does not test anything).
        have = {}
        for s in defined:
            have.setdefault(s.name.encode("latin-1"), []).append(s.index)
        missing = [n for n in expect_names if n not in have]
        info = {"ndef": len(defined), "missing_exports": len(missing), "gnu": have_gnu, "sysv": have_sysv,
                "max_chain_gnu": 0, "max_chain_sysv": 0, "dup_names": sum(1 for v in have.values() if len(v) > 1)}
        try:
            if have_gnu:
                reached = dv.gnu_walk_all(nsyms)
                info["max_chain_gnu"] = _max_count(reached)
                for s in defined:
                    nb = s.name.encode("latin-1")
                    got = dv.gnu_lookup_all(nb, nsyms)
                    if s.index not in got:
                        raise Violation("gnu-lookup-miss", f"{who}: GNU-hash lookup of {s.name!r} (dl_new_hash="
                                        f"{dl_new_hash(nb):#x}) does not reach .dynsym[{s.index}]; reached {got}; "
                                        f"header={dv.gnu_header()[:4]}", {"name": s.name, "index": s.index})
                for nb in absent:
                    got = dv.gnu_lookup_all(nb, nsyms)
                    if got:
                        raise Violation("gnu-absent-found", f"{who}: GNU-hash lookup of absent name {nb!r} returned {got}")
        except HashError as e:
            raise Violation("gnu-" + e.kind, f"{who}: .gnu.hash: {e.msg}")
        try:
            if have_sysv:
                reached = dv.sysv_walk_all()
                info["max_chain_sysv"] = _max_count(reached)
                for s in defined:
                    nb = s.name.encode("latin-1")
                    if who == "lld" and max(nb) >= 0x80:
                        # lld 14 hashes SysV names with *signed* char (fixed upstream later); glibc
                        # uses unsigned char.  lld is not a reference for that clause.
                        continue
                    got = dv.sysv_lookup_all(nb)
                    if s.index not in got:
                        raise Violation("sysv-lookup-miss", f"{who}: SysV-hash lookup of {s.name!r} (hash="
                                        f"{dl_elf_hash(nb):#x}) does not reach .dynsym[{s.index}]; reached {got}; "
                                        f"nbucket,nchain={dv.sysv_header()[:2]}", {"name": s.name, "index": s.index})
                for nb in absent:
                    got = dv.sysv_lookup_all(nb)
                    if got:
                        raise Violation("sysv-absent-found", f"{who}: SysV lookup of absent name {nb!r} returned {got}")
        except HashError as e:
            raise Violation("sysv-" + e.kind, f"{who}: .hash: {e.msg}")
        info["have"] = have
        info["elf"] = elf
        return info

    def run_case(self, case, ctx):
        d = ctx.dir
        names, imports, kinds, objs, helper, has_vs = self.build_inputs(case, d)
        vnames = [v[0] for v in case["versioned"]]
        expect = [n.encode("utf-8") for n in names + vnames]
        present = set(expect) | {n.encode() for n in imports}
        absent = []
        for n in expect[:150]:
            for alt in (n.replace(b"az", b"bY", 1), n.replace(b"bY", b"az", 1), n.replace(b"aq", b"ba", 1), n + b"_",
                        n[:-1], n[:-1] + bytes([(n[-1] ^ 1) or 1])):
                if alt and alt not in present and b"\0" not in alt:
                    absent.append(alt)
        absent += [f"absent_{_mix(case['attr_salt'], i):x}".encode() for i in range(100)]
        absent = [a for a in dict.fromkeys(absent) if a not in present][:600]

        results = {}
        for who in ("wild", "ld", "lld"):
            out = f"out.{who}"
            args = self.link_args(case, objs, helper, has_vs, out)
            if who == "wild" and case["threads"]:
                args = [f"--threads={case['threads']}"] + args
            r = slow.link(who, args, cwd=d)
            if who == "wild":
                if r.timed_out:
                    raise Inconclusive("wild timed out")
                if r.rc < 0 or "panicked at" in r.err:
                    raise Inconclusive(f"wild crashed (not C08's subject): {r.err[-300:]}")
                if r.rc != 0:
                    raise Discard("wild rejects: " + (r.err.strip().split("\n")[-1][:60]))
            elif r.rc != 0 or r.timed_out:
                if who == "ld":
                    raise Discard("GNU ld rejects the case: " + r.err.strip().split("\n")[-1][:50])
                results[who] = None
                continue
            try:
                results[who] = self.validate(f"{d}/{out}", case, who, expect, absent)
            except Violation as v:
                if who == "wild":
                    raise
                raise Inconclusive(f"oracle self-check failed: validator flags {who} output: {v}")

        w = results["wild"]
        ref = results["ld"]
        # Exports the generator intended must be in wild's .dynsym when GNU ld exports them (else the
        # case silently tests nothing); this is not C08's clause, so it is only a harness sanity check.
        if w["missing_exports"] and not ref["missing_exports"]:
            miss = [n for n in expect if n not in w["have"]][:5]
            raise Inconclusive(f"generator sanity: wild does not export {miss} that GNU ld exports")

        classes = [f"kind:{case['kind']}", f"style:{case['hash_style']}"] + [f"group:{k}" for k in sorted(set(kinds))]
        if case["versioned"]:
            classes.append("versioned")
        if w["dup_names"]:
            classes.append("dup-name-entries")
        if imports:
            classes.append("imports")
        nd = w["ndef"]
        classes.append("ndef:" + ("0" if nd == 0 else "1-7" if nd < 8 else "8-63" if nd < 64 else "64-999" if nd < 1000 else ">=1000"))
        mc = max(w["max_chain_gnu"], w["max_chain_sysv"])
        classes.append("chain:" + ("<2" if mc < 2 else "2-3" if mc < 4 else ">=4"))

        # Run-time spot check.
        if case["dlcheck"] and case["kind"] == "shared":
            self.dl_spot_check(case, d, "wild", w, expect, absent)
            classes.append("dlsym-checked")

        nontrivial = nd >= 8 and mc >= 2
        key = (f"{case['kind']}|{case['hash_style']}|{nd}|{','.join(sorted(kinds))}|{w['max_chain_gnu']}|"
               f"{w['max_chain_sysv']}|{len(case['versioned'])}")
        return {"nontrivial": nontrivial, "key": key, "classes": classes,
                "counters": {"lookups": nd * (int(w["gnu"]) + int(w["sysv"])), "absent_lookups": len(absent)}}

    def dl_spot_check(self, case, d, who, info, expect, absent):
        exe = os.path.join(core.TARGET, "c08", "vdl")
        sample = expect[:120] + expect[-80:]
        sample = list(dict.fromkeys(sample))
        ab = absent[:60]
        blob = b"".join(n + b"\n" for n in sample + ab)
        tools.write(f"{d}/names.{who}", blob)

        def run(lib):
            r = tools.run_exe(exe, cwd=d, args=[lib, f"names.{who}"], env={"LD_LIBRARY_PATH": d}, timeout=200)
            if r.timed_out:
                raise Inconclusive("dlsym driver did not finish within 200 s (machine load?)")
            return r

        # Calibrate on GNU ld's library first.
        rl = run(f"{d}/out.ld")
        if rl.rc != 0:
            raise Inconclusive(f"dlsym driver fails on GNU ld's library: rc={rl.rc} {rl.err[-200:]} {rl.out[-200:]}")
        ld_elf = Elf(f"{d}/out.ld")
        ld_have = {}
        for s in ld_elf.dynsym():
            if s.index > 0 and s.shndx != E.SHN_UNDEF and s.bind in (E.STB_GLOBAL, E.STB_WEAK):
                ld_have.setdefault(s.name.encode("latin-1"), []).append(s.value)
        bad = self._dl_compare(rl.out, sample, ab, ld_have)
        if bad:
            raise Inconclusive(f"oracle self-check failed: dlsym on GNU ld's library: {bad}")
        r = run(f"{d}/out.{who}")
        if r.rc != 0:
            raise Violation("dlopen-failed", f"glibc cannot dlopen wild's library (GNU ld's loads fine): rc={r.rc} "
                            f"{(r.out + r.err)[-300:]}")
        have = {}
        for s in info["elf"].dynsym():
            if s.index > 0 and s.shndx != E.SHN_UNDEF and s.bind in (E.STB_GLOBAL, E.STB_WEAK):
                have.setdefault(s.name.encode("latin-1"), []).append(s.value)
        bad = self._dl_compare(r.out, sample, ab, have)
        if bad:
            raise Violation("dlsym-mismatch", f"run-time dlsym on wild's library: {bad}")

    @staticmethod
    def _dl_compare(out, sample, ab, have):
        lines = out.strip().split("\n") if out.strip() else []
        if len(lines) != len(sample) + len(ab):
            return f"driver printed {len(lines)} lines for {len(sample) + len(ab)} names"
        for i, n in enumerate(sample + ab):
            v = lines[i]
            if n in have:
                if v == "NULL" or int(v, 16) not in have[n]:
                    return f"dlsym({n!r}) = {v}, .dynsym says {[hex(x) for x in have[n]]}"
            else:
                if v != "NULL":
                    return f"dlsym({n!r}) = {v} but the name is not defined in .dynsym"
        return None


def _max_count(reached):
    c = {}
    for _, b in reached.items():
        c[b] = c.get(b, 0) + 1
    return max(c.values()) if c else 0


DRIVER_C = r"""
#define _GNU_SOURCE
#include <dlfcn.h>
#include <link.h>
#include <stdio.h>
#include <stdlib.h>
#include <string.h>
int main(int argc, char **argv) {
    void *h = dlopen(argv[1], RTLD_NOW | RTLD_LOCAL);
    if (!h) { printf("dlopen: %s\n", dlerror()); return 3; }
    struct link_map *lm = 0;
    if (dlinfo(h, RTLD_DI_LINKMAP, &lm) || !lm) { printf("dlinfo failed\n"); return 4; }
    FILE *f = fopen(argv[2], "rb");
    if (!f) return 5;
    static char line[4096];
    while (fgets(line, sizeof line, f)) {
        size_t n = strlen(line);
        if (n && line[n - 1] == '\n') line[n - 1] = 0;
        void *p = dlsym(h, line);
        if (!p) puts("NULL"); else printf("%lx\n", (unsigned long)((char *)p - (char *)lm->l_addr));
    }
    return 0;
}
"""

CHECK = C08()
