"""C38 — Every function and object has one address across modules.

Domain: an executable (non-PIC/non-PIE, -fPIE/-pie, -fPIC/-pie, -fPIC/-no-pie) plus 1-3 shared
libraries; 2-6 shared symbols (functions; data: initialised, bss, const; optional second name
(alias) at the same address; default or protected visibility) each defined in one module and
used by 2+ modules in both directions; every using module takes the address in a static
initialiser and at run time, calls / reads / writes directly and through the pointer.
Variants: -z nocopyreloc, -Bsymbolic (libraries), -z now, -O0/-O2, which modules wild links
(only the executable, only the libraries, everything).
Oracle: in-process self-checks printed as booleans (address seen by module M == address seen by
the reference module; call through pointer returns the id; a value written through one module's
view is read back by every module, directly and through its pointer); the statement's model is
"all 1".  stdout of the wild-linked program must equal the GNU-ld-linked program's (all modules by
GNU ld 2.40).  VIOLATION iff wild's output differs from GNU ld's and GNU ld's is all-1 with exit 0;
GNU ld's own output not all-1 (e.g. -Bsymbolic, protected) and wild differing from it -> oracle
split; GNU ld rejecting the link or its program failing -> discard.
"""
import os

from hypothesis import strategies as st

from vlib import patient, tools
from vlib import elf as E
from vlib.core import Check, Discard, Inconclusive, OracleSplit, Violation
from vlib.elf import Elf

EXE_MODES = {"nopic": (["-fno-pic"], ["-no-pie"]), "pie": (["-fPIE"], ["-pie"]),
             "picpie": (["-fPIC"], ["-pie"]), "picnopie": (["-fPIC"], ["-no-pie"])}


def sym_strategy():
    return st.fixed_dictionaries({
        "kind": st.sampled_from(["func", "func", "func", "data", "data", "data", "bss", "const", "tls", "ifunc"]),
        "owner": st.integers(0, 3),          # 0 = executable, k = library k (mod number of libraries)
        "users": st.lists(st.integers(0, 3), min_size=1, max_size=4),
        # True: the public name is a weak alias of a strong internal name the owner uses (environ/__environ);
        # "rev": the public name is the strong one and the owning library reaches the object through its own
        # weak alias, which nothing in the executable mentions
        "alias": st.sampled_from([False, False, True, "rev", "rev"]),
        "prot": st.sampled_from([False] * 7 + [True]),
        "strongalias": st.sampled_from([False] * 15 + [True]),
    })


def case_strategy():
    return st.fixed_dictionaries({
        "exe": st.sampled_from(["nopic", "nopic", "pie", "pie", "picpie", "picnopie"]),
        "nlibs": st.integers(1, 3),
        "syms": st.lists(sym_strategy(), min_size=2, max_size=5),
        "force": st.sampled_from([True, True, True, False]),
        "opt": st.sampled_from(["-O0", "-O1", "-O2"]),
        "who": st.sampled_from(["exe", "exe", "all", "all", "libs"]),
        "nocopyreloc": st.sampled_from([False] * 5 + [True]),
        "bsymbolic": st.sampled_from([False] * 5 + [True]),
        "now": st.booleans(),
        "noplt": st.sampled_from([False, False, False, True]),
        # False (usual): normalise() keeps the case outside the known finding's domain; True: as generated
        "raw": st.sampled_from([False] * 9 + [True]),
    })


def normalise(case):
    """Symbols with owner/users resolved to module indices 0..nlibs (0 = executable)."""
    n = case["nlibs"]
    out = []
    tls_owned = {}
    src = list(case["syms"])
    if case["force"]:
        # make the two witnesses of the non-trivial rule likely: library data used directly by the
        # executable, and a function whose address is taken in the executable and in a library
        a, b = dict(src[0]), dict(src[1])
        a.update(kind=a["kind"] if a["kind"] != "func" else "data", owner=1 + a["owner"] % 3, users=a["users"] + [0])
        b.update(kind="func", users=b["users"] + [0, 1])
        src[0], src[1] = a, b
    for k, s in enumerate(src):
        owner = s["owner"] % (n + 1)
        users = sorted({u % (n + 1) for u in s["users"]} | {owner})
        if len(users) < 2:
            users = sorted(set(users) | {(owner + 1) % (n + 1)})
        kind = s["kind"]
        if s["alias"] == "rev" and kind in ("data", "bss", "const") and owner != 0:
            users = sorted(set(users) | {0})      # the shape is about the executable using the strong name
        if kind in FUNCS and owner != 0 and 0 in users and case["exe"] == "nopic" and not case["raw"]:
            owner = 0       # see in_canonical_plt_domain()
        if (kind == "tls" and owner != 0 and tls_owned.get(owner) and case["bsymbolic"] and case["who"] in ("libs", "all")
                and not case["raw"]):
            kind = "data"   # see in_tls_bsymbolic_domain()
        if kind == "tls":
            tls_owned[owner] = tls_owned.get(owner, 0) + 1
        prot = s["prot"] and owner != 0
        # GNU ld refuses copy relocations against protected data; keep protected data for PIC executables
        if prot and kind not in FUNCS and case["exe"] in ("nopic", "pie") and 0 in users:
            prot = False
        if kind in ("tls", "ifunc"):
            prot = False
        out.append({"k": k, "name": f"s{k}", "id": 1000 + 7 * k, "kind": kind, "owner": owner, "users": users,
                    "alias": s["alias"] if (kind in ("data", "bss", "const") and owner != 0) else False, "prot": prot,
                    "strongalias": s["strongalias"]})
    return out


KNOWN_CANON = "func-address-nonpic-exe-no-canonical-plt"


def in_canonical_plt_domain(case):
    """Known finding's exact domain: a non-PIC (-fno-pic, -no-pie) executable takes the address of a
    function defined in a shared library (absolute relocation in code => canonical PLT entry needed;
    wild leaves the dynamic symbol's st_value 0, so other modules and the executable's own data
    relocations see the library's address instead of the PLT entry)."""
    return case["exe"] == "nopic" and any(s["kind"] in FUNCS and s["owner"] != 0 and 0 in s["users"] for s in normalise(case))


FUNCS = ("func", "ifunc")


KNOWN_TLSBSYM = "tls-gd-bsymbolic-dtpoff-not-written"


def in_tls_bsymbolic_domain(case):
    """Known finding's exact domain: a library linked by wild with -Bsymbolic defines >= 2
    thread-local variables (so one of them has a non-zero offset in the module's TLS block): its
    general-dynamic GOT pair gets a symbolic DTPMOD64 but the DTPOFF word is left 0, so the library
    reads/writes the wrong variable."""
    if not (case["bsymbolic"] and case["who"] in ("libs", "all")):
        return False
    owned = {}
    for s in normalise(case):
        if s["kind"] == "tls" and s["owner"] != 0:
            owned[s["owner"]] = owned.get(s["owner"], 0) + 1
    return any(v >= 2 for v in owned.values())


def modname(m):
    return "exe" if m == 0 else f"lib{m}"


def module_source(m, syms):
    L = ["#define HID __attribute__((visibility(\"hidden\")))"]
    for s in syms:
        n, me = s["name"], modname(m)
        is_func = s["kind"] in FUNCS
        if s["owner"] == m:
            vis = "__attribute__((visibility(\"protected\"))) " if s["prot"] else ""
            if s["kind"] == "ifunc":
                L.append(f"static int impl_{n}(void) {{ return {s['id']}; }}")
                L.append(f"static void *resolve_{n}(void) {{ return (void *)impl_{n}; }}")
                L.append(f"int {n}(void) __attribute__((ifunc(\"resolve_{n}\")));")
            elif s["kind"] == "tls":
                L.append(f"__thread int {n} = {s['id']};")
            elif is_func:
                L.append(f"{vis}int {n}(void) {{ return {s['id']}; }}")
            elif s["kind"] == "data":
                L.append(f"{vis}int {n}{'_real' if s['alias'] is True else ''} = {s['id']};")
            elif s["kind"] == "bss":
                L.append(f"{vis}int {n}{'_real' if s['alias'] is True else ''};")
            else:
                L.append(f"{vis}const int {n}{'_real' if s['alias'] is True else ''} = {s['id']};")
            if s["alias"] == "rev":
                cst = "const " if s["kind"] == "const" else ""
                L.append(f"extern {cst}int {n}_w __attribute__((weak, alias(\"{n}\")));")
            elif s["alias"]:
                # glibc pattern (environ/__environ): the public name is a weak alias of a strong
                # internal name which the defining library itself uses.  GNU ld moves both along
                # with a copy relocation of the weak name.  "strongalias": both names strong
                # (GNU ld does not move the second name; kept as a rare class).
                w = "" if s["strongalias"] else "weak, "
                cst = "const " if s["kind"] == "const" else ""
                L.append(f"extern {cst}int {n} __attribute__(({w}alias(\"{n}_real\")));")
        if m not in s["users"]:
            continue
        if s["owner"] != m:
            L.append(f"extern int {n}(void);" if is_func else
                     f"extern {'const ' if s['kind'] == 'const' else ''}{'__thread ' if s['kind'] == 'tls' else ''}int {n};")
        # The owner's library looks at its own data through the alias name (if any): the alias must
        # follow the symbol wherever a copy relocation moves it.
        acc = (f"{n}_w" if s["alias"] == "rev" else f"{n}_real") if (s["alias"] and s["owner"] == m) else n
        if s["kind"] == "tls":
            # no static initialiser can hold a thread-local address: st_ is a second run-time view
            L.append(f"void *st_{me}_{n}(void) {{ void *volatile p = (void *)&{acc}; return p; }}")
        else:
            L.append(f"HID void *sp_{me}_{n} = (void *)&{acc};")
            L.append(f"void *st_{me}_{n}(void) {{ return sp_{me}_{n}; }}")
        L.append(f"void *rt_{me}_{n}(void) {{ return (void *)&{acc}; }}")
        if is_func:
            L.append(f"int call_{me}_{n}(void) {{ return {n}(); }}")
        else:
            L.append(f"int read_{me}_{n}(void) {{ return {acc}; }}")
            if s["kind"] != "const":
                L.append(f"void write_{me}_{n}(int v) {{ {acc} = v; }}")
    return "\n".join(L) + "\n"


def main_source(syms):
    L = ["#include <stdio.h>"]
    body = []
    for s in syms:
        n = s["name"]
        is_func = s["kind"] in FUNCS
        for m in s["users"]:
            me = modname(m)
            L.append(f"void *st_{me}_{n}(void); void *rt_{me}_{n}(void);")
            if is_func:
                L.append(f"int call_{me}_{n}(void);")
            else:
                L.append(f"int read_{me}_{n}(void);")
                if s["kind"] != "const":
                    L.append(f"void write_{me}_{n}(int v);")
        ref = modname(s["users"][0])
        body.append(f"  {{ void *ref = rt_{ref}_{n}();")
        for m in s["users"]:
            me = modname(m)
            body.append(f"    printf(\"{n} {me} addr st=%d rt=%d\\n\", st_{me}_{n}() == ref, rt_{me}_{n}() == ref);")
            if is_func:
                body.append(f"    printf(\"{n} {me} call direct=%d viaptr=%d\\n\", call_{me}_{n}() == {s['id']}, "
                            f"((int (*)(void))st_{me}_{n}())() == {s['id']});")
            else:
                init = 0 if s["kind"] == "bss" else s["id"]
                body.append(f"    printf(\"{n} {me} init direct=%d viaptr=%d\\n\", read_{me}_{n}() == {init}, "
                            f"*(volatile int *)st_{me}_{n}() == {init});")
        if not is_func and s["kind"] != "const":
            for wi, w in enumerate(s["users"]):
                v = s["id"] + 100 + wi
                body.append(f"    write_{modname(w)}_{n}({v});")
                for m in s["users"]:
                    me = modname(m)
                    body.append(f"    printf(\"{n} w={modname(w)} r={me} direct=%d viaptr=%d\\n\", read_{me}_{n}() == {v}, "
                                f"*(volatile int *)rt_{me}_{n}() == {v});")
        body.append("  }")
    L.append("int main(void) {")
    L += body
    L.append("  return 0;\n}")
    return "\n".join(L) + "\n"


class C38(Check):
    prop = "C38"
    level = "exploration"
    technique = ("run-time invariant PBT: generated executable + shared libraries print in-process address-equality and "
                 "write-visibility booleans; differential vs the all-GNU-ld build of the same sources; model = all booleans 1")
    rule = ("Hypothesis-generated sets of 2-6 functions/data objects each defined in one module (executable or one of 1-3 "
            "libraries) and used by 2-4 modules, x executable code model x options x which modules wild links; non-trivial = "
            ">=1 library data symbol the executable accesses directly (copy relocation) and >=1 function whose address is taken "
            "in both the executable and a library; distinct by (exe mode, options, per-symbol kind/owner/users/alias)")
    assumptions = ["GNU ld 2.40 builds are the reference", "glibc's dynamic loader resolves by the ELF rules",
                   "gcc 12 code generation for -fno-pic/-fPIE/-fPIC"]
    quick_cases = 128
    thorough_cases = 5000
    case_timeout = 180

    def strategy(self, tier):
        return case_strategy()

    def excluded_by_construction(self, case):
        if in_canonical_plt_domain(case):
            return KNOWN_CANON
        from vlib.core import still_known
        if in_tls_bsymbolic_domain(case) and still_known("C38", KNOWN_TLSBSYM):
            return KNOWN_TLSBSYM
        return None

    def run_case(self, case, ctx):
        d = ctx.dir
        syms = normalise(case)
        n = case["nlibs"]
        cflags, lflags = EXE_MODES[case["exe"]]
        opt = [case["opt"], "-w"] + (["-fno-plt"] if case["noplt"] else [])
        patient.cc(main_source(syms), "main.o", flags=[*opt, *cflags], cwd=d)
        patient.cc(module_source(0, syms), "exe.o", flags=[*opt, *cflags], cwd=d)
        for m in range(1, n + 1):
            patient.cc(module_source(m, syms), f"lib{m}.o", flags=[*opt, "-fPIC"], cwd=d)
        nocopy = case["nocopyreloc"] and case["exe"] in ("picpie", "picnopie")
        outs = {}
        for cfg in ("ref", "test"):
            sub = f"{d}/{cfg}"
            os.mkdir(sub)
            lib_linker = "wild" if cfg == "test" and case["who"] in ("libs", "all") else "ld"
            exe_linker = "wild" if cfg == "test" and case["who"] in ("exe", "all") else "ld"
            common = ["-Wl,--no-gc-sections"] + (["-Wl,-z,now"] if case["now"] else [])
            for m in range(n, 0, -1):
                # library m may depend on higher-numbered libraries (linked earlier) to vary DT_NEEDED chains
                deps = [f"{cfg}/lib{j}.so" for j in range(m + 1, n + 1) if (m + j) % 2 == 1]
                args = ["-shared", "-o", f"{cfg}/lib{m}.so", f"lib{m}.o", *deps, *common, f"-Wl,-soname,lib{m}.so"]
                if case["bsymbolic"]:
                    args.append("-Wl,-Bsymbolic")
                r = patient.cc_link(lib_linker, args, cwd=d)
                self._ok(lib_linker, r, f"library {m}")
            args = [*lflags, "-o", f"{cfg}/prog", "main.o", "exe.o", *[f"{cfg}/lib{m}.so" for m in range(1, n + 1)], *common]
            if nocopy:
                args.append("-Wl,-z,nocopyreloc")
            r = patient.cc_link(exe_linker, args, cwd=d)
            self._ok(exe_linker, r, "executable")
            outs[cfg] = patient.run_exe(f"{sub}/prog", cwd=d, env={"LD_LIBRARY_PATH": sub})
        ref, test = outs["ref"], outs["test"]
        if ref.timed_out or ref.rc != 0:
            raise Discard(f"GNU-ld-linked program fails (rc={ref.rc})")
        ref_lines = ref.out.strip().split("\n")
        ref_all_one = all("=0" not in ln for ln in ref_lines)
        classes = [f"exe:{case['exe']}", f"who:{case['who']}", f"libs:{n}"]
        info = self._features(case, syms, f"{d}/test/prog", classes)
        if test.timed_out:
            raise Inconclusive("wild-linked program timed out")
        if test.out != ref.out or test.rc != ref.rc:
            bad = [ln for ln in test.out.strip().split("\n") if "=0" in ln][:6]
            if not ref_all_one:
                # GNU ld itself does not satisfy the statement here (e.g. it does not export an unreferenced weak
                # alias of a copy-relocated object).  Second reference: lld.  If the lld-linked program satisfies
                # the statement (all equal, exit 0), the statement is satisfiable for this program and wild is
                # judged against it; otherwise the references are split.
                if not self._lld_all_one(case, d, n, lflags, nocopy):
                    raise OracleSplit(f"GNU-ld-linked program itself reports inequalities and wild differs from it: {bad}")
                if not bad and test.rc == 0:
                    # wild satisfies the statement where GNU ld does not
                    classes.append("ld-reports-inequality-lld-and-wild-all-equal")
                    info["classes"] = classes
                    info["counters"] = {"booleans": test.out.count("=")}
                    return info
                sig = self._signature(test, bad, syms) + ":lld-reference"
                raise Violation(sig, f"exe={case['exe']} who={case['who']}: the lld-linked program prints all-equal (GNU ld's does "
                                f"not), the wild-linked program rc={test.rc} reports {bad or test.err[-200:]}",
                                {"stderr": test.err[-300:]})
            sig = self._signature(test, bad, syms)
            if in_canonical_plt_domain(case) and sig.startswith(("addr:func:lib-defined", "addr:ifunc:lib-defined")):
                sig = KNOWN_CANON
            elif in_tls_bsymbolic_domain(case) and ":tls:" in sig:
                sig = KNOWN_TLSBSYM
            raise Violation(sig, f"exe={case['exe']} who={case['who']}: GNU-ld-linked program prints all-equal, wild-linked "
                            f"program rc={test.rc} reports {bad or test.err[-200:]}", {"stderr": test.err[-300:]})
        if not ref_all_one:
            classes.append("ld-also-reports-inequality")
        info["classes"] = classes
        info["counters"] = {"booleans": ref.out.count("=")}
        return info

    @staticmethod
    def _lld_all_one(case, d, n, lflags, nocopy):
        sub = f"{d}/lld"
        os.mkdir(sub)
        common = ["-Wl,--no-gc-sections"] + (["-Wl,-z,now"] if case["now"] else [])
        for m in range(n, 0, -1):
            deps = [f"lld/lib{j}.so" for j in range(m + 1, n + 1) if (m + j) % 2 == 1]
            args = ["-shared", "-o", f"lld/lib{m}.so", f"lib{m}.o", *deps, *common, f"-Wl,-soname,lib{m}.so"]
            if case["bsymbolic"]:
                args.append("-Wl,-Bsymbolic")
            r = patient.cc_link("lld", args, cwd=d)
            if r.timed_out or r.rc != 0:
                return False
        args = [*lflags, "-o", "lld/prog", "main.o", "exe.o", *[f"lld/lib{m}.so" for m in range(1, n + 1)], *common]
        if nocopy:
            args.append("-Wl,-z,nocopyreloc")
        r = patient.cc_link("lld", args, cwd=d)
        if r.timed_out or r.rc != 0:
            return False
        out = patient.run_exe(f"{sub}/prog", cwd=d, env={"LD_LIBRARY_PATH": sub})
        return (not out.timed_out) and out.rc == 0 and bool(out.out.strip()) and "=0" not in out.out

    @staticmethod
    def _ok(linker, r, what):
        if r.timed_out:
            raise Inconclusive(f"{linker} timed out linking the {what}")
        if r.rc != 0:
            if "panicked at" in r.err and linker == "wild":
                raise Violation("crash", f"wild crashed linking the {what}: {r.err[-300:]}")
            raise Discard(("GNU ld" if linker == "ld" else "wild") + f" rejects the {what}: " +
                          r.err.strip().split("\n")[-1].split(": ")[-1][:40])

    @staticmethod
    def _signature(test, bad, syms):
        if test.rc < 0:
            return "program-crash"
        if not bad:
            return "program-output"
        name = bad[0].split()[0]
        s = next((x for x in syms if x["name"] == name), None)
        kind = s["kind"] if s and s["kind"] in ("func", "ifunc", "tls") else "data"
        what = "addr" if " addr " in bad[0] else ("call" if " call " in bad[0] else "value")
        owner = "exe-defined" if s and s["owner"] == 0 else "lib-defined"
        return f"{what}:{kind}:{owner}" + (":alias" if s and s["alias"] else "")

    @staticmethod
    def _features(case, syms, exe_path, classes):
        direct = case["exe"] in ("nopic", "pie")
        copy = [s for s in syms if s["kind"] in ("data", "bss", "const") and s["owner"] != 0 and 0 in s["users"] and direct]
        both = [s for s in syms if s["kind"] in FUNCS and 0 in s["users"] and any(u != 0 for u in s["users"])]
        for k in ("tls", "ifunc"):
            if any(s["kind"] == k for s in syms):
                classes.append(k)
        try:
            elf = Elf(exe_path)
            ncopy = sum(1 for r in elf.all_dyn_relas() if r.type == E.R_X86_64_COPY)
            canon = sum(1 for s in elf.dynsym() if s.shndx == E.SHN_UNDEF and s.value != 0 and s.type == E.STT_FUNC)
        except Exception:
            ncopy = canon = 0
        if ncopy:
            classes.append("copy-reloc")
        if canon:
            classes.append("canonical-plt")
        if any(s["alias"] for s in copy):
            classes.append("copy-reloc-alias")
        if any(s["owner"] == 0 and any(u != 0 for u in s["users"]) for s in syms):
            classes.append("exe-defined-used-by-lib")
        if any(s["prot"] for s in syms):
            classes.append("protected")
        for f in ("nocopyreloc", "bsymbolic", "now", "noplt"):
            if case[f]:
                classes.append(f)
        key = repr((case["exe"], case["who"], case["bsymbolic"], case["now"], case["nocopyreloc"], case["opt"],
                    [(s["kind"], s["owner"], tuple(s["users"]), s["alias"], s["prot"]) for s in syms]))
        return {"nontrivial": bool(copy) and bool(both), "key": key}


CHECK = C38()
