"""C16 — Linker-script expressions evaluate as in GNU ld.

Domain: expression trees over literals (dec/hex, K/M suffixes) and every supported unary/binary
operator plus MIN/MAX, rendered with the minimum parentheses C precedence requires (plus random
redundant ones), so that precedence and associativity are exercised.
Oracle: GNU ld 2.40 computes the value (`vN = (expr);` read back from its output symbol table);
the harness's model of the stated semantics (C precedence, wrapping u64, signed division, shift
count mod 64) must agree with ld, else the case is an oracle split.  wild must then pass
`ASSERT((expr) == V)` and fail `ASSERT((expr) != V)` (the ASSERT clause of the statement).
Expressions that wild refuses to parse are outside the statement ("every expression wild
accepts") and are discarded (counted).
"""
from hypothesis import strategies as st

from vlib import tools
from vlib.core import Check, Discard, OracleSplit, Violation
from vlib.elf import Elf

M64 = (1 << 64) - 1

# C precedence (higher binds tighter).
# (`^` is not generated: GNU ld 2.40 has no XOR operator in its expression grammar.)
PREC = {"*": 10, "/": 10, "+": 9, "-": 9, "<<": 8, ">>": 8, "<": 7, ">": 7, "<=": 7, ">=": 7,
        "==": 6, "!=": 6, "&": 5, "|": 3, "&&": 2, "||": 1}
BINOPS = list(PREC)
UNOPS = ["-", "~", "!"]

INTERESTING = [0, 1, 2, 3, 7, 8, 63, 64, 65, 255, 4096, 0x7fffffff, 0x80000000, 0xffffffff,
               0x100000000, 0x7fffffffffffffff, 0x8000000000000000, 0xfffffffffffffffe, M64]


def num_strategy():
    val = st.one_of(st.sampled_from(INTERESTING), st.integers(0, 300), st.integers(0, M64))

    def render(v, style):
        if style == "hex":
            return f"0x{v:x}"
        if style == "HEX":
            return f"0x{v:X}"
        if style == "K" and v % 1024 == 0 and v:
            return f"{v // 1024}K"
        if style == "M" and v % (1 << 20) == 0 and v:
            return f"{v >> 20}M"
        if style == "xK" and v % 1024 == 0 and v:
            return f"0x{v // 1024:x}K"
        return str(v)

    return st.builds(lambda v, s: ["num", render(v, s), v], val,
                     st.sampled_from(["dec", "hex", "HEX", "K", "M", "xK", "dec"]))


def expr_strategy():
    """Explicit level-by-level construction (depth <= 3, <= 8 leaves) so that most generated
    trees have several operators."""
    xp = st.sampled_from([False, False, False, True])
    level = num_strategy()
    for _ in range(3):
        prev = level
        level = st.one_of(
            prev,
            st.builds(lambda op, l, r, x: ["bin", op, l, r, x], st.sampled_from(BINOPS), prev, prev, xp),
            st.builds(lambda op, l, r, x: ["bin", op, l, r, x], st.sampled_from(BINOPS), prev, prev, xp),
            st.builds(lambda op, l, r, x: ["bin", op, l, r, x], st.sampled_from(BINOPS), prev, prev, xp),
            st.builds(lambda op, e: ["un", op, e], st.sampled_from(UNOPS), prev),
            st.builds(lambda f, a, b: ["fn", f, a, b], st.sampled_from(["MIN", "MAX"]), prev, prev),
        )
    return level


def s64(v):
    return v - (1 << 64) if v >> 63 else v


class DivZero(Exception):
    pass


def model_eval(e):
    k = e[0]
    if k == "num":
        return e[2]
    if k == "un":
        v = model_eval(e[2])
        return {"-": (-v) & M64, "~": (~v) & M64, "!": int(v == 0)}[e[1]]
    if k == "fn":
        a, b = model_eval(e[2]), model_eval(e[3])
        return min(a, b) if e[1] == "MIN" else max(a, b)
    op, l, r = e[1], model_eval(e[2]), model_eval(e[3])
    if op == "+":
        return (l + r) & M64
    if op == "-":
        return (l - r) & M64
    if op == "*":
        return (l * r) & M64
    if op == "/":
        if r == 0:
            raise DivZero()
        a, b = s64(l), s64(r)
        q = abs(a) // abs(b)
        if (a < 0) != (b < 0):
            q = -q
        return q & M64
    if op == "<<":
        return (l << (r % 64)) & M64
    if op == ">>":
        return l >> (r % 64)
    if op == "<":
        return int(l < r)
    if op == ">":
        return int(l > r)
    if op == "<=":
        return int(l <= r)
    if op == ">=":
        return int(l >= r)
    if op == "==":
        return int(l == r)
    if op == "!=":
        return int(l != r)
    if op == "&":
        return l & r
    if op == "|":
        return l | r
    if op == "&&":
        return int(l != 0 and r != 0)
    if op == "||":
        return int(l != 0 or r != 0)
    raise ValueError(op)


def render(e, parent_prec=0, right_side=False):
    k = e[0]
    if k == "num":
        return e[1]
    if k == "un":
        inner = e[2]
        s = render(inner, 100)
        if inner[0] == "un":
            return f"{e[1]} {s}"
        return f"{e[1]}{s}"
    if k == "fn":
        return f"{e[1]}({render(e[2])}, {render(e[3])})"
    op = e[1]
    p = PREC[op]
    s = f"{render(e[2], p, False)} {op} {render(e[3], p, True)}"
    need = p < parent_prec or (p == parent_prec and right_side) or e[4]
    return f"({s})" if need else s


def shape(e):
    """Operator-shape: ops in tree order with paren structure, literals abstracted."""
    k = e[0]
    if k == "num":
        return "n"
    if k == "un":
        return f"{e[1]}{shape(e[2])}"
    if k == "fn":
        return f"{e[1]}({shape(e[2])},{shape(e[3])})"
    return f"[{shape(e[2])}{e[1]}{shape(e[3])}]"


def features(e, acc=None, parent=None, side=None):
    """Witness classes for non-triviality."""
    if acc is None:
        acc = set()
    k = e[0]
    if k == "bin":
        op = e[1]
        for i, ch in ((2, "L"), (3, "R")):
            c = e[i]
            if c[0] == "bin" and not c[4]:
                pc, pp = PREC[c[1]], PREC[op]
                # child unparenthesised in the rendering iff (pc > pp) or (pc == pp and left)
                if pc > pp:
                    acc.add("mixed_prec")
                    acc.add(f"prec:{c[1]}in{op}")
                elif pc == pp and ch == "L":
                    acc.add("assoc")
            features(c, acc)
        if op == "/":
            try:
                l, r = model_eval(e[2]), model_eval(e[3])
                if l >> 63 or r >> 63:
                    acc.add("signed_div")
            except DivZero:
                acc.add("divzero")
        if op in ("<<", ">>"):
            try:
                if model_eval(e[3]) >= 64:
                    acc.add("shift_ge_64")
            except DivZero:
                pass
        if op in ("+", "-", "*"):
            try:
                l, r = model_eval(e[2]), model_eval(e[3])
                full = {"+": l + r, "-": l - r, "*": l * r}[op]
                if full < 0 or full > M64:
                    acc.add("wrap")
            except DivZero:
                pass
    elif k == "un":
        features(e[2], acc)
    elif k == "fn":
        features(e[2], acc)
        features(e[3], acc)
    return acc


CMP = ("==", "!=", "<", ">", "<=", ">=")


def cmp_under_bitwise(feats):
    """Known finding: wild (and its pinned unit tests) put all comparison operators *below* `&`/`|`,
    so `a & b == c` is parsed as `(a & b) == c`. True iff the tree contains that shape."""
    return any(f == f"prec:{c}in{p}" for f in feats for c in CMP for p in ("&", "|"))


OBJ_SRC = ".globl _start\n.text\n_start:\n  ret\n"


class C16(Check):
    prop = "C16"
    level = "exploration"
    technique = "differential PBT: GNU ld computes the value, wild must pass ASSERT(e==V) and fail ASSERT(e!=V); model of stated semantics cross-checks ld"
    rule = ("Hypothesis-generated expression trees (depth-bounded recursive strategy, <=8 leaves) rendered with "
            "minimal C-precedence parentheses; non-trivial = tree has two binary operators of different precedence "
            "adjacent without separating parentheses, or a signed-division / shift>=64 / wrap-around / "
            "associativity witness; distinct by operator-shape string")
    assumptions = ["GNU ld 2.40 is the reference for the value", "expressions wild refuses to parse are outside the statement"]
    quick_cases = 480
    thorough_cases = 20000

    def strategy(self, tier):
        return st.lists(expr_strategy(), min_size=1, max_size=3)

    def run_case(self, case, ctx):
        d = ctx.dir
        tools.asm(OBJ_SRC, "a.o", cwd=d)
        info = {"classes": [], "counters": {}}
        feats_all = set()
        shapes = []
        for idx, e in enumerate(case):
            text = render(e)
            feats = features(e)
            try:
                mv = model_eval(e)
            except DivZero:
                mv = None
            # Reference: GNU ld computes the value.
            tools.write(f"{d}/ref.ld", f"v = ({text});\nSECTIONS {{ .text : {{ *(.text*) }} }}\n")
            r = tools.link("ld", ["-T", "ref.ld", "a.o", "-o", "ref.out"], cwd=d)
            if r.rc != 0:
                if mv is None:
                    # Both model and ld reject (division by zero): wild must reject too.
                    tools.write(f"{d}/w.ld", f"ASSERT(({text}) == 0 || 1, \"m\")\nSECTIONS {{ .text : {{ *(.text*) }} }}\n")
                    w = tools.link("wild", ["-T", "w.ld", "a.o", "-o", "w.out"], cwd=d)
                    self._no_crash(w, text)
                    if w.rc == 0:
                        raise Violation("divzero-accepted", f"GNU ld rejects `{text}` (division by zero) but wild accepts it",
                                        {"expr": text})
                    info["classes"].append("divzero_both_reject")
                    feats_all |= {"divzero"}
                    shapes.append(shape(e))
                    continue
                raise OracleSplit(f"ld rejects `{text}` but model gives {mv}: {r.err[:200]}")
            if mv is None:
                raise OracleSplit(f"model says division by zero but ld accepts `{text}`")
            ldv = Elf(f"{d}/ref.out").sym("v")
            if ldv is None:
                raise OracleSplit("ld output lacks symbol v")
            ldv = ldv.value
            if ldv != mv:
                cls = ",".join(sorted(f for f in feats if not f.startswith("prec:"))) or "plain"
                info["classes"].append("split:" + cls)
                raise OracleSplit(f"`{text}`: ld={ldv:#x} model={mv:#x} [{cls}]")
            # wild: ASSERT(e == V) must pass, ASSERT(e != V) must fail.
            tools.write(f"{d}/pass.ld", f"ASSERT(({text}) == 0x{ldv:x}, \"verif-eq\")\nSECTIONS {{ .text : {{ *(.text*) }} }}\n")
            wp = tools.link("wild", ["-T", "pass.ld", "a.o", "-o", "w.out"], cwd=d)
            self._no_crash(wp, text)
            if wp.rc != 0 and not self._assert_fired(wp.err, "pass.ld", "verif-eq"):
                # Parse error or unsupported: outside the statement.
                info["classes"].append("wild_rejects_parse")
                raise Discard("wild does not accept the expression: " + wp.err.strip().split("\n")[-1][:60])
            if wp.rc != 0:
                raise Violation(self._sig(feats, e), f"`{text}`: GNU ld (and the stated semantics) give {ldv:#x}; "
                                f"wild's ASSERT(({text}) == {ldv:#x}) failed", {"expr": text, "ld": ldv, "stderr": wp.err[-300:]})
            tools.write(f"{d}/fail.ld", f"ASSERT(({text}) != 0x{ldv:x}, \"verif-ne\")\nSECTIONS {{ .text : {{ *(.text*) }} }}\n")
            wf = tools.link("wild", ["-T", "fail.ld", "a.o", "-o", "w2.out"], cwd=d)
            self._no_crash(wf, text)
            if wf.rc != 0 and not self._assert_fired(wf.err, "fail.ld", "verif-ne"):
                raise Violation("assert-other-error", f"`{text}`: wild accepted the == form but fails the != form with another error: {wf.err[-200:]}",
                                {"expr": text})
            if wf.rc == 0:
                raise Violation("assert-zero-not-failing", f"`{text}` == {ldv:#x} per ld, yet wild's ASSERT(.. != ..) (value 0) did not fail",
                                {"expr": text})
            feats_all |= feats
            shapes.append(shape(e))
            for f in feats:
                if not f.startswith("prec:"):
                    info["classes"].append(f)
        info["nontrivial"] = bool(feats_all & {"mixed_prec", "assoc", "signed_div", "shift_ge_64", "wrap"})
        info["key"] = "|".join(shapes)
        info["exprs"] = [render(e) for e in case]
        return info

    @staticmethod
    def _assert_fired(err, script, msg):
        """True iff stderr is wild's ASSERT-failure diagnostic `<script>:<line>: <msg>` (a parse
        error echoes the source line, which also contains the message text)."""
        import re
        return bool(re.search(r"error: " + re.escape(script) + r":\d+: " + re.escape(msg) + r"\s*$", err.strip())) \
            and "Failed to parse" not in err

    @staticmethod
    def _no_crash(res, text):
        if res.timed_out:
            raise Violation("hang", f"wild timed out on `{text}`")
        if res.rc < 0 or "panicked at" in res.err:
            raise Violation("crash", f"wild crashed on `{text}`: rc={res.rc} {res.err[-300:]}")

    def excluded_by_construction(self, case):
        for e in case:
            if cmp_under_bitwise(features(e)):
                return "prec-cmp-under-bitwise"
        return None

    @staticmethod
    def _sig(feats, e):
        if cmp_under_bitwise(feats):
            return "prec-cmp-under-bitwise"
        for f in ("signed_div", "shift_ge_64"):
            if f in feats:
                return "value:" + f
        precs = sorted(f for f in feats if f.startswith("prec:"))
        if precs:
            return "value:" + precs[0]
        if "assoc" in feats:
            return "value:assoc"
        return "value:other"


CHECK = C16()
