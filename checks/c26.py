"""C26 — Diagnostics are deterministic.

Domain: failing links with 2-6 independent errors spread over different objects (undefined
symbols, duplicate strong definitions, overflowing relocations in different sections,
non-terminated merge strings, failing ASSERT + undefined symbol) and succeeding links that emit
>= 2 warnings (--warn-unresolved-symbols, unsupported -z options).  Each case is linked once as
the reference (threads=1, default grouping, no perturbation) and then under generated variants:
threads {1,2,8,32}, CPU affinity, WILD_FILES_PER_GROUP {1,256}, WILD_VERIF_SCHED seeds,
fork/no-fork.

Oracle (the statement): exit status equal; the error message text equal (ANSI stripped, scratch
path replaced); the set of warning messages equal.  OS scheduling is not ownable, so a divergence
is re-run 20 times and reported only if it reproduces at least twice.

Known findings (exact signatures, masked by construction outside strict replay, counted):
 * error-choice:undefined-vs-undefined — `find_required_sections` reports `errors.pop()` of a
   Mutex<Vec> filled by concurrently running groups, so with >= 2 distinct undefined-symbol errors
   the reported one depends on grouping and schedule.  Masked comparison: both messages must be
   undefined-symbol errors naming a (symbol, object) pair that the case really contains.
 * error-text-embeds-file-id — relocation errors print internal FileIds (`#512 (2/0)`) whose group
   component depends on the thread count / files-per-group.  Masked comparison: FileId tokens are
   replaced on both sides.
 * error-choice:relocation-vs-relocation — `write_file_contents` runs the groups under rayon's
   `try_for_each`, which returns an unspecified one of several errors, so with overflowing
   relocations in >= 2 objects the reported object depends on grouping and schedule.  Masked
   comparison: both messages must be relocation errors naming an object that really has one.
"""
import os
import re

from hypothesis import strategies as st

from vlib import tools
from vlib.core import Check, Discard, Inconclusive, Violation

ANSI = re.compile(r"\x1b\[[0-9;]*[A-Za-z]")
FILEID = re.compile(r"#?\d+ \(\d+/\d+\)")
RELOC_RE = re.compile(r"^wild: error: Failed copying from (\S+) ")
UNDEF_RE = re.compile(r"^wild: error: Undefined symbol (\S+), referenced by [^\n]*\n\s+(\S+)\s*$")

REPLAYS = 20
NEED = 2
KNOWN_SIGS = ("error-choice:undefined-vs-undefined", "error-text-embeds-file-id", "error-choice:relocation-vs-relocation")


def asm(text, out, cwd):
    """tools.asm with one retry (an assembler timeout on an overloaded machine is not a verdict)."""
    try:
        return tools.asm(text, out, cwd=cwd)
    except Inconclusive:
        return tools.asm(text, out, cwd=cwd)


# ------------------------------------------------------------------------------------------------
# Strategy


def variant_strategy():
    return st.fixed_dictionaries({
        "threads": st.sampled_from([1, 2, 2, 8, 8, 32]),
        "aff": st.sampled_from([None, None, 1, 2]),
        "fpg": st.sampled_from([None, 1, 1, 256]),
        "sched": st.one_of(st.none(), st.tuples(st.integers(1, 100000), st.sampled_from([50, 200, 600]),
                                                st.sampled_from([20, 100, 500]))),
        "nofork": st.booleans(),
    })


def case_strategy(tier):
    objs = st.integers(0, 7)
    base = st.fixed_dictionaries({
        "nobj": st.integers(3, 8),
        "undef": st.lists(st.fixed_dictionaries({"o": objs, "sym": st.integers(0, 3), "sec": st.integers(0, 2),
                                                 "data": st.booleans()}), max_size=5),
        "dup": st.lists(st.fixed_dictionaries({"sym": st.integers(0, 2),
                                               "objs": st.lists(objs, min_size=2, max_size=4, unique=True)}), max_size=3),
        "ovf": st.lists(st.fixed_dictionaries({"o": objs, "kind": st.integers(0, 2), "sec": st.integers(0, 1)}), max_size=4),
        # many duplicated symbols at once (two objects define the same N names): long diagnostics whose
        # content must not depend on hash-map iteration or bucket scheduling
        "dup_many": st.sampled_from([0, 0, 0, 5, 21, 40, 75]),
        "unterm": st.lists(objs, max_size=2, unique=True),
        "assert": st.sampled_from([0, 0, 0, 1, 2]),
        "warn_unresolved": st.sampled_from([False, False, True]),
        "zopts": st.integers(0, 3),
        "gc": st.booleans(),
        "mode": st.sampled_from(["mixed", "mixed-nodup", "mixed-nodup", "undef1", "undefN", "dup", "ovf", "ovf", "warn", "unterm", "assert"]),
        "variants": st.lists(variant_strategy(), min_size=5, max_size=8),
    })
    return base.map(shape_case)


def shape_case(c):
    """Constructed, not filtered: every case has >= 2 independent incidents, and the focussed
    modes keep the incident kinds that are *not* in a known finding's domain well represented."""
    m = c["mode"]
    n = c["nobj"]
    if m == "mixed-nodup":
        c["dup"] = []
    elif m == "undefN":         # the known finding's domain: several undefined symbols, nothing earlier
        c["dup"], c["unterm"], c["warn_unresolved"] = [], [], False
        if len(c["undef"]) < 2:
            c["undef"] = [{"o": 0, "sym": 0, "sec": 0, "data": False}, {"o": 1, "sym": 1, "sec": 1, "data": True},
                          {"o": 2, "sym": 0, "sec": 2, "data": False}]
    elif m == "undef1":         # one undefined reference + errors of other phases
        c["undef"] = c["undef"][:1] or [{"o": 1, "sym": 0, "sec": 0, "data": False}]
        c["warn_unresolved"] = False
        if not (c["dup"] or c["ovf"] or c["unterm"] or c["assert"]):
            c["ovf"] = [{"o": 0, "kind": 0, "sec": 0}, {"o": 2, "kind": 1, "sec": 1}]
    elif m == "dup":
        c["undef"], c["unterm"], c["assert"] = [], [], 0
        if len(c["dup"]) < 2:
            c["dup"] = [{"sym": 0, "objs": [0, 1, 2]}, {"sym": 1, "objs": [2, 1]}]
    elif m == "ovf":
        c["undef"], c["dup"], c["unterm"], c["assert"] = [], [], [], 0
        if len(c["ovf"]) < 2:
            c["ovf"] = [{"o": 0, "kind": 0, "sec": 0}, {"o": 1, "kind": 2, "sec": 1}, {"o": 2, "kind": 1, "sec": 0}]
    elif m == "warn":
        c["dup"], c["ovf"], c["unterm"], c["assert"] = [], [], [], 0
        c["warn_unresolved"] = True
        if len(c["undef"]) + c["zopts"] < 2:
            c["undef"] = [{"o": 0, "sym": 0, "sec": 0, "data": False}, {"o": 1, "sym": 1, "sec": 1, "data": True},
                          {"o": 2, "sym": 0, "sec": 0, "data": False}]
    elif m == "unterm":
        c["dup"] = []
        if len(c["unterm"]) < 2:
            c["unterm"] = [0, 2]
    elif m == "assert":
        c["dup"], c["unterm"] = [], []
        c["assert"] = c["assert"] or 2
        c["undef"] = c["undef"][:1]
        c["warn_unresolved"] = False
    incidents = len(c["undef"]) + len(c["dup"]) + len(c["ovf"]) + len(c["unterm"]) + c["assert"] + c["zopts"]
    if incidents < 2:
        c["undef"] = c["undef"] + [{"o": 0, "sym": 0, "sec": 0, "data": False}, {"o": n - 1, "sym": 1, "sec": 1, "data": False}]
    return c


# ------------------------------------------------------------------------------------------------
# Emission


def emit(case, d):
    n = case["nobj"]
    if case.get("mode") not in ("mixed", "dup") or not case.get("dup"):
        case = dict(case, dup_many=0)
    per = [{"undef": [], "dup": [], "ovf": [], "unterm": False} for _ in range(n)]
    for u in case["undef"]:
        per[u["o"] % n]["undef"].append(u)
    for k, dd in enumerate(case["dup"]):
        for o in sorted({x % n for x in dd["objs"]}):
            per[o]["dup"].append(dd["sym"])
    for v in case["ovf"]:
        per[v["o"] % n]["ovf"].append(v)
    for o in case["unterm"]:
        per[o % n]["unterm"] = True
    main = [".globl _start", ".text", "_start:"]
    for i in range(n):
        main.append(f"  call f_{i}")
    main.append("  mov $60, %eax\n  xor %edi, %edi\n  syscall")
    asm("\n".join(main) + "\n", "main.o", d)
    undef_pairs = set()
    for i, p in enumerate(per):
        L = [f'.section .text.f_{i},"ax",@progbits', f".globl f_{i}", f"f_{i}:"]
        tail = []
        # group incidents by section index so that several sections of one object carry errors
        for s in range(3):
            us = [u for u in p["undef"] if u["sec"] == s]
            if not us:
                continue
            L.append(f"  call e{i}_u{s}")
            tail.append(f'.section .text.u{i}_{s},"ax",@progbits\ne{i}_u{s}:')
            for k, u in enumerate(us):
                name = f"undef_{u['sym']}"
                undef_pairs.add((name, f"o{i}.o"))
                if u["data"]:
                    tail.append(f"  lea d{i}_{s}_{k}(%rip), %rax")
                else:
                    tail.append(f"  call {name}")
            tail.append("  ret")
            for k, u in enumerate(us):
                if u["data"]:
                    tail.append(f'.section .data.u{i}_{s}_{k},"aw",@progbits\nd{i}_{s}_{k}: .quad undef_{u["sym"]}')
                    tail.append(f'.section .text.u{i}_{s},"ax",@progbits')
        for s in range(2):
            vs = [v for v in p["ovf"] if v["sec"] == s]
            if not vs:
                continue
            L.append(f"  call e{i}_v{s}")
            tail.append(f'.section .text.v{i}_{s},"ax",@progbits\ne{i}_v{s}:')
            for v in vs:
                big = f"big_{(i + v['kind']) % 3}"
                if v["kind"] == 0:
                    tail.append(f"  mov ${big}, %eax")
                elif v["kind"] == 1:
                    tail.append(f"  lea dv{i}_{s}(%rip), %rax")
                else:
                    tail.append(f"  movw ${big}, %ax")
            tail.append("  ret")
            if any(v["kind"] == 1 for v in vs):
                tail.append(f'.section .data.v{i}_{s},"aw",@progbits\ndv{i}_{s}: .long big_{(i + 1) % 3}')
        if p["unterm"]:
            L.append(f"  lea us{i}(%rip), %rax")
            tail.append(f'.section .rodata.str1.1,"aMS",@progbits,1\nus{i}: .ascii "ok{i}\\0tail{i}"')
        L.append("  ret")
        for sym in sorted(set(p["dup"])):
            L.append(f".globl dup_{sym}\ndup_{sym}: ret")
        if i < 2:
            for k in range(case.get("dup_many", 0)):
                L.append(f".globl mdup_{k}\nmdup_{k}: ret")
        asm("\n".join(L + tail) + "\n", f"o{i}.o", d)
    asm(".globl big_0, big_1, big_2\nbig_0 = 0x123456789a\nbig_1 = 0x223456789a\nbig_2 = 0x323456789a\n", "abs.o", d)
    files = ["main.o"] + [f"o{i}.o" for i in range(n)] + ["abs.o"]
    args = ["--gc-sections" if case["gc"] else "--no-gc-sections"]
    if case["warn_unresolved"]:
        args.append("--warn-unresolved-symbols")
    for z in range(case["zopts"]):
        args += ["-z", f"verif-opt-{z}"]
    if case["assert"]:
        tools.write(f"{d}/a.ld", "".join(f'ASSERT(0, "verif assert {k}")\n' for k in range(case["assert"])))
        files.append("a.ld")
    return args + files + ["-o", "out.bin"], undef_pairs


# ------------------------------------------------------------------------------------------------
# Diagnostics parsing


def parse(rc, err, d):
    text = ANSI.sub("", err).replace(d, "<D>")
    msgs = []
    for line in text.split("\n"):
        if line.startswith("wild: warning:") or line.startswith("wild: error:") or not msgs:
            msgs.append(line)
        else:
            msgs[-1] += "\n" + line
    msgs = [m.rstrip() for m in msgs if m.strip()]
    warnings = sorted(set(m for m in msgs if m.startswith("wild: warning:")))
    errors = [m for m in msgs if not m.startswith("wild: warning:")]
    return {"rc": rc, "warnings": warnings, "error": "\n".join(errors)}


def kind_of(msg):
    if "Undefined symbol" in msg:
        return "undefined"
    if "Duplicate symbols" in msg:
        return "duplicate"
    if "Failed to apply relocation" in msg or "outside of bounds" in msg:
        return "relocation"
    if "not null-terminated" in msg:
        return "unterminated"
    if "verif assert" in msg:
        return "assert"
    if not msg:
        return "none"
    return "other"


class C26(Check):
    prop = "C26"
    level = "exploration"
    technique = ("metamorphic PBT: normalised stderr + exit status of generated multi-error links under "
                 "(threads, affinity, files-per-group, WILD_VERIF_SCHED, fork) variants vs the threads=1 reference; "
                 "divergences confirmed by 20 replays")
    rule = ("Hypothesis-generated programs of 3-8 objects with 2+ independent incidents (undefined symbols, duplicate "
            "definitions, overflowing relocations, unterminated merge strings, failing ASSERTs, warnings) placed in "
            "different objects and sections, 6-10 variants each; non-trivial = >= 2 incidents of the phase that "
            "reports (or >= 2 warnings) located in >= 2 different objects and >= 1 variant with threads > 1 and a "
            "different grouping or schedule seed; distinct by (incident kinds with multiplicity, reporting phase, "
            "#objects, variant dimension set)")
    assumptions = ["the reference is wild itself at threads=1 with default grouping (the statement is metamorphic)",
                   "a divergence must reproduce in >= 2 of 20 replays to be reported (OS scheduling is not ownable)"]
    quick_cases = 120
    thorough_cases = 4000
    max_workers = 16
    case_timeout = 300

    def strategy(self, tier):
        return case_strategy(tier)

    # --------------------------------------------------------------------------------------------
    def _run(self, args, v, d, cpu0):
        a = list(args)
        if v is None:
            a = ["--threads=1"] + a
            env = None
            pre = []
        else:
            a = [f"--threads={v['threads']}"] + a
            if v["nofork"]:
                a = ["--no-fork"] + a
            env = {}
            if v["fpg"] is not None:
                env["WILD_FILES_PER_GROUP"] = str(v["fpg"])
            if v["sched"] is not None:
                env["WILD_VERIF_SCHED"] = "%d:%d:%d" % tuple(v["sched"])
            pre = []
            if v["aff"]:
                cpus = sorted(os.sched_getaffinity(0))
                pick = [cpus[(cpu0 + k) % len(cpus)] for k in range(v["aff"])]
                pre = ["taskset", "-c", ",".join(map(str, pick))]
        try:
            os.unlink(os.path.join(d, "out.bin"))
        except OSError:
            pass
        e = dict(env or {})
        e.setdefault("WILD_VALIDATE_OUTPUT", "0")
        r = tools.run([*pre, tools.linker_path("wild"), *a], cwd=d, env=e, timeout=120)
        if r.timed_out:     # overloaded machine: one retry with a long timeout before giving up
            r = tools.run([*pre, tools.linker_path("wild"), *a], cwd=d, env=e, timeout=600)
        if r.timed_out:
            raise Inconclusive("wild timed out")
        if r.rc < 0 or "panicked at" in r.err or r.rc == 97:
            # crashes are other properties' business; here they would only blur the comparison
            raise Inconclusive(f"wild crashed/invariant rc={r.rc}: {r.err[-300:]}")
        return parse(r.rc, r.err, d)

    @staticmethod
    def _compare(ref, got, dom, maskable):
        """Returns (signature or None, masked-label or None)."""
        if got["rc"] != ref["rc"]:
            return "exit-status", None
        if got["warnings"] != ref["warnings"]:
            return "warning-set", None
        if got["error"] == ref["error"]:
            return None, None
        ka, kb = kind_of(ref["error"]), kind_of(got["error"])
        # known finding 2: FileId tokens
        if FILEID.sub("<FID>", got["error"]) == FILEID.sub("<FID>", ref["error"]):
            if "error-text-embeds-file-id" in maskable:
                return None, "masked:error-text-embeds-file-id"
            return "error-text-embeds-file-id", None
        # known finding 1: which undefined-symbol error is reported
        if ka == kb == "undefined":
            ok = True
            for m in (ref["error"], got["error"]):
                mm = UNDEF_RE.match(m)
                if not mm or (mm.group(1), mm.group(2)) not in dom["undef_pairs"]:
                    ok = False
            if ok and len(dom["undef_pairs"]) >= 2:
                if "error-choice:undefined-vs-undefined" in maskable:
                    return None, "masked:error-choice:undefined-vs-undefined"
                return "error-choice:undefined-vs-undefined", None
        # known finding 3: which group's relocation error the writer reports
        if ka == kb == "relocation":
            ok = True
            for m in (ref["error"], got["error"]):
                mm = RELOC_RE.match(m)
                if not mm or mm.group(1) not in dom["ovf_objs"]:
                    ok = False
            if ok and len(dom["ovf_objs"]) >= 2:
                if "error-choice:relocation-vs-relocation" in maskable:
                    return None, "masked:error-choice:relocation-vs-relocation"
                return "error-choice:relocation-vs-relocation", None
        if ka == kb:
            return f"error-text:{ka}", None
        return f"error-choice:{ka}-vs-{kb}", None

    def run_case(self, case, ctx):
        d = ctx.dir
        args, undef_pairs = emit(case, d)
        dom = {"undef_pairs": undef_pairs, "ovf_objs": {f"o{v['o'] % case['nobj']}.o" for v in case["ovf"]}}
        # Only findings still listed as `known` are masked (and never in strict replay).
        from vlib import core as _core
        mask = set() if ctx.strict else {e["signature"] for e in _core.load_known("C26") if e.get("status") == "known"}
        # A stored known-finding case may name other known signatures that stay masked even in strict
        # replay (the FileId text difference accompanies every relocation-error case).
        keep = set(case.get("keep_masked", []))
        cpu0 = (case["nobj"] * 7 + len(case["variants"]) * 3 + len(case["undef"])) % 16
        ref = self._run(args, None, d, cpu0)
        ref2 = self._run(args, None, d, cpu0)
        if ref != ref2:
            # even the single-threaded reference is unstable: confirm and report
            n = sum(1 for _ in range(REPLAYS) if self._run(args, None, d, cpu0) != ref)
            if n >= NEED:
                raise Violation("reference-unstable", f"threads=1 diagnostics differ between identical runs ({n}/{REPLAYS}): "
                                f"{ref['error'][:200]!r} vs {ref2['error'][:200]!r}")
        info = {"classes": [], "counters": {}}
        if ref["rc"] == 0 and len(ref["warnings"]) < 2:
            raise Discard("link succeeds with < 2 warnings")
        phase = kind_of(ref["error"]) if ref["rc"] != 0 else "warnings-only"
        info["classes"].append("reports:" + phase)
        found = []      # (signature, message)
        masked = {}
        dims = set()
        for v in case["variants"]:
            got = self._run(args, v, d, cpu0)
            sig, m = self._compare(ref, got, dom, mask)
            if sig in keep:
                sig, m = None, "masked:" + sig
            if m:
                masked[m] = masked.get(m, 0) + 1
            if v["threads"] > 1:
                dims.add("threads")
            for k in ("aff", "fpg", "sched"):
                if v[k] is not None:
                    dims.add(k)
            if v["nofork"]:
                dims.add("nofork")
            if sig is None:
                continue
            # confirm by repetition
            n = 0
            for _ in range(REPLAYS):
                g2 = self._run(args, v, d, cpu0)
                s2, _m = self._compare(ref, g2, dom, mask)
                if s2 == sig or (s2 is not None and s2 not in keep and sig not in KNOWN_SIGS):
                    n += 1
            if n < NEED:
                info["counters"]["unreproduced_divergence"] = info["counters"].get("unreproduced_divergence", 0) + 1
                continue
            vdesc = f"threads={v['threads']} aff={v['aff']} fpg={v['fpg']} sched={v['sched']} nofork={v['nofork']}"
            found.append((sig, f"[{vdesc}] reproduced {n}/{REPLAYS}: reference (threads=1) rc={ref['rc']} "
                          f"error={ref['error'][:400]!r} warnings={len(ref['warnings'])}; variant rc={got['rc']} "
                          f"error={got['error'][:400]!r} warnings={len(got['warnings'])}"))
        if found:
            found.sort(key=lambda f: (f[0] in KNOWN_SIGS, f[0]))
            raise Violation(found[0][0], found[0][1])
        for m, c in masked.items():
            info["counters"][m] = c
            info["classes"].append(m)
        # classification
        kinds = []
        if case["undef"]:
            kinds.append(f"undef{min(len(undef_pairs), 3)}")
        if case["dup"]:
            kinds.append(f"dup{min(len(case['dup']), 3)}")
        if case["ovf"]:
            kinds.append(f"ovf{min(len(case['ovf']), 3)}")
        if case["unterm"]:
            kinds.append(f"unterm{len(case['unterm'])}")
        if case["assert"]:
            kinds.append(f"assert{case['assert']}")
        if ref["warnings"]:
            kinds.append(f"warn{min(len(ref['warnings']), 4)}")
        for k in kinds:
            info["classes"].append("has:" + k)
        n_phase = {"undefined": len(undef_pairs), "duplicate": len(case["dup"]), "relocation": len(case["ovf"]),
                   "unterminated": len(case["unterm"]), "assert": case["assert"],
                   "warnings-only": len(ref["warnings"])}.get(phase, 0)
        objs_phase = {"undefined": len({o for _, o in undef_pairs}),
                      "duplicate": len({o % case["nobj"] for dd in case["dup"] for o in dd["objs"]}),
                      "relocation": len({v["o"] % case["nobj"] for v in case["ovf"]}),
                      "unterminated": len({o % case["nobj"] for o in case["unterm"]}),
                      "assert": 2 if case["undef"] else 1,
                      "warnings-only": 2}.get(phase, 0)
        partition = any(v["threads"] > 1 and (v["fpg"] is not None or v["sched"] is not None) for v in case["variants"])
        info["nontrivial"] = bool(n_phase >= 2 and objs_phase >= 2 and partition)
        info["key"] = f"{'+'.join(kinds)}|{phase}|{case['nobj']}|{','.join(sorted(dims))}"
        info["counters"]["links"] = 2 + len(case["variants"])
        return info


CHECK = C26()
