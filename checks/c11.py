"""C11 — AArch64 long branches reach their intended target.

End-to-end tier (this file): 3-7 synthesised AArch64 relocatable objects whose `.text` sections are
huge but sparse (written with seeks, so a 100 MiB section costs no I/O until a linker copies it),
total executable size 130-420 MiB.  Each object holds a few functions (`ret`) and labelled call
sites (`bl` / `b` with R_AARCH64_CALL26 / JUMP26) placed at the start, the end and around the
128 MiB marks of the output, calling near and far, forward and backward, local and global targets.
Linked with wild and with `ld.lld -m aarch64linux`.  Oracle (own decoder, no use of wild's
encoders): for every labelled site in wild's output the opcode bits must be unchanged and the
decoded target T = P + sext(imm26)*4 must be the resolved symbol address, or T must hold a
range-extension thunk `adrp x16, page; add x16, x16, #lo12; br x16` that computes the resolved
address.  If lld links the case and wild fails with an out-of-range / no-thunk error -> Violation;
any other wild failure -> Discard.  lld's output is run through the same predicate as calibration
(lld's own thunk shapes are recognised); a reference failure is an OracleSplit.

Kernel tier (harness/src/c11.rs, run from extra_phases): thunk block placement invariants.
"""
import mmap
import os
import struct

from hypothesis import strategies as st

from vlib import core, tools
from vlib.core import Check, Discard, Inconclusive, OracleSplit, Violation
from vlib.elf import Elf
from checks.c12 import patient, replay_inproc, run_inproc

MIB = 1 << 20
R_JUMP26, R_CALL26 = 282, 283
BL, B, RET, NOP = 0x94000000, 0x14000000, 0xd65f03c0, 0xd503201f


def write_object(path, text_size, words, symbols, relocs, text_align=4, text_name=".text"):
    """Minimal ELF64 AArch64 ET_REL writer.  `.text` is `text_size` bytes, zero except for `words`
    {offset: u32}; written sparsely.  symbols: [(name, offset or None for undefined)], all global.
    relocs: [(offset, r_type, symbol name, addend)]."""
    names = [n for n, _ in symbols]
    strtab = b"\0"
    name_off = {}
    for n in names:
        name_off[n] = len(strtab)
        strtab += n.encode() + b"\0"
    shstr = b"\0" + text_name.encode() + b"\0.rela" + text_name.encode() + b"\0.symtab\0.strtab\0.shstrtab\0"

    def shname(s):
        return shstr.index(s.encode() + b"\0") if s != ".rela" + text_name else shstr.index((".rela" + text_name).encode())
    # symtab: null, section symbol for .text (local), then globals
    symtab = bytearray(24)
    symtab += struct.pack("<IBBHQQ", 0, 3, 0, 1, 0, 0)          # STT_SECTION, shndx 1
    sym_index = {}
    for i, (n, off) in enumerate(symbols):
        sym_index[n] = 2 + i
        if off is None:
            symtab += struct.pack("<IBBHQQ", name_off[n], 0x10, 0, 0, 0, 0)
        else:
            symtab += struct.pack("<IBBHQQ", name_off[n], 0x12, 0, 1, off, 4)   # GLOBAL FUNC
    rela = bytearray()
    for off, t, n, a in relocs:
        rela += struct.pack("<QQq", off, (sym_index[n] << 32) | t, a)
    text_off = 0x1000
    rela_off = text_off + text_size
    rela_off += -rela_off % 8
    symtab_off = rela_off + len(rela)
    strtab_off = symtab_off + len(symtab)
    shstr_off = strtab_off + len(strtab)
    shoff = shstr_off + len(shstr)
    shoff += -shoff % 8
    sh = bytearray(64)
    sh += struct.pack("<IIQQQQIIQQ", shname(text_name), 1, 6, 0, text_off, text_size, 0, 0, text_align, 0)
    sh += struct.pack("<IIQQQQIIQQ", shname(".rela" + text_name), 4, 0x40, 0, rela_off, len(rela), 3, 1, 8, 24)
    sh += struct.pack("<IIQQQQIIQQ", shname(".symtab"), 2, 0, 0, symtab_off, len(symtab), 4, 2, 8, 24)
    sh += struct.pack("<IIQQQQIIQQ", shname(".strtab"), 3, 0, 0, strtab_off, len(strtab), 0, 0, 1, 0)
    sh += struct.pack("<IIQQQQIIQQ", shname(".shstrtab"), 3, 0, 0, shstr_off, len(shstr), 0, 0, 1, 0)
    eh = b"\x7fELF" + bytes([2, 1, 1, 0]) + bytes(8) + struct.pack("<HHIQQQIHHHHHH", 1, 183, 1, 0, 0, shoff, 0, 64, 0, 0, 64, 6, 5)
    with open(path, "wb") as f:
        f.write(eh)
        for off in sorted(words):
            f.seek(text_off + off)
            f.write(struct.pack("<I", words[off]))
        f.seek(rela_off)
        f.write(rela)
        f.write(symtab)
        f.write(strtab)
        f.write(shstr)
        f.seek(shoff)
        f.write(sh)
    return path


def open_elf(path):
    f = open(path, "rb")
    m = mmap.mmap(f.fileno(), 0, access=mmap.ACCESS_READ)
    return Elf(m), m, f


def sext(v, bits):
    return v - (1 << bits) if v >> (bits - 1) else v


def decode_branch(word):
    """(kind, byte offset) for b/bl, else None."""
    if word & 0x7c000000 != 0x14000000:
        return None
    return ("bl" if word >> 31 else "b", sext(word & 0x3ffffff, 26) * 4)


def thunk_target(e, addr):
    """If the code at addr is a range-extension thunk, the address it transfers control to."""
    try:
        w = struct.unpack("<4I", e.read(addr, 16))
    except Exception:
        try:
            w = struct.unpack("<3I", e.read(addr, 12)) + (0,)
        except Exception:
            return None
    # adrp x16, page ; add x16, x16, #lo12 ; br x16        (wild, lld position-independent thunk)
    if w[0] & 0x9f00001f == 0x90000010 and w[1] & 0xffc003ff == 0x91000210 and w[2] == 0xd61f0200:
        imm = ((w[0] >> 5) & 0x7ffff) << 2 | ((w[0] >> 29) & 3)
        page = (addr & ~0xfff) + sext(imm, 21) * 4096
        return (page + ((w[1] >> 10) & 0xfff)) & ((1 << 64) - 1)
    # ldr x16, #8 ; br x16 ; .xword target                   (lld absolute long thunk)
    if w[0] == 0x58000050 and w[1] == 0xd61f0200:
        return struct.unpack("<Q", e.read(addr + 8, 8))[0]
    # b target (lld short thunk)
    d = decode_branch(w[0])
    if d and d[0] == "b":
        return addr + d[1]
    return None


def judge(e, sites):
    """sites: [(site symbol, kind, target symbol)].  Returns (bad list, n_direct, n_thunk)."""
    bad = []
    direct = thunk = 0
    symaddr = {}
    for s in e.symtab():
        if s.shndx != 0 and s.name:
            symaddr.setdefault(s.name, s.value)
    for site, kind, target in sites:
        p = symaddr.get(site)
        want = symaddr.get(target)
        if p is None or want is None:
            bad.append((site, f"symbol {site if p is None else target} missing from the output"))
            continue
        w = struct.unpack("<I", e.read(p, 4))[0]
        d = decode_branch(w)
        if d is None or d[0] != kind:
            bad.append((site, f"instruction {w:#010x} at {p:#x} is no longer `{kind}`"))
            continue
        t = p + d[1]
        if t == want:
            direct += 1
            continue
        tt = thunk_target(e, t)
        hops = 0
        while tt is not None and tt != want and hops < 2:
            # lld may chain a short thunk to a long one
            nxt = thunk_target(e, tt)
            if nxt is None:
                break
            tt, hops = nxt, hops + 1
        if tt == want:
            thunk += 1
        else:
            bad.append((site, f"`{kind}` at {p:#x} goes to {t:#x}; {target} is at {want:#x} ({abs(want - p) / MIB:.1f} MiB away) and "
                              + (f"the code at {t:#x} is not a thunk" if tt is None else f"the thunk there leads to {tt:#x}")))
    return bad, direct, thunk


def case_strategy():
    # A few big objects make the total exceed 128 MiB; most objects are small or medium, as in real links.
    big = st.sampled_from([20, 40, 64, 100, 126, 127]).map(lambda m: m * MIB)
    mid = st.one_of(st.integers(4, 31).map(lambda k: k * 64 * 1024), st.integers(4, 31).map(lambda k: k * 64 * 1024),
                    st.integers(2, 9).map(lambda m: m * MIB))
    small = st.integers(1, 64).map(lambda k: k * 1024)
    obj = st.fixed_dictionaries({
        "size": st.one_of(big, mid, mid, small, small),
        "jitter": st.integers(0, 255).map(lambda j: j * 4),
        "nfuncs": st.integers(1, 3),
        # sites: (position class, kind, target object selector, target function selector, far)
        # far = aim at the first or last object in link order, whichever is farther away
        "sites": st.lists(st.tuples(st.sampled_from(["start", "end", "mid", "q1", "q3"]), st.sampled_from(["bl", "b"]),
                                    st.integers(0, 255), st.integers(0, 255), st.booleans()), min_size=1, max_size=5),
    })
    return st.fixed_dictionaries({
        "objects": st.lists(obj, min_size=4, max_size=8),
        "gc": st.booleans(),
        "order": st.integers(0, 40319),
        # 1 or 2 extra big objects so that the text exceeds the branch range
        "bigs": st.lists(st.sampled_from([64, 100, 110, 120, 126]), min_size=1, max_size=2),
        # fan-out: N call sites in the first object to N distinct functions of the last one: N thunks in one
        # block, 12 bytes apart, so that every 4-aligned page offset (incl. the last word of a page) is hit
        "fan": st.sampled_from([0, 0, 1100, 1400]),
        # straddle: (callee object MiB, caller object MiB, k): callee first, one filler, caller last, sized so
        # that the object *starts* (and ends) are < 126 MiB apart while the call site (end of the caller) and
        # its target (start of the callee) are > 128 MiB apart: whether a thunk is needed depends on the sizes
        # of both end objects, not only on their distance.
        "straddle": st.one_of(st.none(), st.none(), st.none(),
                              st.tuples(st.integers(3, 8), st.integers(3, 8), st.integers(0, 24)).map(list)),
        # edge: (slack/4, k): a tiny caller object first, a second object of almost 128 MiB whose *last* word is the
        # callee, a third one far away.  The caller has one `bl` to that callee and k calls to the third object, whose
        # thunks are inserted between caller and callee: the estimated distance is just under 2^27 while the real one
        # is 2^27 + slack - 12, i.e. the decision "a direct branch is enough" sits exactly at the edge of the range.
        "edge": st.one_of(st.none(), st.none(), st.none(), st.none(),
                          st.tuples(st.integers(-10, 20), st.integers(2, 40)).map(list)),
    })


def normalise(case):
    """Adds the extra big objects (no sites of their own beyond one) and keeps the total executable size
    within 150..420 MiB."""
    objs = [dict(o) for o in case["objects"]]
    for m in case.get("bigs", []):
        objs.append({"size": m * MIB, "jitter": 0, "nfuncs": 2, "sites": [("mid", "bl", 0, 0, True)]})
    total = sum(o["size"] for o in objs)
    if total < 150 * MIB:
        k = max(range(len(objs)), key=lambda i: objs[i]["size"])
        objs[k]["size"] += 150 * MIB - total
    while sum(o["size"] for o in objs) > 420 * MIB:
        k = max(range(len(objs)), key=lambda i: objs[i]["size"])
        objs[k]["size"] //= 2
    for o in objs:
        o["size"] = (o["size"] + o["jitter"]) & ~3
    return objs


def build_plan(case):
    """Deterministic construction shared by run_case and the known-finding domain.
    Returns (objects, link order, per object (words, symbols, relocs), sites) with
    sites = [(site symbol, kind, target symbol, site object, target object, site offset, target offset)]."""
    objs = normalise(case)
    fan = case.get("fan", 0)
    perm = link_order(case, len(objs))
    if case.get("straddle"):
        a, b, k = case["straddle"]
        est = 126 * MIB - 64 * 1024 - k * 80 * 1024          # max(start distance, end distance): just under the window
        filler = (est - max(a, b) * MIB) & ~3
        objs = [{"size": a * MIB, "jitter": 0, "nfuncs": 1, "sites": []},
                {"size": filler, "jitter": 0, "nfuncs": 1, "sites": [("mid", "bl", 128, 0, False)]},
                {"size": b * MIB, "jitter": 0, "nfuncs": 1, "sites": [("end", "bl", 0, 0, False), ("start", "b", 0, 0, False)]}]
        perm = [0, 1, 2]
        fan = 0
    if case.get("edge") and not case.get("straddle"):
        slack4, k = case["edge"]
        asize = 4096
        bsize = (1 << 27) - asize - 12 * k + 4 * slack4
        objs = [{"size": asize, "jitter": 0, "nfuncs": 1,
                 "sites": [("start", "bl", 86, 255, False)] + [("start", "bl", 171, (j * 256 + 128) // k, False) for j in range(k)]},
                {"size": bsize, "jitter": 0, "nfuncs": 1, "sites": [], "tail_func": True},
                # k distinct callees: k thunks of 12 bytes each in the block that follows the caller
                {"size": 4 * MIB, "jitter": 0, "nfuncs": k, "sites": [("mid", "b", 0, 0, False)]}]
        perm = [0, 1, 2]
        fan = 0
    if fan:
        # caller first, callee last in link order
        objs.append({"size": 64 * 1024 + 4 * fan, "jitter": 0, "nfuncs": 1, "sites": [], "fan": "caller"})
        objs.append({"size": 64 * 1024 + 4 * fan, "jitter": 0, "nfuncs": 1, "sites": [], "fan": "callee"})
        perm = [len(objs) - 2] + perm + [len(objs) - 1]
    n = len(objs)
    funcs = []   # (object index, name, offset)
    for i, o in enumerate(objs):
        for k in range(o["nfuncs"]):
            off = (o["size"] // (o["nfuncs"] + 1) * (k + 1)) & ~3 if k else 0
            funcs.append((i, f"fn_{i}_{k}", off))
        if o.get("tail_func"):
            funcs.append((i, f"fn_{i}_t", o["size"] - 4))
    sites = []
    plan = []
    for i, o in enumerate(objs):
        words, symbols, relocs = {}, [], []
        for (oi, name, off) in funcs:
            if oi == i:
                words[off] = RET
                symbols.append((name, off))
        used = set(words)
        undefined = set()
        for j, site in enumerate(o["sites"]):
            pos, kind, tsel, fsel = site[:4]
            far = len(site) > 4 and site[4]
            base = {"start": 8, "end": o["size"] - 8, "mid": o["size"] // 2, "q1": o["size"] // 4, "q3": o["size"] // 4 * 3}[pos]
            off = max(4, min(o["size"] - 4, base & ~3))
            while off in used:
                off += 4
            if off >= o["size"]:
                continue
            used.add(off)
            tobj = (tsel * n) >> 8
            if far:
                here = perm.index(i)
                tobj = perm[0] if here >= n - 1 - here else perm[-1]
            cands = [f for f in funcs if f[0] == tobj] or funcs
            tgt = cands[(fsel * len(cands)) >> 8]
            words[off] = BL if kind == "bl" else B
            sname = f"site_{i}_{j}"
            symbols.append((sname, off))
            if tgt[0] != i:
                undefined.add(tgt[1])
            relocs.append((off, R_CALL26 if kind == "bl" else R_JUMP26, tgt[1], 0))
            sites.append((sname, kind, tgt[1], i, tgt[0], off, tgt[2]))
        if o.get("fan") == "callee":
            for k in range(fan):
                off = 1024 + 4 * k
                words[off] = RET
                symbols.append((f"fan_{k}", off))
        if o.get("fan") == "caller":
            for k in range(fan):
                off = 1024 + 4 * k
                words[off] = BL
                symbols.append((f"fsite_{k}", off))
                undefined.add(f"fan_{k}")
                relocs.append((off, R_CALL26, f"fan_{k}", 0))
                sites.append((f"fsite_{k}", "bl", f"fan_{k}", i, n - 1, off, 1024 + 4 * k))
        if i == 0:
            # _start keeps every object alive under --gc-sections: one `bl` to the first function of each.
            off = (o["size"] - 4 * (n + 2)) & ~3
            while any(x in used for x in range(off, off + 4 * (n + 1), 4)):
                off -= 4 * (n + 2)
            symbols.append(("_start", off))
            for k in range(n):
                words[off + 4 * k] = BL
                tname = f"fn_{k}_0"
                if k != 0:
                    undefined.add(tname)
                relocs.append((off + 4 * k, R_CALL26, tname, 0))
                symbols.append((f"site_s_{k}", off + 4 * k))
                sites.append((f"site_s_{k}", "bl", tname, 0, k, off + 4 * k, 0))
            words[off + 4 * n] = RET
        for u in sorted(undefined):
            symbols.append((u, None))
        plan.append((words, symbols, relocs))
    return objs, perm, plan, sites


def link_order(case, n):
    k = case["order"]
    perm, pool = [], list(range(n))
    for m in range(n, 0, -1):
        perm.append(pool.pop(k % m))
        k //= m
    return perm


def placement_model(sizes, rng):
    """The block placement scheme of thunks.rs's module comment, re-stated (used only to delimit the
    domain of a known finding, never as the oracle): returns [(block, owner index)] per object."""
    n = len(sizes)
    start = [sum(sizes[:i]) for i in range(n)]
    end = [start[i] + sizes[i] for i in range(n)]
    block = [0] * n
    owner = {0: 0}
    prev_id, prev_pos, nblocks = 0, end[0], 1
    pending = None   # (id, first index)
    for i in range(1, n):
        if pending is not None:
            bid, first = pending
            block[i] = bid
            if end[i] - start[first] >= rng:
                owner[bid] = i
                prev_id, prev_pos, pending = bid, end[i], None
        elif end[i] - prev_pos >= rng:
            pending = (nblocks, i)
            block[i] = nblocks
            nblocks += 1
        else:
            block[i] = prev_id
    if pending is not None:
        owner[pending[0]] = pending[1]
    return [(block[i], owner[block[i]]) for i in range(n)], start, end


_KNOWN = None


def known_domain(case):
    """Known finding `link-fails:branch-out-of-range`: the object that ends up owning a thunk block is
    larger than the slack (2 MiB) the scheme reserves, so the first objects of that block's group lie
    more than 128 MiB before the block.  Exact domain: per the documented scheme with R = 126 MiB some
    generated call site is farther than 2^27 - 64 KiB both from its target and from its block's position."""
    global _KNOWN
    if _KNOWN is None:
        _KNOWN = {e["signature"] for e in core.load_known("C11") if e["status"] == "known"}
    if "inproc" in case or "link-fails:branch-out-of-range" not in _KNOWN:
        return None
    return in_known_domain(case)


def in_known_domain(case):
    """The domain predicate itself, irrespective of the finding's status."""
    objs, perm, _, sites = build_plan(case)
    sizes = [objs[i]["size"] for i in perm]
    asg, start, end = placement_model(sizes, 126 * MIB)
    where = {obj: k for k, obj in enumerate(perm)}
    lim = (1 << 27) - 64 * 1024
    for (_, _, _, so, to, soff, toff) in sites:
        k = where[so]
        ow = asg[k][1]
        site_addr = start[k] + soff
        target_addr = start[where[to]] + toff
        # the branch needs a thunk and its block (at the owner's end) is out of reach
        if abs(target_addr - site_addr) >= lim and abs(end[ow] - site_addr) >= lim:
            return "link-fails:branch-out-of-range"
    return None


class C11(Check):
    prop = "C11"
    level = "exploration"
    needs_harness = True
    max_workers = 4
    case_timeout = 600
    technique = ("generated sparse AArch64 objects (130-420 MiB of .text) linked by wild and lld; every labelled bl/b is "
                 "decoded with an independent decoder and followed through range-extension thunks to the resolved symbol; "
                 "in-process proptest tier on the thunk-block placement kernel against invariants of the documented scheme")
    rule = ("case = 5-10 objects with .text sizes from {KiB, MiB, 20-127 MiB} (+ a 4-byte-multiple jitter), 1-3 functions "
            "each, 1-4 call sites each at start/end/middle/quarters of the object, kind bl or b, target = any function of "
            "any object (near/far, forward/backward), object order permuted, --gc-sections on/off (all objects reachable); "
            "non-trivial = at least one site needs a thunk (direct distance >= 2^27) and at least one is direct in wild's "
            "output; distinct by (object size classes in link order, per-site (position, kind, distance class))")
    assumptions = ["lld 14 is the reference for 'a thunk could serve this branch' (it links every case of this domain)",
                   "AArch64 output cannot be executed here (no qemu): control flow is followed statically",
                   "conditional-branch range extension (CONDBR19/TSTBR14) is outside the statement"]
    quick_cases = 28
    thorough_cases = 1500

    def strategy(self, tier):
        return case_strategy()

    def run_case(self, case, ctx):
        if "inproc" in case:
            return replay_inproc(self, "c11", case["inproc"])
        d = ctx.dir
        objs, perm, plan, sites = build_plan(case)
        n = len(objs)
        paths = [write_object(f"{d}/o{i}.o", objs[i]["size"], *plan[i]) for i in range(n)]
        # link order: object 0 (with _start) anywhere
        args = ["-m", "aarch64linux", "-o", None] + (["--gc-sections"] if case["gc"] else ["--no-gc-sections"]) + \
               [f"o{i}.o" for i in perm]
        res = {}
        for L in ("lld", "wild"):
            a = list(args)
            a[3] = f"{L}.out"
            r = patient(tools.link, L, a, cwd=d, timeout=400, attempts=2)
            if r.timed_out:
                raise Inconclusive(f"{L} timed out")
            res[L] = r
        site_list = [(x[0], x[1], x[2]) for x in sites]
        if res["lld"].rc != 0:
            raise Discard("lld rejects the case: " + res["lld"].err.strip()[-80:])
        le, lm, lf = open_elf(f"{d}/lld.out")
        try:
            lbad, ldirect, lthunk = judge(le, site_list)
        finally:
            del le
            lm.close()
            lf.close()
        if lbad:
            raise OracleSplit(f"lld's own output fails the predicate: {lbad[0][1]}")
        w = res["wild"]
        if w.rc != 0:
            err = w.err.strip()
            if w.rc < 0 or "panicked at" in err:
                raise Violation("crash", f"wild crashed: {err[-400:]}", None)
            low = err.lower()
            if "out of range" in low or "thunk" in low or "outside of bounds" in low:
                # Outside the known finding's exact domain the same diagnostic is a different defect.
                sig = "link-fails:branch-out-of-range" if in_known_domain(case) else "link-fails:thunk-not-allocated"
                raise Violation(sig,
                                f"lld links this case ({lthunk} branches through thunks); wild fails: {err[-500:]}",
                                {"sizes_mib": [round(objs[i]['size'] / MIB, 2) for i in perm]})
            raise Discard("wild fails to link: " + err[-80:])
        we, wm, wf = open_elf(f"{d}/wild.out")
        try:
            bad, direct, thunk = judge(we, site_list)
        finally:
            del we
            wm.close()
            wf.close()
        for p in paths:
            os.unlink(p)
        if bad:
            raise Violation("branch-target", f"{len(bad)} of {len(sites)} branches miss their target; first: {bad[0][1]}",
                            {"sizes_mib": [round(objs[i]['size'] / MIB, 2) for i in perm], "bad": [b[1] for b in bad[:5]]})

        def szc(s):
            return "K" if s < MIB else "M" if s < 16 * MIB else "H"
        key = "".join(szc(objs[i]["size"]) for i in perm) + "|" + ",".join(f"{s[1]}{s[3]}>{s[4]}" for s in sites if not s[0].startswith("fsite_"))
        return {"nontrivial": thunk >= 1 and direct >= 1, "key": key,
                "classes": [f"objects_{n}", f"thunks_{min(thunk, 6) // 2 * 2}+", "gc" if case["gc"] else "nogc", "fan" if case.get("fan") else "nofan", "straddle" if case.get("straddle") else "nostraddle", "edge" if (case.get("edge") and not case.get("straddle")) else "noedge",
                            f"total_{sum(o['size'] for o in objs) // (64 * MIB) * 64}MiB+"],
                "counters": {"sites": len(sites), "thunked": thunk, "direct": direct, "lld_thunked": lthunk}}

    def excluded_by_construction(self, case):
        return known_domain(case)

    def extra_phases(self, tier, seed, stats):
        run_inproc(self, "c11", tier, seed, stats, 1_600_000, 160_000_000)


CHECK = C11()
