"""C15 — Linker-script input-section patterns match as in GNU ld.

Statement: an input section is placed in the output section of the *first* input-section
description whose file pattern and section-name pattern match it (fnmatch semantics as GNU ld uses
them); a section matched by a KEEP description is never garbage-collected; any syntactically valid
pattern is accepted without crashing.

Domain: scripts `SECTIONS { .text : { *(.text) } .out0 : { [KEEP(] filepat(secpat...) [)] ... } ... }`
with 1-8 output sections x 1-4 descriptions x 1-3 section patterns.  Section names come from a
small vocabulary (so that several objects / several rules collide on the same names) and patterns
are *derived from the section names* by positional rewrites (`?`, classes in all their spellings,
`*` tail/middle/head, near-miss literal, truncation, backslash escape, POSIX class, `**`, unclosed
bracket), so matches, near-misses and overlaps between rules are the norm, not the exception.

Oracles (both must agree, else OracleSplit):
  * GNU ld 2.40 links the same script and objects; the output section holding each marker symbol
    is read back from its output;
  * model: libc `fnmatch(pattern, name, 0)` (ctypes) on the file name and on the section name, first
    matching description in script order; KEEP = matched by *any* KEEP description (what GNU ld
    does and what the statement says).
wild must put every input section in the same *scripted* output section as GNU ld (orphans are only
compared as "not in a scripted section"), must retain KEEP-matched sections under --gc-sections and
must never panic on a script GNU ld accepts.  A clean `wild: error` is a Discard.

Known findings (see known_findings.jsonl) are keyed on the *pattern class* that triggers them.  A
case that contains a pattern of such a class can only ever raise that class's signature (tolerated
by the framework and counted under `excluded_known`), so no known class can cause an alarm, and
~80 % of generated cases are built without any such pattern ("live" domain), where every
mismatch is reported.
"""
import ctypes
import ctypes.util
import re

from hypothesis import strategies as st

from vlib import tools
from vlib.core import Check, Discard, Inconclusive, OracleSplit, Violation
from vlib.elf import SHT_STRTAB, SHT_SYMTAB, Elf

def _retry(fn, *a, **kw):
    """Assembler/archiver invocations are killed by the 60 s tool timeout when the machine is badly
    oversubscribed; that says nothing about the property, so try again before giving up."""
    for attempt in range(3):
        try:
            return fn(*a, **kw)
        except Inconclusive:
            if attempt == 2:
                raise



_libc = ctypes.CDLL(ctypes.util.find_library("c") or "libc.so.6")
_libc.fnmatch.argtypes = [ctypes.c_char_p, ctypes.c_char_p, ctypes.c_int]
_libc.fnmatch.restype = ctypes.c_int


def fnm(pat, name):
    return _libc.fnmatch(pat.encode("latin-1"), name.encode("latin-1"), 0) == 0


# ------------------------------------------------------------------------------------------------
# Pattern classes (purely syntactic; these define the domains of the known findings)

SIG_SHORT = "rejects:short-section-pattern"     # until /repo 25aa3b1 this was a panic (SIG_SHORT_PANIC)
SIG_SHORT_PANIC = "panic:short-section-pattern"
SIG_META4 = "placement:meta-in-first-4-bytes"
SIG_ESC = "placement:backslash-in-glob"
SIG_POSIX = "placement:posix-class"
SIG_KEEP_SHADOW = "keep:shadowed-by-earlier-description"
SIG_NOBITS = "panic:nobits-first-description-then-progbits"


def is_glob(p):
    """True iff the pattern contains an unescaped `*`, `?`, `[` or `]`."""
    i = 0
    while i < len(p):
        c = p[i]
        if c == "\\":
            i += 2
            continue
        if c in "*?[]":
            return True
        i += 1
    return False


def unescape(p):
    out, i = [], 0
    while i < len(p):
        if p[i] == "\\" and i + 1 < len(p):
            out.append(p[i + 1])
            i += 2
        else:
            out.append(p[i])
            i += 1
    return "".join(out)


def has_unclosed_bracket(p):
    """`[` that fnmatch treats as a literal because no `]` closes it."""
    i = 0
    while i < len(p):
        c = p[i]
        if c == "\\":
            i += 2
            continue
        if c == "[":
            j = i + 1
            if j < len(p) and p[j] in "!^":
                j += 1
            if j < len(p) and p[j] == "]":
                j += 1
            while j < len(p) and p[j] != "]":
                if p[j] == "[" and j + 1 < len(p) and p[j + 1] == ":":
                    k = p.find(":]", j + 2)
                    if k < 0:
                        return True
                    j = k + 2
                    continue
                j += 1
            if j >= len(p):
                return True
            i = j + 1
            continue
        i += 1
    return False


def sec_pattern_classes(p):
    """Known-finding classes a *section-name* pattern belongs to."""
    out = set()
    g = is_glob(p)
    key = p if g else unescape(p)
    if len(key) < 4:
        out.add(SIG_SHORT)
    elif g and any(c in "*?[\\" for c in p[:4]):
        out.add(SIG_META4)
    if "\\" in p:
        # In a glob-type pattern wild's matcher has no escapes; in a wildcard-free pattern GNU ld
        # itself compares the raw bytes (no unescaping), so references split.  Either way the
        # pattern is outside the live domain.
        out.add(SIG_ESC)
    if "[:" in p:
        out.add(SIG_POSIX)
    return out


def file_pattern_classes(p):
    out = set()
    if "\\" in p:
        out.add(SIG_ESC)
    if "[:" in p:
        out.add(SIG_POSIX)
    return out


def pattern_kinds(p):
    """Labels for the histogram / non-triviality."""
    k = set()
    if "**" in p:
        k.add("dstar")
    if has_unclosed_bracket(p):
        k.add("unclosed")
    if "\\" in p:
        k.add("escape")
    if "[:" in p:
        k.add("posix")
    if "[!" in p:
        k.add("neg!")
    if "[^" in p:
        k.add("neg^")
    if re.search(r"\[[!^]?\]", p):
        k.add("]first")
    if re.search(r"\[[^\]]+-[^\]]+\]", p):
        k.add("range")
    elif "[" in p:
        k.add("set")
    if "?" in p:
        k.add("qmark")
    if "*" in p:
        k.add("star")
        if not p.endswith("*") or p.count("*") > 1:
            k.add("star-inner")
    return k


# ------------------------------------------------------------------------------------------------
# Generation

PREFIXES = [".data", ".data.", ".dat", ".text.", ".tex", ".rodata", ".rodata.", "foo_", "sect", ".bss.x",
            ".data.rel", ".init", "abcd"]
SHORT_NAMES = [".d", ".x", "ab", ".da", "x", ".t1"]
ALPHA = "abc012._-"
SPECIAL = "][*?^!\\"
OBJ_NAMES = ["a.o", "b.o", "ab.o", "a1.o", "m.o", "xa.o", "a-b.o", "a_b.o"]
POSIX = ["[[:alpha:]]", "[[:digit:]]", "[[:alnum:]]", "[[:punct:]]", "[[:lower:]]"]

LIVE_OPS = ["lit", "q", "cls", "cls", "star_tail", "star_tail", "star_mid", "mut", "q"]
EXOTIC_OPS = ["esc", "esc", "posix", "posix", "star_head", "star_head", "trunc", "dstar", "unclosed", "early_q", "early_q",
              "early_cls", "early_cls", "trunc_star", "star_head", "esc"]


def make_class(c, form, x, y):
    """A bracket expression spelled in one of several ways.  form: 0 set containing c, 1 range
    containing c, 2 `[!x]`, 3 `[^x]`, 4 set not containing c (near miss), 5 negated set
    containing c (no match), 6 `[]c]`, 7 `[!]x]`."""
    others = [ch for ch in (x, y) if ch != c]

    def order(members, negated_prefix=""):
        ms = []
        for m in members:
            if m not in ms:
                ms.append(m)
        first = [m for m in ms if m == "]"]
        last = [m for m in ms if m == "-"]
        mid = [m for m in ms if m not in "]-"]
        # `!`/`^` must not come first (they would negate).
        if not first and not negated_prefix and mid and mid[0] in "!^":
            mid = mid[1:] + mid[:1]
            if mid[0] in "!^":  # only !/^ members: put a harmless literal first
                mid = ["Z"] + mid
        return "[" + negated_prefix + "".join(first + mid + last) + "]"

    if form == 1 and c.isalnum():
        lo = chr(max(ord(c) - 1, ord("0") if c.isdigit() else ord("a") if c.islower() else ord("A")))
        hi = chr(min(ord(c) + 1, ord("9") if c.isdigit() else ord("z") if c.islower() else ord("Z")))
        if lo < hi:
            return f"[{lo}-{hi}]"
    if form == 2:
        return order(others or ["Q"], "!")
    if form == 3:
        return order(others or ["Q"], "^")
    if form == 4:
        return order(others or ["Q"])
    if form == 5:
        return order([c] + others, "!" if x < y else "^")
    if form == 6:
        return order(["]", c] + others)
    if form == 7:
        return order(["]"] + (others or ["Q"]), "!")
    return order([c] + others)


def derive(name, ops):
    """Applies positional rewrite ops to `name`. Each op = [kind, pos, aux, x, y]."""
    toks = list(name)
    cut_tail = None
    cut_head = None
    mid = None
    for kind, pos, aux, x, y in ops:
        n = len(toks)
        if n == 0:
            break
        p = pos % n
        c = name[p] if p < len(name) else "a"
        if kind == "lit":
            pass
        elif kind in ("q", "early_q"):
            toks[p] = "?"
        elif kind in ("cls", "early_cls"):
            if c == "\\":
                continue
            toks[p] = make_class(c, aux % 8, x, y)
        elif kind == "mut":
            toks[p] = x
        elif kind == "esc":
            if len(toks[p]) == 1:
                toks[p] = "\\" + toks[p]
        elif kind == "posix":
            toks[p] = POSIX[aux % len(POSIX)]
        elif kind == "dstar":
            toks[p] = "**"
        elif kind == "unclosed":
            toks[p] = "[" + toks[p]
        elif kind == "star_tail":
            cut_tail = p if cut_tail is None else min(cut_tail, p)
        elif kind == "star_head":
            cut_head = p
        elif kind == "star_mid":
            mid = (p, 1 + aux % 3)
        elif kind == "trunc":
            return name[: 1 + aux % 3]
        elif kind == "trunc_star":
            return name[: aux % 3] + "*"
    if mid is not None:
        a, w = mid
        toks[a:a + w] = ["*"]
    if cut_tail is not None and cut_tail < len(toks):
        toks = toks[:cut_tail] + ["*"]
    if cut_head is not None and cut_head < len(toks):
        toks = ["*"] + toks[cut_head:]
    out = "".join(toks)
    return out or "*"


@st.composite
def case_strategy(draw):
    exotic = draw(st.integers(0, 99)) >= 80
    no_short = draw(st.booleans())  # exotic cases: half of them avoid the panicking class
    # --- section-name vocabulary
    n_names = draw(st.integers(2, 7))
    vocab = []
    for _ in range(n_names):
        if exotic and draw(st.integers(0, 9)) == 9:
            vocab.append(draw(st.sampled_from(SHORT_NAMES)))
            continue
        pre = draw(st.sampled_from(PREFIXES))
        alpha = ALPHA + (SPECIAL if exotic and draw(st.integers(0, 3)) == 3 else "")
        suf = draw(st.text(alphabet=alpha, min_size=0 if len(pre) > 5 else 1, max_size=4))
        vocab.append(pre + suf)
    # near-miss siblings: same stem, last char changed / one char appended
    for i in range(draw(st.integers(0, 3))):
        base = vocab[draw(st.integers(0, len(vocab) - 1))]
        ch = draw(st.sampled_from(ALPHA))
        vocab.append(base[:-1] + ch if draw(st.booleans()) and len(base) > 5 else base + ch)
    # --- objects
    n_obj = draw(st.integers(1, 3))
    onames = draw(st.lists(st.sampled_from(OBJ_NAMES), min_size=n_obj, max_size=n_obj, unique=True))
    objs = []
    for oi, on in enumerate(onames):
        secs = draw(st.lists(st.integers(0, len(vocab) - 1), min_size=2, max_size=6, unique=True))
        objs.append({"name": on, "secs": [vocab[i] for i in secs],
                     "archive": oi > 0 and draw(st.integers(0, 4)) == 0})
    all_secs = [(oi, si) for oi, o in enumerate(objs) for si in range(len(o["secs"]))]
    # --- script
    op_pool = LIVE_OPS + (EXOTIC_OPS if exotic else [])
    if exotic and no_short:
        op_pool = [o for o in op_pool if o not in ("trunc", "trunc_star")]

    def draw_pattern():
        base = vocab[draw(st.integers(0, len(vocab) - 1))]
        n_ops = draw(st.integers(0, 2))
        ops = []
        for _ in range(n_ops):
            kind = draw(st.sampled_from(op_pool))
            if kind in LIVE_OPS and kind != "lit":
                lo = 4 if len(base) > 4 else max(len(base) - 1, 0)
                pos = draw(st.integers(lo, max(lo, len(base) - 1)))
            elif kind in ("early_q", "early_cls", "star_head"):
                pos = draw(st.integers(0, 3))
            else:
                pos = draw(st.integers(0, max(0, len(base) - 1)))
            ops.append([kind, pos, draw(st.integers(0, 23)), draw(st.sampled_from(ALPHA)),
                        draw(st.sampled_from(ALPHA))])
        return derive(base, ops)

    def draw_file_pattern():
        r = draw(st.integers(0, 99))
        if r < 55:
            return "*"
        direct = [o["name"] for o in objs if not o["archive"]]
        if r < 65:
            return draw(st.sampled_from(direct))
        base = draw(st.sampled_from(onames))
        kinds = ["q", "cls", "star_tail", "star_head", "star_mid", "star_head", "trunc_star"]
        if exotic:
            kinds += ["esc", "posix"]
        ops = []
        for _ in range(draw(st.integers(1, 2))):
            ops.append([draw(st.sampled_from(kinds)), draw(st.integers(0, len(base) - 1)),
                        draw(st.integers(0, 23)), draw(st.sampled_from("abmx1-_.o")), draw(st.sampled_from("abmx1-_.o"))])
        p = derive(base, ops)
        if not any(c in p for c in "*?["):
            # A wildcard-free file name makes GNU ld open that file; only name real inputs.
            return draw(st.sampled_from(direct))
        return p

    outs = []
    for k in range(draw(st.integers(1, 8))):
        descs = []
        for _ in range(draw(st.integers(1, 4))):
            pats = [draw_pattern() for _ in range(draw(st.integers(1, 3)))]
            descs.append({"file": draw_file_pattern(), "pats": pats, "keep": draw(st.integers(0, 3)) == 0})
        outs.append({"name": f".out{k}", "descs": descs})
    gc = draw(st.integers(0, 2)) == 0
    refs = draw(st.lists(st.integers(0, len(all_secs) - 1), max_size=3, unique=True)) if gc else []
    return {"objs": objs, "outs": outs, "gc": gc, "refs": refs}


# ------------------------------------------------------------------------------------------------
# Rendering


def marker(oi, si):
    return f"m_{oi}_{si}"


def asm_quote(name):
    return '"' + name.replace("\\", "\\\\") + '"'


def render_obj(case, oi):
    o = case["objs"][oi]
    lines = []
    if oi == 0:
        lines += [".globl _start", '.section .text,"ax",@progbits', "_start:"]
        flat = [(a, b) for a, ob in enumerate(case["objs"]) for b in range(len(ob["secs"]))]
        for r in case["refs"]:
            if r < len(flat):
                lines.append(f"  leaq {marker(*flat[r])}(%rip), %rax")
        lines.append("  ret")
    for si, sn in enumerate(o["secs"]):
        lines.append(f'.section {asm_quote(sn)},"aw",@progbits')
        lines.append(f".globl {marker(oi, si)}")
        lines.append(f"{marker(oi, si)}: .quad {oi * 100 + si + 1}")
    return "\n".join(lines) + "\n"


def render_script(case):
    lines = ["ENTRY(_start)", "SECTIONS {", "  .text : { *(.text) }"]
    for o in case["outs"]:
        ds = []
        for d in o["descs"]:
            s = f"{d['file']}({' '.join(d['pats'])})"
            ds.append(f"KEEP({s})" if d["keep"] else s)
        lines.append(f"  {o['name']} : {{ {' '.join(ds)} }}")
    lines.append("}")
    return "\n".join(lines) + "\n"


def flat_descs(case):
    """[(output name, file pattern, [section patterns], keep)] in script order, incl. the fixed .text rule."""
    out = [(".text", "*", [".text"], False)]
    for o in case["outs"]:
        for d in o["descs"]:
            out.append((o["name"], d["file"], d["pats"], d["keep"]))
    return out


def model_place(case):
    """Per marker: (first matching description index or None, matched by any KEEP, #matching descs
    with distinct outputs)."""
    descs = flat_descs(case)
    res = {}
    for oi, o in enumerate(case["objs"]):
        for si, sn in enumerate(o["secs"]):
            hits = []
            for di, (out, fp, pats, keep) in enumerate(descs):
                if fp != "*" and not fnm(fp, o["name"]):
                    continue
                if any(fnm(p, sn) for p in pats):
                    hits.append(di)
            res[marker(oi, si)] = {
                "first": hits[0] if hits else None,
                "out": descs[hits[0]][0] if hits else None,
                "keep_first": bool(hits) and descs[hits[0]][3],
                "keep_any": any(descs[h][3] for h in hits),
                "multi": len({descs[h][0] for h in hits}) > 1,
                "name": sn,
            }
    return res


def placements(path):
    """marker -> name of the output section that holds it (from every well-formed .symtab)."""
    e = Elf(path)
    out = {}
    for s in e.sections:
        if s.type == SHT_SYMTAB and s.link < len(e.sections) and e.sections[s.link].type == SHT_STRTAB:
            for sym in e._symtab(s):
                if sym.name.startswith("m_") and 0 < sym.shndx < len(e.sections):
                    out[sym.name] = e.sections[sym.shndx].name
    return out


def panic_signature(err):
    if "Prefixes of length less than 4" in err:
        return SIG_SHORT_PANIC
    m = re.search(r"panicked at ([^\s:]+):\d+:\d+:\s*\n?(.*)", err)
    if m:
        msg = re.sub(r"\d+", "N", m.group(2).strip())[:50]
        return f"panic:{m.group(1)}:{msg}"
    return "panic:unknown"


class C15(Check):
    prop = "C15"
    level = "exploration"
    technique = ("differential PBT vs GNU ld 2.40 on generated linker scripts + objects (placement of every "
                 "marker symbol), cross-checked by a libc-fnmatch first-match model; KEEP under --gc-sections; no-panic clause")
    rule = ("Hypothesis-generated scripts (1-8 output sections x 1-4 descriptions x 1-3 patterns, optional KEEP / file "
            "pattern) whose patterns are positional rewrites of the generated section names; non-trivial = at least one "
            "wildcard/class pattern is the deciding (first) match of some section AND some section is matched by "
            "descriptions of two different output sections (order-sensitive) or a KEEP decides retention under gc; "
            "distinct by the script text")
    assumptions = ["GNU ld 2.40 is the reference for placement", "glibc fnmatch(3) with flags 0 is the pattern model",
                   "objects sit in the link's working directory (path == base name) so the name a file pattern sees is unambiguous",
                   "a clean `wild: error` for a pattern is outside the placement clause (discarded)"]
    quick_cases = 640
    thorough_cases = 20000

    def strategy(self, tier):
        return case_strategy()

    # -- helpers ---------------------------------------------------------------------------------
    @staticmethod
    def case_known_classes(case, model):
        cls = set()
        for o in case["outs"]:
            for d in o["descs"]:
                cls |= file_pattern_classes(d["file"])
                for p in d["pats"]:
                    cls |= sec_pattern_classes(p)
        if case["gc"] and any(m["keep_any"] and not m["keep_first"] for m in model.values()):
            cls.add(SIG_KEEP_SHADOW)
        # The assembler gives every object an empty NOBITS `.bss`.  An output section whose first
        # description receives it while a later description receives PROGBITS data panics in wild
        # (known finding); it has nothing to do with the pattern itself.
        claimed = False
        for o in case["outs"]:
            for di, dd in enumerate(o["descs"]):
                if any(fnm(p, ".bss") for p in dd["pats"]) and not claimed:
                    claimed = True
                    if di + 1 < len(o["descs"]):
                        cls.add(SIG_NOBITS)
        return cls

    def run_case(self, case, ctx):
        d = ctx.dir
        env = {"LC_ALL": "C", "RUST_BACKTRACE": "0"}
        objs = case["objs"]
        if not objs or not case["outs"]:
            raise Discard("empty case")
        direct, members = [], []
        for oi, o in enumerate(objs):
            _retry(tools.asm, render_obj(case, oi), o["name"], cwd=d)
            (members if o["archive"] else direct).append(o["name"])
        args = ["--gc-sections" if case["gc"] else "--no-gc-sections", "-T", "s.ld", *direct]
        if members:
            _retry(tools.ar, "lib0.a", members, cwd=d)
            import os
            for m in members:
                os.unlink(f"{d}/{m}")
            args += ["--whole-archive", "lib0.a", "--no-whole-archive"]
        script = render_script(case)
        tools.write(f"{d}/s.ld", script)

        model = model_place(case)
        known_classes = self.case_known_classes(case, model)
        all_pats = [p for o in case["outs"] for dd in o["descs"] for p in dd["pats"]]
        file_pats = [dd["file"] for o in case["outs"] for dd in o["descs"] if dd["file"] != "*"]
        kinds = set()
        for p in all_pats:
            kinds |= pattern_kinds(p)
        info = {"classes": sorted("pat:" + k for k in kinds), "counters": {}}
        if file_pats:
            info["classes"].append("file-pattern")
            if any(p[0] in "*?[" for p in file_pats):
                info["classes"].append("file-pattern-leading-wildcard")
        if members:
            info["classes"].append("archive-member")
        info["classes"].append("gc" if case["gc"] else "no-gc")
        info["classes"].append("domain:known-class" if known_classes else "domain:live")

        # --- reference
        r = tools.link("ld", args + ["-o", "ld.out"], cwd=d, env=env)
        if r.timed_out:
            raise Inconclusive("GNU ld timed out")
        if r.rc != 0:
            raise Discard("GNU ld rejects the case: " + (r.err.strip().split("\n")[-1][-50:] if r.err.strip() else "?"))
        ldp = placements(f"{d}/ld.out")
        scripted = {o["name"] for o in case["outs"]} | {".text"}

        def norm(x):
            return x if x in scripted else None

        # model vs GNU ld
        for mk, m in model.items():
            got = norm(ldp.get(mk))
            if case["gc"]:
                if (m["keep_any"]) and got != m["out"]:
                    info["classes"].append("split")
                    raise OracleSplit(f"gc: model keeps {mk} ({m['name']}) in {m['out']}, GNU ld has {ldp.get(mk)}")
                if mk in ldp and got != m["out"]:
                    raise OracleSplit(f"gc: {mk} ({m['name']}): model {m['out']}, GNU ld {ldp.get(mk)}")
            else:
                if mk not in ldp:
                    raise OracleSplit(f"GNU ld output lacks {mk}")
                if got != m["out"]:
                    esc = "escape" if any("\\" in p for p in all_pats + file_pats) else "other"
                    info["classes"].append("split:" + esc)
                    raise OracleSplit(f"{mk} ({m['name']}): fnmatch/first-match model says {m['out']}, GNU ld says "
                                      f"{ldp.get(mk)} [{esc}]")

        # --- wild
        w = tools.link("wild", ["--threads=2"] + args + ["-o", "w.out"], cwd=d, env=env)
        if w.timed_out:
            raise Inconclusive("wild timed out")
        if w.rc < 0 or w.rc == 101 or "panicked at" in w.err:
            sig = panic_signature(w.err) if "panicked at" in w.err else f"crash:rc={w.rc}"
            if SIG_NOBITS in known_classes and "output_section_part_map.rs" in w.err:
                sig = SIG_NOBITS
            raise Violation(sig, f"GNU ld accepts the script, wild crashes (rc={w.rc}): "
                            f"{w.err.strip()[:300]}", {"script": script})
        if w.rc != 0:
            info["classes"].append("wild-clean-error")
            last = w.err.strip().split("\n")[-1] if w.err.strip() else ""
            if "shorter than 4 bytes" in w.err:
                raise Violation(SIG_SHORT, "GNU ld accepts the script; wild rejects a section-name pattern shorter than 4 "
                                f"bytes: {last[:200]}", {"script": script})
            if not w.err.lstrip().startswith("wild: error"):
                raise Violation("diagnostic:not-an-error-message", f"wild failed (rc={w.rc}) without a `wild: error` "
                                f"diagnostic: {w.err[:200]!r}", {"script": script})
            raise Discard("wild diagnostic: " + re.sub(r"[`'].*", "", last)[:60])
        try:
            wp = placements(f"{d}/w.out")
        except Exception as e:  # noqa: BLE001
            raise Violation("output:unreadable", f"wild's output cannot be parsed: {e}", {"script": script})

        # --- compare
        live_mis, keep_first_mis, keep_shadow_mis = [], [], []
        decided_by_glob = False
        for mk, m in model.items():
            lo, wo = norm(ldp.get(mk)), norm(wp.get(mk))
            if m["first"] is not None and m["first"] > 0:
                fp, pats = flat_descs(case)[m["first"]][1:3]
                if any(is_glob(p) and fnm(p, m["name"]) for p in pats) and not any(
                        (not is_glob(p)) and p == m["name"] for p in pats):
                    decided_by_glob = True
            if case["gc"]:
                if mk not in ldp:
                    continue
                if mk not in wp:
                    if m["keep_first"]:
                        keep_first_mis.append((mk, m, lo, None))
                    elif m["keep_any"]:
                        keep_shadow_mis.append((mk, m, lo, None))
                    continue  # plain references: retention is C05's business
                if lo != wo:
                    live_mis.append((mk, m, lo, wo))
            else:
                if mk not in wp and lo is None:
                    continue
                if lo != wo:
                    live_mis.append((mk, m, lo, wp.get(mk)))

        def describe(mis):
            mk, m, lo, wo = mis
            return (f"input section `{m['name']}` (marker {mk}): GNU ld and the fnmatch model put it in "
                    f"{lo or 'no scripted section (orphan)'}, wild in {wo or 'no scripted section / dropped'}")

        if live_mis or keep_first_mis or keep_shadow_mis:
            detail = {"script": script, "objects": {o["name"]: o["secs"] for o in objs}, "gc": case["gc"],
                      "mismatches": [describe(x) for x in (live_mis + keep_first_mis + keep_shadow_mis)[:6]]}
            pattern_classes = known_classes - {SIG_KEEP_SHADOW}
            if pattern_classes:
                # The case contains a pattern of a known-defective class; attribute to it.
                for sig in (SIG_META4, SIG_ESC, SIG_POSIX, SIG_SHORT):
                    if sig in pattern_classes:
                        raise Violation(sig, describe((live_mis + keep_first_mis + keep_shadow_mis)[0]), detail)
            if live_mis:
                m = live_mis[0][1]
                sig = "placement:order" if m["multi"] else "placement:match"
                raise Violation(sig, describe(live_mis[0]), detail)
            if keep_first_mis:
                raise Violation("keep:collected", "under --gc-sections wild dropped a section whose first matching "
                                "description is KEEP: " + describe(keep_first_mis[0]), detail)
            raise Violation(SIG_KEEP_SHADOW, "under --gc-sections GNU ld retains a section matched by a KEEP description "
                            "that is not its first match; wild drops it: " + describe(keep_shadow_mis[0]), detail)

        multi = any(m["multi"] for m in model.values())
        keep_decides = case["gc"] and any(m["keep_first"] for m in model.values())
        if multi:
            info["classes"].append("order-sensitive")
        if keep_decides:
            info["classes"].append("keep-decides-retention")
        if decided_by_glob:
            info["classes"].append("glob-decides-placement")
        n_scripted = sum(1 for m in model.values() if m["out"] not in (None, ".text"))
        info["counters"]["sections_compared"] = len(model)
        info["counters"]["sections_in_scripted_outputs"] = n_scripted
        info["nontrivial"] = bool(decided_by_glob and (multi or keep_decides) and not known_classes)
        info["key"] = script
        return info


CHECK = C15()
