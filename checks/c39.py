"""C39 — Parallel layout traversal loses no work and always finishes.

Three sides, each generated search with an explicit oracle (DESIGN.md §3 C39):
 (A) model-level schedule search on vlib/slotmodel.py (transcription of the slot protocol): small
     configurations enumerated exhaustively over all schedules, larger ones sampled; invariants =
     termination, quiescence (all queues empty, all groups parked), mutual exclusion, handled set ==
     sequential closure. Seeded protocol mutants must be caught (the invariants have teeth).
 (B) trace conformance: the event log of every real link in (C) is replayed through the model's
     transition rules (each event must be an enabled transition; final state quiescent; pushes ==
     takes per group).
 (C) stress of the real code: generated high-traffic programs (every object its own group via
     WILD_FILES_PER_GROUP=1, archives, start/stop sections) × threads × CPU affinity × seeded
     schedule perturbation; oracles: wild's own quiescence invariant (hook, exit 97), output bytes
     identical to the --threads=1 link, termination (deadlock-confirming watchdog).
"""
import os
import random
import time

from hypothesis import strategies as st

from vlib import core, slotmodel, tools
from vlib.core import Check, Discard, Inconclusive, Violation
from vlib.faults import run_and_reap


def traffic_strategy():
    def build(n, seed, nfun, fan, n_arch, use_startstop):
        return {"n": n, "seed": seed, "nfun": nfun, "fan": fan, "n_arch": min(n_arch, max(0, n - 1)), "startstop": use_startstop}
    return st.builds(build, st.integers(6, 70), st.integers(0, 2**32 - 1), st.integers(1, 3), st.integers(1, 5),
                     st.integers(0, 30), st.booleans())


def gen_sources(spec):
    """Deterministic from spec (uses a PRNG seeded by the generated seed: part of the case)."""
    rng = random.Random(spec["seed"])
    n, nfun, fan = spec["n"], spec["nfun"], spec["fan"]
    funs = [(i, k) for i in range(n) for k in range(nfun)]
    srcs = []
    for i in range(n):
        out = []
        for k in range(nfun):
            targets = [funs[rng.randrange(len(funs))] for _ in range(rng.randint(0, fan))]
            out.append(f'    .section .text.f{i}_{k},"ax",@progbits\n    .globl f{i}_{k}\n    .type f{i}_{k},@function\nf{i}_{k}:\n')
            for (ti, tk) in targets:
                out.append(f"    call f{ti}_{tk}\n")
            out.append("    ret\n")
            if rng.random() < 0.4:
                ti, tk = funs[rng.randrange(len(funs))]
                out.append(f'    .section .data.p{i}_{k},"aw",@progbits\n    .globl p{i}_{k}\np{i}_{k}: .quad f{ti}_{tk}\n')
                out.append(f'    .section .text.f{i}_{k},"ax",@progbits\n    leaq p{i}_{k}(%rip), %rax\n')
        if spec["startstop"] and rng.random() < 0.3:
            ti, tk = funs[rng.randrange(len(funs))]
            out.append(f'    .section vset,"aw",@progbits\n    .quad f{ti}_{tk}\n')
        if i == 0:
            out.append('    .section .text._start,"ax",@progbits\n    .globl _start\n_start:\n')
            for _ in range(min(len(funs), 4)):
                ti, tk = funs[rng.randrange(len(funs))]
                out.append(f"    call f{ti}_{tk}\n")
            if spec["startstop"]:
                out.append("    leaq __start_vset(%rip), %rax\n    leaq __stop_vset(%rip), %rcx\n")
                out.append('    .section vset,"aw",@progbits\n    .quad _start\n    .section .text._start,"ax",@progbits\n')
            out.append("    ret\n")
        srcs.append("".join(out))
    return srcs


def proc_state(pid):
    """(total cpu ticks, set of thread states) of a process tree rooted at pid."""
    ticks = 0
    states = set()
    pids = [pid]
    seen = set()
    while pids:
        p = pids.pop()
        if p in seen:
            continue
        seen.add(p)
        try:
            for t in os.listdir(f"/proc/{p}/task"):
                with open(f"/proc/{p}/task/{t}/stat") as f:
                    parts = f.read().rsplit(")", 1)[1].split()
                states.add(parts[0])
                ticks += int(parts[11]) + int(parts[12])
                with open(f"/proc/{p}/task/{t}/children") as f:
                    pids += [int(x) for x in f.read().split()]
        except OSError:
            pass
    return ticks, states


class C39(Check):
    prop = "C39"
    level = "exploration"
    technique = ("model-based schedule fuzzing of a transcription of the slot protocol (exhaustive small configs + sampled, seeded "
                 "protocol mutants must be caught) + trace conformance of the real code's event log + perturbed-schedule stress with "
                 "quiescence invariant and byte-equality to the single-threaded link")
    rule = ("(C/B) case = traffic program (6-70 objects each its own group, 1-3 functions per object calling up to 5 random others, "
            "data pointers, optional archives and start/stop section) x threads x affinity x schedule-perturbation seed/intensity; "
            "non-trivial = event log shows >=1 push to a running group, >=1 push to a parked group (park->wake cycle) and >=1 request "
            "that arrived before its target group was activated; distinct by (program seed, n, threads, affinity, sched). "
            "(A) model schedules: counted separately in coverage.model_*")
    assumptions = ["the OS scheduler is not owned: on the real binary only thread count, affinity and hook-point perturbation vary it",
                   "the model treats each slot critical section as atomic and the Relaxed atomic counter as sequentially consistent",
                   "event log comes from the cfg(wild_verif) hook build; sequence numbers are taken inside the slot critical sections"]
    quick_cases = 96
    thorough_cases = 3000
    max_workers = 6
    case_timeout = 180

    def strategy(self, tier):
        return st.fixed_dictionaries({
            "prog": traffic_strategy(),
            "threads": st.sampled_from([2, 3, 4, 8, 16, 48]),
            "cpus": st.sampled_from([1, 2, 16, 16]),
            "sched": st.tuples(st.integers(1, 10**6), st.sampled_from([0, 50, 300, 900]), st.sampled_from([0, 20, 200])),
            "gc": st.booleans(),
        })

    def run_case(self, case, ctx):
        d = ctx.dir
        spec = case["prog"]
        srcs = gen_sources(spec)
        objs = []
        for i, s in enumerate(srcs):
            tools.asm(s, f"o{i}.o", cwd=d)
            objs.append(f"o{i}.o")
        n_arch = spec["n_arch"]
        inputs = list(objs)
        if n_arch:
            members = objs[len(objs) - n_arch:]
            half = max(1, len(members) // 2)
            tools.ar("liba.a", members[:half], cwd=d)
            inputs = objs[:len(objs) - n_arch] + ["liba.a"]
            if members[half:]:
                tools.ar("libb.a", members[half:], cwd=d)
                inputs.append("libb.a")
        args = inputs + (["--gc-sections"] if case["gc"] else ["--no-gc-sections"])
        env = {"WILD_FILES_PER_GROUP": "1"}
        wild = tools.linker_path("wild")
        ref = run_and_reap([wild, *args, "--threads=1", "-o", "ref.out"], d, env=env, timeout=120)
        if ref.rc != 0:
            if "VERIF-INVARIANT" in ref.err:
                raise Violation("invariant:" + ref.err.split("VERIF-INVARIANT", 1)[1].strip().split(":")[0], ref.err[-300:])
            raise Discard("reference single-threaded link failed: " + ref.err.strip()[-80:])
        refbytes = open(f"{d}/ref.out", "rb").read()
        seed, permille, max_us = case["sched"]
        env2 = dict(env)
        env2["WILD_VERIF_EVENTS"] = f"{d}/events.txt"
        if permille:
            env2["WILD_VERIF_SCHED"] = f"{seed}:{permille}:{max_us}"
        cmd = [wild, *args, f"--threads={case['threads']}", "-o", "out"]
        if case["cpus"] < 16:
            cmd = ["taskset", "-c", "0" if case["cpus"] == 1 else "0-1"] + cmd
        watch = {}

        def on_started(p):
            # Deadlock-confirming watchdog: sample cpu time; only called while the process is alive.
            t0 = time.time()
            last = None
            idle_since = None
            while p.poll() is None and time.time() - t0 < 150:
                time.sleep(0.5)
                ticks, states = proc_state(p.pid)
                if last is not None and ticks == last and states <= {"S"}:
                    idle_since = idle_since or time.time()
                    if time.time() - idle_since > 10:
                        watch["deadlock"] = True
                        return
                else:
                    idle_since = None
                last = ticks

        run = run_and_reap(cmd, d, env=env2, timeout=160, on_started=on_started)
        if run.timed_out or watch.get("deadlock"):
            if watch.get("deadlock"):
                raise Violation("hang", f"wild stopped making progress (all threads sleeping, no CPU time for 10 s) threads={case['threads']}")
            raise Inconclusive("link did not finish in time (no confirmed deadlock)")
        if run.rc == 97 or "VERIF-INVARIANT" in run.err:
            what = run.err.split("VERIF-INVARIANT", 1)[1].strip()[:200] if "VERIF-INVARIANT" in run.err else "exit 97"
            raise Violation("quiescence-invariant", f"wild's end-of-traversal invariant failed: {what}")
        if run.rc != 0:
            raise Violation("parallel-link-fails", f"single-threaded link succeeds but threads={case['threads']} link fails: {run.err[-300:]}")
        out = open(f"{d}/out", "rb").read()
        if out != refbytes:
            diff = next((i for i, (a, b) in enumerate(zip(out, refbytes)) if a != b), min(len(out), len(refbytes)))
            raise Violation("bytes-differ-from-single-thread", f"output differs from the --threads=1 link at offset {diff:#x} "
                            f"(sizes {len(out)} vs {len(refbytes)}); the kept set or its layout depends on the schedule")
        try:
            events = slotmodel.all_events(f"{d}/events.txt")
        except slotmodel.TraceError as e:
            raise Inconclusive(f"event log unreadable: {e}")
        if not any(e[1] == "activate-start" for e in events):
            raise Inconclusive("no layout-traversal events in the event log")
        try:
            st_ = slotmodel.validate_layout_trace(events)
        except slotmodel.TraceError as e:
            raise Violation("trace-nonconformant", f"event log is not a run of the slot protocol: {e}")
        if not st_["quiescent_seen"]:
            raise Violation("trace-no-quiescence", "event log has no quiescent marker although the link succeeded")
        nontrivial = st_["push_to_running"] >= 1 and st_["push_to_parked"] >= 1 and st_["early_requests"] >= 1
        classes = [f"threads:{case['threads']}", f"cpus:{case['cpus']}", f"perturb:{permille}",
                   "wake>=10%" if st_["wake_cycles"] * 10 >= st_["groups"] else "wake<10%",
                   "early-req" if st_["early_requests"] else "no-early-req"]
        return {"nontrivial": nontrivial, "key": f"{spec['seed']}/{spec['n']}/{case['threads']}/{case['cpus']}/{case['sched']}",
                "classes": classes, "groups": st_["groups"],
                "counters": {"events_validated": len(events), "pushes": st_["push_to_running"] + st_["push_to_parked"],
                             "parks": st_["parks"], "wake_cycles": st_["wake_cycles"], "early_requests": st_["early_requests"],
                             "traces_validated_against_model": 1}}

    # ---- (A) model-level search --------------------------------------------------------------
    def extra_phases(self, tier, seed, stats):
        rng = random.Random(seed)
        small = []
        # Tiny configurations enumerated exhaustively.
        small.append((2, [[(1, 0)], [(0, 5)]], {(1, 0): [(0, 1)], (0, 1): [(1, 2)], (0, 5): [(1, 7)]}, 1))
        small.append((2, [[(1, 0), (1, 1)], []], {(1, 0): [(0, 1)], (1, 1): [(1, 3)]}, None))
        small.append((3, [[(1, 0)], [(2, 0)], [(0, 0)]], {(1, 0): [(2, 1)], (2, 0): [(0, 1)], (0, 0): [(1, 1)]}, 2))
        total_runs = 0
        all_exhaustive = True
        cap = 60000 if tier == "quick" else 2000000
        for (G, initial, emits, delayed) in small:
            try:
                runs, ex = slotmodel.enumerate_schedules(lambda: slotmodel.Model(G, initial, emits, delayed=delayed), max_states=cap)
            except slotmodel.ModelViolation as e:
                v = Violation("model-invariant", f"protocol model violates its invariant: {e}")
                v.case = {"model": [G, initial, {f"{k}": v2 for k, v2 in emits.items()}, delayed], "schedule": getattr(e, "schedule", None)}
                raise v
            total_runs += runs
            all_exhaustive &= ex
        # Sampled larger configurations and schedules.
        n_samples = 4000 if tier == "quick" else 300000
        nontrivial = 0
        caught = {v: 0 for v in slotmodel.VARIANTS if v != slotmodel.OK}
        for k in range(n_samples):
            G = rng.randint(2, 8)
            nitems = rng.randint(1, 12)
            items = [(rng.randrange(G), i) for i in range(nitems)]
            initial = [[] for _ in range(G)]
            for it in rng.sample(items, rng.randint(1, min(4, nitems))):
                initial[rng.randrange(G)].append(it)
            emits = {}
            for it in items:
                emits[it] = [items[rng.randrange(nitems)] for _ in range(rng.choice([0, 0, 1, 1, 2, 4]))]
            delayed = rng.choice([None, rng.randrange(G)])
            schedule = [rng.randrange(8) for _ in range(rng.randint(0, 120))]
            m = slotmodel.Model(G, initial, emits, delayed=delayed)
            try:
                m.run(schedule)
            except slotmodel.ModelViolation as e:
                v = Violation("model-invariant", f"protocol model violates its invariant: {e}")
                v.case = {"model": [G, initial, [[list(k), v2] for k, v2 in emits.items()], delayed], "schedule": schedule}
                raise v
            if m.stats["push_to_running"] and m.stats["push_to_parked"]:
                nontrivial += 1
            if k % 8 == 0:
                for variant in caught:
                    mm = slotmodel.Model(G, initial, emits, delayed=delayed, variant=variant)
                    try:
                        mm.run(schedule)
                    except slotmodel.ModelViolation:
                        caught[variant] += 1
        for variant, c in caught.items():
            if c == 0:
                raise Inconclusive(f"model invariants did not catch the seeded protocol mutant `{variant}` in {n_samples // 8} schedules")
        stats.extra["model_exhaustive_runs"] = total_runs
        stats.extra["model_exhaustive_complete"] = all_exhaustive
        stats.extra["model_sampled_schedules"] = n_samples
        stats.extra["model_sampled_nontrivial"] = nontrivial
        stats.extra["model_mutants_caught"] = caught


CHECK = C39()
