"""C03 — Archive members are loaded exactly when needed.

Domain: reference graphs over 1..3 plain objects and 1..3 archives (regular, thin, or
`--start-lib/--end-lib` groups) of 1..4 members; every file defines 0..2 symbols and
references 0..4 others strongly or weakly (cycles, self-archive and cross-archive edges);
`--whole-archive` regions; `-u sym`; any command-line order of the items; optionally the same
symbol defined in two files (then `-z muldefs`, and the *first definition in command-line order*
is the one a reference requests).

Observation: every file carries a unique never-referenced marker symbol; the link uses
`--no-gc-sections`; a file is "part of the link" iff its marker is in the output's .symtab.

Oracle: `model_loaded()` = fixpoint transcribed from the statement (loaded = plain objects +
whole-archive members; a non-weak reference from a loaded file to a symbol it does not define
loads the member holding that symbol's definition) and lld 14 on the same command line.
VIOLATION only when wild != model and lld == model; lld != model -> OracleSplit.
Additionally (statement: "does not depend on where the archive sits on the command line"): for
cases without duplicate definitions, wild's loaded set must be the same for other generated
permutations of the command line; and the set must be identical under --threads=1/8/32,
WILD_FILES_PER_GROUP=1 and seeded WILD_VERIF_SCHED perturbation (exactly-once activation).
"""
from hypothesis import strategies as st

from vlib import symgen, tools
from vlib.core import Check, Discard, Inconclusive, OracleSplit, Violation
from vlib.elf import Elf



def sym(i):
    return f"s{i}"


def file_strategy(min_refs=0, max_refs=3):
    return st.fixed_dictionaries({
        # Objects whose symbol count straddles wild's per-work-item symbol chunk (5000) and its multiples.
        "filler": st.one_of(st.just(0), st.just(0), st.just(0), st.integers(4985, 5015), st.integers(9985, 10015)),
        "nd": st.sampled_from([0, 1, 1, 1, 2]),
        "dup": st.integers(0, 63),
        "refs": st.lists(st.tuples(st.integers(0, 63), st.sampled_from([False, False, True])).map(list),
                         min_size=min_refs, max_size=max_refs),
    })


def raw_strategy(tier):
    archive = st.fixed_dictionaries({
        "form": st.sampled_from(["ar", "ar", "ar", "thin", "startlib"]),
        "whole": st.sampled_from([False, False, False, False, True]),
        "members": st.lists(file_strategy(), min_size=1, max_size=4),
    })
    return st.fixed_dictionaries({
        "objs": st.lists(file_strategy(1, 4), min_size=1, max_size=3),
        "archives": st.lists(archive, min_size=1, max_size=3),
        "order": st.lists(st.integers(0, 99), min_size=6, max_size=6),
        "alts": st.lists(st.lists(st.integers(0, 99), min_size=6, max_size=6), min_size=2, max_size=2),
        "undef": st.lists(st.integers(0, 63), min_size=0, max_size=1),
        "dups": st.sampled_from([False, False, False, False, True]),
        "sched": st.integers(1, 10 ** 6),
    })


def all_files(case):
    """[(item index, member index|None, filespec)] in canonical (generation) order: objects first."""
    out = []
    for i, o in enumerate(case["objs"]):
        out.append((i, None, o))
    for a, ar in enumerate(case["archives"]):
        for mi, mem in enumerate(ar["members"]):
            out.append((len(case["objs"]) + a, mi, mem))
    return out


def normalize(case):
    """Raw draw -> case. Symbols are numbered in canonical file order (each defined once); with
    `dups` a file may additionally define a symbol of another file. References index the defined
    symbols (index == number of defined symbols: an undefined name, allowed for weak references
    only; strong references to undefined names would be link errors, which is C02's business)."""
    files = all_files(case)
    if "nd" not in files[0][2]:
        return case  # already normalised
    total = 0
    for _, _, f in files:
        f["defs"] = list(range(total, total + f["nd"]))
        total += f["nd"]
    has_dups = False
    for _, _, f in files:
        if case["dups"] and total and f["dup"] % 3 == 0:
            s = (f["dup"] // 3) % total
            if s not in f["defs"]:
                f["defs"] = sorted(f["defs"] + [s])
                has_dups = True
    for _, _, f in files:
        refs, seen = [], set()
        for idx, weak in f["refs"]:
            s = idx % (total + 1)
            if s in seen or s in f["defs"] or (s == total and not weak):
                continue
            seen.add(s)
            refs.append([s, bool(weak)])
        f["refs"] = sorted(refs)
        del f["nd"], f["dup"]
    for ar in case["archives"]:
        if ar["form"] == "startlib":
            # lld does not apply --whole-archive to --start-lib objects, wild does; the statement
            # speaks of archives: excluded.
            ar["whole"] = False
    case["undef"] = [s % total for s in case["undef"]] if total else []
    case["has_dups"] = has_dups
    del case["dups"]
    return case


def item_order(case, keys):
    n = len(case["objs"]) + len(case["archives"])
    return sorted(range(n), key=lambda i: (keys[i % len(keys)], i))


def ordered_files(case, order):
    """Files in command-line order: [(fid, spec, optional, whole)], fid = 'o<i>' or 'a<i>m<j>'."""
    no = len(case["objs"])
    out = []
    for it in order:
        if it < no:
            out.append((f"o{it}", case["objs"][it], False))
        else:
            ar = case["archives"][it - no]
            for mi, mem in enumerate(ar["members"]):
                out.append((f"a{it - no}m{mi}", mem, not ar["whole"]))
    return out


def model_loaded(case, order):
    """The statement's fixpoint. Returns (set of loaded fids, set loaded only transitively through
    another member, set of members left unloaded although weakly referenced)."""
    files = ordered_files(case, order)
    first_def = {}
    for fid, spec, _ in files:
        for s in spec["defs"]:
            first_def.setdefault(s, fid)
    optional = {fid: opt for fid, _, opt in files}
    spec_of = {fid: spec for fid, spec, _ in files}
    loaded = {fid for fid, _, opt in files if not opt}
    direct = set()
    work = []
    for s in case["undef"]:
        t = first_def.get(s)
        if t is not None and t not in loaded:
            loaded.add(t)
            direct.add(t)
            work.append(t)
    work += [fid for fid, _, opt in files if not opt]
    while work:
        fid = work.pop()
        for s, weak in spec_of[fid]["refs"]:
            if weak:
                continue
            t = first_def.get(s)
            if t is not None and t not in loaded:
                loaded.add(t)
                if not optional[fid]:
                    direct.add(t)
                work.append(t)
    transitive = {fid for fid in loaded if optional[fid] and fid not in direct}
    weak_only = set()
    for fid in loaded:
        for s, weak in spec_of[fid]["refs"]:
            t = first_def.get(s)
            if weak and t is not None and t not in loaded:
                weak_only.add(t)
    return loaded, transitive, weak_only


def marker(fid):
    return f"mark_{fid}"


def build_inputs(case, d):
    symgen.runtime_obj(d)
    no = len(case["objs"])
    for i, o in enumerate(case["objs"]):
        symgen.build_obj(spec_for(o, f"o{i}"), f"o{i}.o", d)
    for a, ar in enumerate(case["archives"]):
        names = []
        for mi, mem in enumerate(ar["members"]):
            fid = f"a{a}m{mi}"
            symgen.build_obj(spec_for(mem, fid), f"{fid}.o", d)
            names.append(f"{fid}.o")
        if ar["form"] in ("ar", "thin"):
            symgen.ar(f"lib{a}.a", names, cwd=d, thin=ar["form"] == "thin")
    return no


def spec_for(f, fid):
    return {"defs": [{"name": sym(s), "kind": "data", "strength": "strong", "id": 1 + s} for s in f["defs"]],
            "refs": [{"name": sym(s), "kind": "data", "weak": weak} for s, weak in f["refs"]],
            "markers": [marker(fid)], "filler_syms": f.get("filler", 0)}


def command_line(case, order):
    no = len(case["objs"])
    args = ["--no-gc-sections"]
    if case["has_dups"]:
        args += ["-z", "muldefs"]
    for s in case["undef"]:
        args += ["-u", sym(s)]
    args.append("rt.o")
    for it in order:
        if it < no:
            args.append(f"o{it}.o")
            continue
        a = it - no
        ar = case["archives"][a]
        if ar["form"] == "startlib":
            inner = ["--start-lib", *[f"a{a}m{mi}.o" for mi in range(len(ar["members"]))], "--end-lib"]
        else:
            inner = [f"lib{a}.a"]
        if ar["whole"]:
            inner = ["--whole-archive", *inner, "--no-whole-archive"]
        args += inner
    return args


def observed_set(path, all_fids):
    names = {s.name for s in Elf(path).symtab() if s.defined}
    return {fid for fid in all_fids if marker(fid) in names}


class C03(Check):
    prop = "C03"
    level = "exploration"
    technique = ("model-based + differential PBT: generated reference graphs over objects and archives; loaded set read "
                 "from per-file marker symbols; compared with the statement's fixpoint and lld; metamorphic "
                 "command-line permutation; thread-count / files-per-group / seeded schedule variants")
    rule = ("Hypothesis-generated graphs: 1-3 objects + 1-3 archives (ar / thin / --start-lib; optional "
            "--whole-archive) of 1-4 members over 10 symbols with strong/weak edges, -u, optional duplicate "
            "definitions, generated item order; non-trivial = some member is loaded only transitively through "
            "another member, or stays unloaded although referenced weakly; distinct by canonical graph + order")
    assumptions = ["lld 14 is the reference for archive semantics",
                   "a file is part of the link iff its marker symbol is in .symtab under --no-gc-sections"]
    quick_cases = 240
    thorough_cases = 10000
    max_workers = 16

    def strategy(self, tier):
        return raw_strategy(tier).map(normalize)

    VARIANTS = [
        ("t1", ["--threads=1"], {}),
        ("t8-fpg1", ["--threads=8"], {"WILD_FILES_PER_GROUP": "1"}),
        ("t32-sched", ["--threads=32"], None),  # env filled from the case's sched seed
    ]

    def _wild(self, args, d, out, extra=(), env=None):
        w = symgen.link("wild", [*extra, *args, "-o", out], cwd=d, env=env)
        if w.timed_out:
            raise Inconclusive("wild timed out")
        if symgen.wild_crashed(w):
            raise Violation("crash", f"wild crashed: rc={w.rc} {w.err[-400:]}", {"args": args, "extra": list(extra), "env": env})
        return w

    @symgen.memo_run_case
    def run_case(self, case, ctx):
        d = ctx.dir
        build_inputs(case, d)
        order = item_order(case, case["order"])
        args = command_line(case, order)
        fids = [fid for fid, _, _ in ordered_files(case, order)]
        loaded, transitive, weak_only = model_loaded(case, order)
        classes = []
        if transitive:
            classes.append("transitive-member")
        if weak_only:
            classes.append("weak-only-unloaded")
        if case["has_dups"]:
            classes.append("dups")
        if case["undef"]:
            classes.append("-u")
        for ar in case["archives"]:
            classes.append("form:" + ar["form"])
            if ar["whole"]:
                classes.append("whole-archive")
        if any(fid not in loaded for fid in fids):
            classes.append("some-unloaded")
        cyc = self._has_cycle(case, order)
        if cyc:
            classes.append("member-cycle")
        info = {"nontrivial": bool(transitive or weak_only), "classes": classes, "counters": {},
                "key": self._key(case, order)}

        r = symgen.link("lld", [*args, "-o", "r.out"], cwd=d)
        if r.timed_out:
            raise Inconclusive("lld timed out")
        if r.rc != 0:
            raise Discard("lld rejects: " + r.err.strip().split("\n")[0][-60:])
        lld_set = observed_set(f"{d}/r.out", fids)
        if lld_set != loaded:
            classes.append("split:dups" if case["has_dups"] else "split:nodups")
            raise OracleSplit(f"lld loads {sorted(lld_set)}, model {sorted(loaded)} (dups={case['has_dups']})")

        w = self._wild(args, d, "w.out")
        if w.rc != 0:
            if symgen.wild_unsupported(w):
                raise Discard("wild: unsupported: " + w.err.strip().split("\n")[-1][-60:])
            raise Violation("rejects-valid", f"lld links it and loads exactly the model's set; wild fails: {w.err[-300:]}",
                            {"args": args})
        base = observed_set(f"{d}/w.out", fids)
        if base != loaded:
            extra, missing = sorted(base - loaded), sorted(loaded - base)
            sig = self._sig(case, order, extra, missing, weak_only)
            raise Violation(sig, f"statement and lld load {sorted(loaded)}; wild loads {sorted(base)} "
                            f"(extra {extra}, missing {missing})", {"args": args})
        # Program must run (references to loaded definitions are bound).
        pr = symgen.run_program(f"{d}/w.out", d)
        if not pr.ok:
            lr = symgen.run_program(f"{d}/r.out", d)
            if lr.ok:
                raise Violation("program-fails", f"wild-linked program fails ({pr.why}), lld-linked one runs", {"args": args})

        # --- schedule / grouping variants: exactly-once activation ------------------------------
        for name, extra, env in self.VARIANTS:
            if env is None:
                env = {"WILD_VERIF_SCHED": f"{case['sched']}:600:300"}
            wv = self._wild(args, d, f"w-{name}.out", extra=extra, env=env)
            if wv.rc != 0:
                raise Violation("variant-rejects", f"wild links the case by default but fails with {extra} {env}: {wv.err[-300:]}",
                                {"args": args, "extra": extra, "env": env})
            vs = observed_set(f"{d}/w-{name}.out", fids)
            info["counters"]["variant_links"] = info["counters"].get("variant_links", 0) + 1
            if vs != base:
                raise Violation("variant-differs", f"loaded set depends on {extra} {env}: default {sorted(base)}, "
                                f"variant {sorted(vs)} (model/lld {sorted(loaded)})", {"args": args, "extra": extra, "env": env})

        # --- position independence (only meaningful without duplicate definitions) -------------
        if not case["has_dups"]:
            for keys in case["alts"]:
                o2 = item_order(case, keys)
                if o2 == order:
                    continue
                l2, _, _ = model_loaded(case, o2)
                if l2 != loaded:
                    raise Inconclusive("model is order dependent without duplicates (harness bug)")
                a2 = command_line(case, o2)
                w2 = self._wild(a2, d, "w-alt.out")
                info["counters"]["alt_orders"] = info["counters"].get("alt_orders", 0) + 1
                s2 = observed_set(f"{d}/w-alt.out", fids) if w2.rc == 0 else None
                if s2 == base:
                    continue
                r2 = symgen.link("lld", [*a2, "-o", "r-alt.out"], cwd=d)
                if r2.rc != 0 or observed_set(f"{d}/r-alt.out", fids) != loaded:
                    classes.append("split:alt-order")
                    continue
                if w2.rc != 0:
                    raise Violation("position-dependent", f"wild links order {args} but fails on permutation {a2}: {w2.err[-300:]}",
                                    {"args": args, "alt": a2})
                raise Violation("position-dependent", f"loaded set changes with command-line position: {sorted(base)} for {args}, "
                                f"{sorted(s2)} for {a2} (model/lld: {sorted(loaded)} for both)", {"args": args, "alt": a2})
        return info

    @staticmethod
    def _sig(case, order, extra, missing, weak_only):
        if extra and set(extra) <= set(weak_only) and not missing:
            return "loads-weakly-referenced-member"
        if extra and not missing:
            return "loads-unneeded-member"
        if missing and not extra:
            files = {fid: opt for fid, _, opt in ordered_files(case, order)}
            if any(not files[m] for m in missing):
                return "drops-mandatory-file"
            return "misses-needed-member"
        return "wrong-loaded-set"

    @staticmethod
    def _has_cycle(case, order):
        files = ordered_files(case, order)
        first_def = {}
        for fid, spec, _ in files:
            for s in spec["defs"]:
                first_def.setdefault(s, fid)
        edges = {fid: {first_def[s] for s, weak in spec["refs"] if not weak and s in first_def} for fid, spec, _ in files}
        opt = {fid for fid, _, o in files if o}
        # cycle among optional files
        color = {}

        def dfs(u):
            color[u] = 1
            for v in edges[u]:
                if v not in opt:
                    continue
                if color.get(v) == 1 or (v not in color and dfs(v)):
                    return True
            color[u] = 2
            return False
        return any(dfs(u) for u in sorted(opt) if u not in color)

    @staticmethod
    def _key(case, order):
        parts = []
        for fid, spec, opt in ordered_files(case, order):
            parts.append(f"{fid}{'?' if opt else '!'}:{','.join(map(str, spec['defs']))}<" +
                         ",".join(f"{s}{'w' if w else ''}" for s, w in spec["refs"]))
        return ";".join(parts) + "|u" + ",".join(map(str, case["undef"]))


CHECK = C03()
