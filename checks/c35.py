"""C35 — Jobserver tokens are conserved.

Domain: token count N (0..12) × jobserver style (inherited pipe fds via --jobserver-auth=R,W,
legacy --jobserver-fds=R,W, --jobserver-auth=fifo:PATH) × tokens held by competing clients ×
outcome (success, link error, injected error/panic at each named point) × fork/no-fork × explicit
--threads (then no token may be taken).
Oracle (invariant over the history): the harness owns the pipe/fifo. While wild is paused at a
mid-link point: tokens_taken = tokens missing from the pipe; the worker process must run at most
tokens_taken + 1 pool threads (threads of the process minus the main thread; a pool that runs on
the main thread counts as 1). After wild and all descendants have exited the pipe holds exactly the
multiset of token bytes it held before.
"""
import os
import select
import stat

from hypothesis import strategies as st

from vlib import core, faults, miniprog, tools
from vlib.core import Check, Discard, Inconclusive, Violation

STYLES = ["auth-fds", "legacy-fds", "fifo"]
OUTCOMES = ["success", "link-error", "save-dir-skip-linking"] + [f"{k}@{p}" for k in ("error", "panic")
                                        for p in ("inputs-loaded", "symbols-resolved", "layout-done", "sections-written",
                                                  "output-written")]
PAUSE_POINTS = ["inputs-loaded", "symbols-resolved", "layout-done", "output-created"]


def drain(fd):
    """Reads every byte currently in the (non-blocking) pipe/fifo."""
    out = b""
    while True:
        rl, _, _ = select.select([fd], [], [], 0)
        if not rl:
            return out
        try:
            chunk = os.read(fd, 4096)
        except BlockingIOError:
            return out
        if not chunk:
            return out
        out += chunk


def nthreads(pid):
    try:
        return len(os.listdir(f"/proc/{pid}/task"))
    except OSError:
        return None


class C35(Check):
    prop = "C35"
    level = "fault_enumeration"
    technique = "history PBT with a harness-owned jobserver pipe/fifo: token-conservation invariant after exit, thread-count bound at a hook pause point"
    rule = ("case = (program, N tokens, style, tokens pre-taken by a competing client, outcome, fork mode, explicit --threads or not, "
            "pause point); outcomes are enumerated from {success, link error, injected error/panic at 5 points}; non-trivial = at "
            "least 2 tokens available to wild, wild acquired >= 1 token and the thread bound was measured at a pause; distinct by "
            "(N, style, pretaken, outcome, fork, explicit)")
    assumptions = ["pause/fault points come from the cfg(wild_verif) hook build", "abort and fatal signals are excluded: no process can "
                   "return tokens then (the statement speaks of success or failure)", "thread bound: threads of the worker process "
                   "minus its main thread, sampled once at the pause point"]
    quick_cases = 200
    thorough_cases = 5000
    max_workers = 8

    def strategy(self, tier):
        return st.fixed_dictionaries({
            "prog": miniprog.spec_strategy(max_objs=3, kinds=("static", "shared")),
            "n": st.integers(0, 12),
            "style": st.sampled_from(STYLES),
            "pretaken": st.integers(0, 3),
            "outcome": st.sampled_from(OUTCOMES),
            "fork": st.booleans(),
            "explicit_threads": st.sampled_from([None, None, None, 1, 3]),
            "pause": st.sampled_from(PAUSE_POINTS),
            "jflag": st.sampled_from(["-j", "", "-j8 "]),
            # A previous output at the same path (the relink case: wild then renames/unlinks the old file).
            "prior_output": st.booleans(),
        })

    def excluded_by_construction(self, case):
        # Known finding: process::exit(0) in save_dir.rs while tokens are held.
        if case["outcome"] == "save-dir-skip-linking" and not case["explicit_threads"] and case["n"] - min(case["pretaken"], case["n"]) > 0:
            return "tokens-not-conserved:leak:save-dir-skip-linking"
        return None

    def run_case(self, case, ctx):
        d = ctx.dir
        inputs, args = miniprog.build(case["prog"], d)
        n = case["n"]
        tokens = bytes(0x61 + i for i in range(n))  # distinct bytes 'a', 'b', ...
        pass_fds = ()
        if case["style"] == "fifo":
            path = f"{d}/.jobserver_fifo"
            os.mkfifo(path)
            rfd = os.open(path, os.O_RDWR | os.O_NONBLOCK)
            wfd = rfd
            auth = f"--jobserver-auth=fifo:{path}"
        else:
            rfd, wfd = os.pipe()
            os.set_inheritable(rfd, True)
            os.set_inheritable(wfd, True)
            pass_fds = (rfd, wfd)
            auth = (f"--jobserver-auth={rfd},{wfd}" if case["style"] == "auth-fds" else f"--jobserver-fds={rfd},{wfd}")
        try:
            os.set_blocking(rfd, False)
            if tokens:
                os.write(wfd, tokens)
            pre = min(case["pretaken"], n)
            held = os.read(rfd, pre) if pre else b""
            before = drain(rfd)
            if before:
                os.write(wfd, before)
            avail = len(before)

            if case.get("prior_output"):
                tools.must(tools.link("wild", [*args, "-o", "out"], cwd=d), "creating the prior output")
            # strace counts every thread ever created (clone with CLONE_THREAD) in wild's process tree, so
            # short-lived helper threads outside the pool are seen too.
            trace = f"{d}/clone.trace"
            cmd = ["strace", "-f", "-q", "-e", "trace=clone,clone3", "-o", trace, tools.linker_path("wild"), *args, "-o", "out"]
            if not case["fork"]:
                cmd.append("--no-fork")
            if case["explicit_threads"]:
                cmd.append(f"--threads={case['explicit_threads']}")
            env = {"MAKEFLAGS": f" {case['jflag']}{auth}".strip() if case["jflag"] != "-j" else f"-j {auth}"}
            outcome = case["outcome"]
            if outcome == "link-error":
                cmd += ["--undefined=verif_missing", "--require-defined=verif_missing"]
            elif outcome == "save-dir-skip-linking":
                env["WILD_SAVE_DIR"] = f"{d}/saved"
                env["WILD_SAVE_SKIP_LINKING"] = "1"
            elif "@" in outcome:
                kind, point = outcome.split("@")
                env["WILD_VERIF_CRASH"] = f"{point}:{kind}"
            pz = faults.Pause(d, case["pause"])
            env.update(pz.env())
            measured = {}

            def on_started(p):
                if not pz.wait_paused(timeout=60, alive=lambda: p.poll() is None):
                    return
                # The paused process is the forked worker (fork mode) or wild itself; p is strace.
                worker = p.pid
                kids = faults.children_of(p.pid)
                if kids:
                    worker = kids[0]
                    if case["fork"]:
                        kids2 = faults.children_of(worker)
                        if kids2:
                            worker = kids2[0]
                now = drain(rfd)
                if now:
                    os.write(wfd, now)
                measured["taken"] = avail - len(now)
                measured["threads"] = nthreads(worker)
                pz.release()

            try:
                run = faults.run_and_reap(cmd, d, env=env, on_started=on_started, timeout=120, pass_fds=pass_fds)
            finally:
                pz.close()
            if run.timed_out or not run.descendants_gone:
                raise Inconclusive(f"wild or a descendant did not exit: {run}")
            after = drain(rfd)
            info = {"classes": [f"style:{case['style']}", f"outcome:{outcome.split('@')[0]}", f"rc:{'0' if run.rc == 0 else 'nonzero'}",
                                "fork" if case["fork"] else "nofork"], "counters": {}}
            if sorted(after) != sorted(before):
                raise Violation(f"tokens-not-conserved:{'leak' if len(after) < len(before) else 'extra'}:{outcome.split('@')[0]}",
                                f"jobserver held {len(before)} tokens before the link and {len(after)} after wild and all descendants "
                                f"exited (outcome {outcome}, rc={run.rc}, fork={case['fork']}, style={case['style']})",
                                {"before": before.decode(), "after": after.decode(), "stderr": run.err[-300:]})
            created = None
            try:
                created = sum(1 for line in open(trace) if "CLONE_THREAD" in line and "= -1" not in line)
            except OSError:
                pass
            if "taken" in measured and created is not None and not case["explicit_threads"]:
                info["classes"].append("prior-output" if case.get("prior_output") else "fresh-output")
                if created > measured["taken"] + 1:
                    raise Violation("too-many-threads-created",
                                    f"wild created {created} threads in total having acquired {measured['taken']} tokens "
                                    f"(bound: tokens+1 pool threads; prior_output={case.get('prior_output')}, kind={case['prog']['kind']})")
            if "taken" in measured and measured["threads"] is not None:
                taken, threads = measured["taken"], measured["threads"]
                pool = max(1, threads - 1)
                info["classes"].append(f"taken:{min(taken, 5)}")
                info["taken"] = taken
                info["threads"] = threads
                if case["explicit_threads"] and taken != 0:
                    raise Violation("tokens-taken-with-explicit-threads",
                                    f"--threads={case['explicit_threads']} given, yet {taken} jobserver tokens were taken")
                if not case["explicit_threads"] and pool > taken + 1:
                    raise Violation("too-many-threads",
                                    f"worker process runs {threads} threads (pool {pool}) having acquired {taken} tokens; bound is tokens+1",
                                    {"available_tokens": avail})
                info["nontrivial"] = avail >= 2 and taken >= 1
            else:
                info["classes"].append("pause-not-reached")
                info["nontrivial"] = False
            info["key"] = f"{n}/{case['style']}/{pre}/{outcome}/{case['fork']}/{case['explicit_threads']}"
            return info
        finally:
            for fd in {rfd, wfd}:
                try:
                    os.close(fd)
                except OSError:
                    pass


CHECK = C35()
