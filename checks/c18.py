"""C18 — A failed link leaves no output file produced by that link.

A case is a *history*: a prior state of the output path (absent / regular file with known bytes /
read-only / hard-linked / symlink to a file), a generated program, a link command (write mode,
fork or not, thread count, executable or shared object) and one failure cause: undefined symbol,
duplicate symbol, relocation overflow (found while writing), linker-script ASSERT, an injected
error or panic at one named point of the link (`WILD_VERIF_CRASH`), or an output that cannot be
created/opened (run as an unprivileged user against an unwritable directory or read-only file).

Oracle (the statement, nothing more): state of the output path (lstat: inode, size, mtime, mode,
SHA-256; for a symlink also the state of its target) is recorded before; if wild exits non-zero
the path must afterwards be absent or identical to before.  Exit 0 means the history is outside the
property (C17's business) and is only counted.

Known finding (unchanged tree): wild never removes or restores the output once it has begun
creating it, so every failure at or after file creation leaves a partial file / modifies or
replaces the previous one.  That domain -- failure phase >= file creation, which is
`Output::write` (hook point `output-created` and later) for every configuration and additionally
`set_size` (between `sections-resolved` and `layout-done`) when more than one thread is available,
because the file is then created by a background task -- is excluded by construction while the
finding is listed with status "known"; every earlier failure is searched.
"""
import os
import shutil
import threading

from hypothesis import strategies as st

from vlib import hist, tools
from vlib.core import (Check, Ctx, Inconclusive, Stats, Violation, evaluate, load_known)

EARLY_POINTS = ["opened=main.o", "inputs-loaded", "symbols-loaded", "symbols-resolved", "sections-resolved"]
MID_POINTS = ["layout-done"]  # after set_size: file may already exist when >1 thread
LATE_POINTS = ["output-created", "sections-written", "output-flushed", "output-unmapped", "output-written",
               "before-verify-inputs", "after-verify-inputs", "before-inform-parent", "link-returned"]
NOERR_POINTS = {"before-verify-inputs", "after-verify-inputs"}      # error kind is ignored there
FORK_ONLY = {"before-inform-parent"}
NOFORK_ONLY = {"link-returned"}
NATURAL = ["undef", "dup", "overflow", "assert"]
PRIORS = ["absent", "regular", "readonly", "hardlink", "symlink"]
MODES = ["default", "uip", "nouip"]
THREADS = [1, 2, 4, 0]  # 0 = wild's default (all cores)

SIG_LATE = "late-failure-leaves-output"
# Failures injected after the output has been written completely (input verification, reporting to the
# parent): the file at the output path is a complete output, but the link still exits non-zero.
POST_POINTS = ["before-verify-inputs", "after-verify-inputs", "before-inform-parent", "link-returned"]
SIG_POST = "post-link-failure-leaves-output"


def late_sig(c):
    if c["cause"] == "inject" and c["point"] in POST_POINTS:
        return f"{SIG_POST}:{c['kind']}"
    if c["prior"] == "symlink" and c["kind"] == "error":
        # The output path is a symlink: the link wrote through it into the target, and removing the
        # output on failure (which only removes regular files, like GNU ld) cannot undo that.
        return f"{SIG_LATE}-through-symlink:{c['kind']}"
    return f"{SIG_LATE}:{c['kind']}"
OLD_BYTES = b"PREVIOUS-OUTPUT-" * 64 + b"\n"
OLD_MTIME = 1_500_000_000


def normalise(case):
    """Maps any drawn combination onto a valid one (constructed, not filtered)."""
    c = dict(case)
    if c["cause"] == "inject":
        p = c["point"]
        if p in NOERR_POINTS:
            c["kind"] = "panic"
        if p in FORK_ONLY:
            c["fork"] = True
        if p in NOFORK_ONLY:
            c["fork"] = False
    else:
        c["point"] = ""
        c["kind"] = "error"
    if c["cause"] == "overflow":
        c["shared"] = False  # R_X86_64_32 against an absolute symbol: keep the executable case
    if c["cause"] == "nocreate":
        c["point"], c["kind"] = "", "error"
        if c["prior"] in ("hardlink", "symlink", "regular"):
            c["prior"] = "readonly"
    return c


def predicted_late(c):
    """True iff, by construction, the failure happens at or after the creation of the output."""
    bg = c["threads"] != 1
    if c["cause"] == "overflow":
        return True
    if c["cause"] == "assert":
        return bg
    if c["cause"] == "inject":
        if c["point"] in LATE_POINTS:
            return True
        if c["point"] in MID_POINTS:
            return bg
    return False


def case_key(c):
    what = c["cause"] if c["cause"] != "inject" else f"{c['point']}:{c['kind']}"
    return (f"{what}|{c['prior']}|{c['mode']}|{'fork' if c['fork'] else 'nofork'}|t{c['threads']}|"
            f"{'so' if c['shared'] else 'exe'}" + (f"|delay{c['delay']}" if c.get("delay") else ""))


def build_program(d, prog, cause, shared):
    """Writes and assembles the inputs; returns the argument list (inputs only)."""
    n = prog["nobj"]
    main = [".globl _start", ".text", "_start:"]
    for i in range(n):
        main.append(f"  call f{i}@PLT" if shared else f"  call f{i}")
    if cause == "undef":
        main.append("  call missing_sym@PLT" if shared else "  call missing_sym")
    if cause == "overflow":
        main.append("  movl $big_abs, %eax")
    main += ["  mov $60, %eax", "  xor %edi, %edi", "  syscall", ".data", "main_data: .quad 0x1122334455667788", ""]
    tools.asm("\n".join(main), "main.o", cwd=d)
    fillers = []
    for i in range(n):
        size = prog["sizes"][i % len(prog["sizes"])]
        src = (f".globl f{i}\n.text\nf{i}:\n  .fill {size}, 1, 0x90\n  ret\n"
               f".section .rodata\n  .fill {size // 2 + 1}, 1, {0x41 + i}\n")
        tools.asm(src, f"fill{i}.o", cwd=d)
        fillers.append(f"fill{i}.o")
    args = ["main.o"]
    if fillers and prog["archive"]:
        tools.ar("libfill.a", fillers, cwd=d)
        args.append("libfill.a")
    else:
        args += fillers
    if cause == "dup":
        tools.asm(".globl _start\n.text\n_start:\n  ret\n", "dup.o", cwd=d)
        args.insert(prog["pos"] % (len(args) + 1), "dup.o")
    if cause == "overflow":
        tools.asm(".globl big_abs\nbig_abs = 0x123456789\n", "abs.o", cwd=d)
        args.append("abs.o")
    if cause == "assert":
        tools.write(os.path.join(d, "a.ld"),
                    "ASSERT(0, \"verif-assert\")\nSECTIONS { .text : { *(.text*) } .rodata : { *(.rodata*) } "
                    ".data : { *(.data*) } }\n")
        args = ["-T", "a.ld"] + args
    if shared:
        args = ["-shared"] + args
        if cause == "undef":
            args = ["-z", "defs"] + args
    return args


class C18(Check):
    prop = "C18"
    level = "fault_enumeration"
    technique = ("fault-injection PBT over generated histories (Hypothesis): prior output state x failure cause "
                 "(natural + WILD_VERIF_CRASH at every named point x error/panic) x write mode x fork x threads; "
                 "before/after lstat+SHA-256 snapshot of the output path; plus an exhaustive "
                 "(cause/point/kind x prior x mode) matrix phase")
    rule = ("a history = generated program (0-3 filler objects, optionally archived) + prior output state + link "
            "command + one failure cause; counted only if wild exits non-zero; non-trivial = a prior file exists at "
            "the output path (so there is something to disturb) or the failure happens at/after output creation; "
            "distinct by (cause or point:kind, prior state, write mode, fork, threads, output kind)")
    assumptions = [
        "the statement's 'untouched' is read as: same inode, size, mtime, mode and SHA-256 (for a symlink: same link and an unchanged or absent target)",
        "failures at/after output-file creation are the recorded known finding and are excluded while it is listed as known",
        "only the output path is judged here; siblings are C19's business",
    ]
    quick_cases = 480
    thorough_cases = 12000

    # --------------------------------------------------------------------------------------------
    def strategy(self, tier):
        # While the late-failure finding is listed as known, draw only the points / causes that are not
        # wholly inside its domain (the domain itself is still guarded by excluded_by_construction).
        late_known = all(f"{SIG_LATE}:{k}" in self._known_listed() for k in ("error", "panic"))
        points = EARLY_POINTS + MID_POINTS + ([] if late_known else LATE_POINTS)
        naturals = [n for n in NATURAL if not (late_known and n == "overflow")] + ["nocreate"]
        inject = st.fixed_dictionaries({
            "cause": st.just("inject"),
            "point": st.sampled_from(points),
            "kind": st.sampled_from(["error", "panic"]),
        })
        natural = st.fixed_dictionaries({
            "cause": st.sampled_from(naturals),
            "point": st.just(""), "kind": st.just("error"),
        })
        rest = st.fixed_dictionaries({
            "prior": st.sampled_from(PRIORS),
            "mode": st.sampled_from(MODES),
            "fork": st.booleans(),
            "threads": st.sampled_from(THREADS),
            "shared": st.booleans(),
            "unwritable_dir": st.booleans(),
            # schedule steering: delay (ms) of the background task that creates the output file
            # (hook point `creating-output`, WILD_VERIF_DELAY), so that a mid-link failure can reach
            # the clean-up code before, while or after the file appears
            "delay": st.sampled_from([0, 0, 0, 40, 200]),
            "prog": st.fixed_dictionaries({
                "nobj": st.integers(0, 3),
                "sizes": st.lists(st.sampled_from([1, 7, 64, 300, 4096, 20000]), min_size=1, max_size=3),
                "archive": st.booleans(),
                "pos": st.integers(0, 3),
            }),
        })
        return st.builds(lambda a, b: normalise({**a, **b}), st.one_of(inject, inject, natural), rest)

    def _known_listed(self):
        if not hasattr(self, "_kl"):
            self._kl = {e["signature"] for e in load_known(self.prop) if e.get("status") == "known"}
        return self._kl

    def excluded_by_construction(self, case):
        c = normalise(case)
        if predicted_late(c):
            sig = late_sig(c)
            if sig in self._known_listed():
                return sig
        return None

    # --------------------------------------------------------------------------------------------
    @hist.retry_environmental
    def run_case(self, case, ctx):
        c = normalise(case)
        root = ctx.dir
        w = os.path.join(root, "w")      # cwd: inputs
        od = os.path.join(w, "od")       # directory of the output
        meta = os.path.join(root, "m")   # hook trace (must stay writable for the unprivileged user)
        for p in (w, od, meta):
            os.makedirs(p)
        os.chmod(root, 0o755)
        os.chmod(meta, 0o777)
        nonroot = c["cause"] == "nocreate"
        out_name = "libout.so.1" if c["shared"] else "out.bin"
        out_rel = os.path.join("od", out_name)
        out = os.path.join(w, out_rel)
        args = build_program(w, c["prog"], c["cause"], c["shared"])

        # Prior state of the output path.
        target = None
        if c["prior"] in ("regular", "readonly", "hardlink"):
            tools.write(out, OLD_BYTES)
            os.chmod(out, 0o444 if c["prior"] == "readonly" else 0o755)
            os.utime(out, (OLD_MTIME, OLD_MTIME))
            if c["prior"] == "hardlink":
                os.link(out, os.path.join(od, "peer.keep"))
        elif c["prior"] == "symlink":
            target = os.path.join(od, "real.target")
            tools.write(target, OLD_BYTES)
            os.chmod(target, 0o755)
            os.utime(target, (OLD_MTIME, OLD_MTIME))
            os.symlink("real.target", out)
        if nonroot:
            # Unprivileged run: directory writable or not; a read-only prior file stays root-owned.
            os.chmod(w, 0o755)
            os.chmod(od, 0o555 if (c["unwritable_dir"] or c["prior"] == "absent") else 0o777)

        before = hist.entry(out)
        before_target = hist.entry(target) if target else None
        before_peer = hist.entry(os.path.join(od, "peer.keep")) if c["prior"] == "hardlink" else None

        cmd = list(args) + ["-o", out_rel]
        if c["mode"] == "uip":
            cmd.append("--update-in-place")
        elif c["mode"] == "nouip":
            cmd.append("--no-update-in-place")
        if not c["fork"]:
            cmd.append("--no-fork")
        if c["threads"]:
            cmd.append(f"--threads={c['threads']}")
        trace_path = os.path.join(meta, "points")
        env = {"WILD_VERIF_POINTS": trace_path}
        if c["cause"] == "inject":
            env["WILD_VERIF_CRASH"] = f"{c['point']}:{c['kind']}"
        if c.get("delay"):
            env["WILD_VERIF_DELAY"] = f"creating-output:{c['delay']}"
        res = hist.wild(cmd, cwd=w, env_extra=env, user=hist.NOBODY if nonroot else None)
        if res.timed_out:
            raise Inconclusive("wild timed out")
        try:
            trace = open(trace_path).read().split()
        except OSError:
            trace = []
        what = c["cause"] if c["cause"] != "inject" else f"{c['point']}:{c['kind']}"
        info = {"key": case_key(c), "classes": [f"cause:{what}", f"prior:{c['prior']}", f"mode:{c['mode']}"],
                "counters": {}, "rc": res.rc}
        if res.rc == 0:
            # Not a failed link: outside this property.
            info["nontrivial"] = False
            info["classes"].append("exit0-not-a-failed-link")
            return info
        if c["cause"] == "inject" and "verif: injected" not in res.err:
            raise Inconclusive(f"injected fault {what} did not fire: rc={res.rc} {res.err[-300:]}")
        expected_text = {"undef": "Undefined symbol", "dup": "Duplicate symbols", "overflow": "outside of bounds",
                         "assert": "verif-assert", "nocreate": "Failed to open"}.get(c["cause"])
        if expected_text and expected_text not in res.err:
            raise Inconclusive(f"cause {c['cause']} failed differently than constructed: {res.err[-400:]}")

        created = "output-created" in trace
        late = created or predicted_late(c)
        after = hist.entry(out)
        effect = None
        if after is None:
            pass  # nothing is there: allowed
        elif not hist.same_entry(before, after):
            if before is None:
                effect = "new-file-left"
            elif after.get("ino") != before.get("ino") or after["t"] != before["t"]:
                effect = "previous-file-replaced"
            elif after.get("sha") != before.get("sha") or after.get("target") != before.get("target"):
                effect = "previous-file-modified-in-place"
            else:
                effect = "previous-file-metadata-changed"
        elif target is not None:
            after_target = hist.entry(target)
            if after_target is not None and not hist.same_entry(before_target, after_target):
                effect = "symlink-target-modified"
        if effect:
            sig = late_sig(c) if late else f"early-failure-touches-output:{effect}"
            raise Violation(sig,
                            f"wild exited {res.rc} ({what}) but the output path `{out_rel}` is neither absent nor "
                            f"untouched: {effect} [{hist.describe_change(before, after)}]; prior={c['prior']} "
                            f"mode={c['mode']} fork={c['fork']} threads={c['threads']} shared={c['shared']}",
                            {"cmd": cmd, "env": env, "before": before, "after": after, "trace": trace,
                             "stderr": res.err[-400:]})
        if before_peer is not None:
            after_peer = hist.entry(os.path.join(od, "peer.keep"))
            if not hist.same_entry(before_peer, after_peer):
                info["classes"].append("note:hardlink-peer-changed")
        info["classes"].append("phase:late" if late else "phase:early")
        if c.get("delay") and "creating-output" in trace:
            info["classes"].append("delayed-background-creation" + (":mid-failure" if late and not created else ""))
        info["classes"].append("after:absent" if after is None else "after:untouched")
        info["nontrivial"] = bool(c["prior"] != "absent" or late)
        return info

    # --------------------------------------------------------------------------------------------
    def extra_phases(self, tier, seed, stats):
        """Exhaustive matrix: every (cause | point x kind) x prior x write mode cell once, with fork /
        threads / output kind rotated deterministically from the seed and the cell index."""
        cells = []
        whats = [("inject", p, k) for p in EARLY_POINTS + MID_POINTS + LATE_POINTS for k in ("error", "panic")]
        whats += [(n, "", "error") for n in NATURAL + ["nocreate"]]
        i = 0
        for cause, point, kind in whats:
            for prior in PRIORS:
                for mode in MODES:
                    r = (seed * 7919 + i * 31) & 0xffff
                    cells.append(normalise({
                        "cause": cause, "point": point, "kind": kind, "prior": prior, "mode": mode,
                        "fork": bool(r & 1), "threads": THREADS[(r >> 1) % 4], "shared": bool((r >> 3) & 1),
                        "unwritable_dir": bool((r >> 4) & 1), "delay": [0, 200][(r >> 8) & 1],
                        "prog": {"nobj": (r >> 5) % 3, "sizes": [64, 4096], "archive": bool((r >> 7) & 1), "pos": 0},
                    }))
                    i += 1
        # De-duplicate cells that normalise() collapsed.
        seen, uniq = set(), []
        for c in cells:
            k = case_key(c) + str(c["unwritable_dir"])
            if k not in seen:
                seen.add(k)
                uniq.append(c)
        known = load_known(self.prop)
        scratch = os.path.join(os.environ.get("VERIF_SCRATCH", "/dev/shm"), f"verif-{os.getpid()}-m")
        nthreads = 6
        results = [None] * nthreads
        failures = []
        lock = threading.Lock()

        def work(t):
            s = Stats()
            ctx = Ctx(self, tier, os.path.join(scratch, f"t{t}"))
            os.makedirs(ctx.root, exist_ok=True)
            try:
                for c in uniq[t::nthreads]:
                    try:
                        evaluate(self, c, ctx, s, known)
                    except Violation as v:
                        v.case = c
                        with lock:
                            failures.append(v)
                    except Inconclusive as e:
                        # one undecided cell (a timeout on a loaded machine) is counted, not fatal (core.run_check)
                        s.extra["inconclusive_cases"] = s.extra.get("inconclusive_cases", 0) + 1
                        if len(s.inconclusive_samples) < 3:
                            s.inconclusive_samples.append(str(e)[:600])
            finally:
                ctx.cleanup()
            results[t] = s

        ths = [threading.Thread(target=work, args=(t,)) for t in range(nthreads)]
        for t in ths:
            t.start()
        for t in ths:
            t.join()
        shutil.rmtree(scratch, ignore_errors=True)
        n = 0
        for s in results:
            if s is not None:
                n += s.evaluations + sum(s.excluded_known.values())
                stats.merge(s)
        stats.extra["matrix_cells"] = len(uniq)
        for v in sorted(failures, key=lambda v: v.signature):
            stats.violations.append({"signature": v.signature, "message": v.message, "detail": v.detail,
                                     "case": v.case})


CHECK = C18()
