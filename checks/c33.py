"""C33 — `--wrap` redirects references exactly as GNU ld does.

Domain: 1..3 base names S (function or data), each wrapped (`--wrap=S`) or not (control);
2..5 files (objects, one-member archives placed in a trailing --start-group, shared libraries);
each of S / __wrap_S is defined in at most one file (strong or weak); every file may reference
S, __wrap_S and __real_S strongly or weakly — from the defining object, other objects, archive
members; output static or dynamic (optionally PIE) executable; `--wrap` for names that are never
referenced or never defined.

Observation: definitions carry IDs, references are registry entries printed at run time.

Oracle: model transcribed from the statement — an *undefined* reference to S (the file does not
define S) binds to __wrap_S; a reference to __real_S binds to S; references to S inside the
object that defines S are unaffected — followed by ordinary resolution (undefined strong = error,
undefined weak = 0, archive members loaded for the renamed target).  Reference: GNU ld on the same
command line.  VIOLATION only when wild != model and GNU ld == model; ld != model -> OracleSplit.
"""
from hypothesis import strategies as st

from vlib import symgen, tools
from vlib.core import Check, Discard, Inconclusive, OracleSplit, Violation

WHICH = ["S", "wrap", "real"]


def symname(i, which):
    base = f"fn{i}"
    return {"S": base, "wrap": f"__wrap_{base}", "real": f"__real_{base}"}[which]


def def_id(fi, i, which):
    return 0x1000 * (fi + 1) + i * 4 + WHICH.index(which) + 1


def site_id(fi, i, which):
    return fi * 64 + i * 4 + WHICH.index(which)


def raw_strategy():
    # An input may itself define a symbol called __real_S (e.g. a fallback so that the code links
    # without --wrap); GNU ld ignores it for references from other objects.
    d = st.tuples(st.integers(0, 2), st.sampled_from(["S", "S", "S", "wrap", "wrap", "real"]),
                  st.sampled_from(["strong", "strong", "weak"])).map(list)
    r = st.tuples(st.integers(0, 2), st.sampled_from(["S", "S", "wrap", "real", "real"]),
                  st.sampled_from([False, False, False, True])).map(list)
    f = st.fixed_dictionaries({
        "kind": st.sampled_from(["obj", "obj", "obj", "obj", "ar", "so"]),
        "defs": st.lists(d, min_size=0, max_size=3),
        "refs": st.lists(r, min_size=0, max_size=5),
    })
    return st.fixed_dictionaries({
        "names": st.lists(st.fixed_dictionaries({"kind": st.sampled_from(["func", "func", "data"]),
                                                 "wrapped": st.sampled_from([True, True, True, False])}),
                          min_size=1, max_size=3),
        "files": st.lists(f, min_size=2, max_size=5),
        "pie": st.booleans(),
        "fill": st.lists(st.integers(0, 7), min_size=6, max_size=6),
        "undef_ok": st.sampled_from([False, False, False, True]),
    })


def normalize(case):
    if "fill" not in case:
        return case
    nn = len(case["names"])
    files = []
    taken = set()
    for f in case["files"]:
        defs, refs = [], []
        for i, which, strength in f["defs"]:
            i %= nn
            if (i, which) in taken:
                continue
            taken.add((i, which))
            defs.append([i, which, strength])
        seen = set()
        for i, which, weak in f["refs"]:
            i %= nn
            if (i, which) in seen:
                continue
            if which == "real" and not case["names"][i]["wrapped"]:
                continue
            seen.add((i, which))
            refs.append([i, which, bool(weak)])
        if f["kind"] == "so":
            refs = []
        files.append({"kind": f["kind"], "defs": sorted(defs), "refs": sorted(refs)})
    # Unless undefined targets are asked for, define every referenced S / __wrap_S somewhere.
    if not case["undef_ok"]:
        for i in range(nn):
            for wi, which in enumerate(("S", "wrap")):
                if (i, which) in taken:
                    continue
                wrapped = case["names"][i]["wrapped"]
                needed = any(r[0] == i and (r[1] == which or (which == "S" and r[1] == "real") or
                                            (which == "wrap" and r[1] == "S" and wrapped))
                             for f in files for r in f["refs"])
                if needed:
                    tgt = files[case["fill"][i * 2 + wi] % len(files)]
                    tgt["defs"] = sorted(tgt["defs"] + [[i, which, "strong"]])
                    taken.add((i, which))
    has_so = any(f["kind"] == "so" for f in files)
    return {"names": case["names"], "files": files, "pie": bool(case["pie"]) and has_so}


def target_of(case, f, i, which):
    """The statement's redirection: name the reference really asks for."""
    wrapped = case["names"][i]["wrapped"]
    defines_s = any(d[0] == i and d[1] == "S" for d in f["defs"])
    if which == "S":
        return "wrap" if (wrapped and not defines_s) else "S"
    if which == "real":
        defines_real = any(d[0] == i and d[1] == "real" for d in f["defs"])
        return "S" if (wrapped and not defines_real) else "real"
    return "wrap"


def model(case):
    files = case["files"]
    where = {}
    for fi, f in enumerate(files):
        for i, which, _ in f["defs"]:
            where[(i, which)] = fi
    loaded = [f["kind"] != "ar" for f in files]
    changed = True
    while changed:
        changed = False
        for fi, f in enumerate(files):
            if not loaded[fi] or f["kind"] == "so":
                continue
            for i, which, weak in f["refs"]:
                if weak:
                    continue
                t = where.get((i, target_of(case, f, i, which)))
                if t is not None and not loaded[t]:
                    loaded[t] = True
                    changed = True
    sites, error = {}, False
    for fi, f in enumerate(files):
        if not loaded[fi] or f["kind"] == "so":
            continue
        for i, which, weak in f["refs"]:
            tw = target_of(case, f, i, which)
            t = where.get((i, tw))
            if t is None or not loaded[t]:
                # A definition in the same file makes the symbol non-weak-undefined... not possible
                # here: (i, tw) defined in f means t == fi and loaded.
                if not weak:
                    error = True
                sites[site_id(fi, i, which)] = None
            else:
                sites[site_id(fi, i, which)] = def_id(t, i, tw)
    return {"sites": sites, "error": error, "loaded": loaded}


KNOWN_NO_WRAPPER = "wrap-symbol-undefined-falls-back-to-S"


def no_wrapper_sites(case, m):
    """Exact domain of the known finding (one root cause: wild implements --wrap as a name->id
    override that exists only when __wrap_S resolves to a loaded definition; otherwise the
    reference keeps the *name* S):
    (a) an undefined reference to a wrapped S (from a loaded file that does not define S) when no
        input file defines __wrap_S: GNU ld leaves it pointing at the undefined __wrap_S (error if
        non-weak, 0 if weak); wild binds it to S;
    (b) a weak such reference when __wrap_S is defined only in an archive member that stays
        unloaded and a shared library defines S: GNU ld emits the weak undefined dynamic symbol
        __wrap_S (0 at run time); wild emits it under the name S, which ld.so binds to the library."""
    where = {(i, which): fi for fi, f in enumerate(case["files"]) for i, which, _ in f["defs"]}
    out = []
    for fi, f in enumerate(case["files"]):
        if not m["loaded"][fi] or f["kind"] == "so":
            continue
        for i, which, weak in f["refs"]:
            if which != "S" or target_of(case, f, i, which) != "wrap":
                continue
            wf = where.get((i, "wrap"))
            sf = where.get((i, "S"))
            if wf is None:
                out.append((site_id(fi, i, which), weak))
            elif weak and not m["loaded"][wf] and sf is not None and case["files"][sf]["kind"] == "so":
                out.append((site_id(fi, i, which), weak))
    return out


KNOWN_REAL_FALLBACK = "real-ref-falls-back-to-defined-__real_S"


def real_fallback_sites(case, m):
    """Exact domain of the second known finding (same root cause as KNOWN_NO_WRAPPER: the override only
    exists when its target resolves): a reference to __real_S for a wrapped S when no loaded input
    defines S but some input defines a symbol literally called __real_S. GNU ld redirects the
    reference to the undefined S (error if non-weak, 0 if weak); wild binds it to that __real_S."""
    where = {(i, which): fi for fi, f in enumerate(case["files"]) for i, which, _ in f["defs"]}
    out = []
    for fi, f in enumerate(case["files"]):
        if not m["loaded"][fi] or f["kind"] == "so":
            continue
        for i, which, weak in f["refs"]:
            if which != "real" or target_of(case, f, i, which) != "S":
                continue
            sf = where.get((i, "S"))
            if (sf is None or not m["loaded"][sf]) and (i, "real") in where:
                out.append((site_id(fi, i, which), weak))
    return out


def build_inputs(case, d):
    objs, ars = [symgen.runtime_obj(d)], []
    for fi, f in enumerate(case["files"]):
        spec = {"defs": [], "refs": []}
        for i, which, strength in f["defs"]:
            spec["defs"].append({"name": symname(i, which), "kind": case["names"][i]["kind"], "strength": strength,
                                 "id": def_id(fi, i, which)})
        for i, which, weak in f["refs"]:
            spec["refs"].append({"name": symname(i, which), "kind": case["names"][i]["kind"], "weak": weak,
                                 "site": site_id(fi, i, which)})
        if f["kind"] == "obj":
            symgen.build_obj(spec, f"f{fi}.o", d)
            objs.append(f"f{fi}.o")
        elif f["kind"] == "so":
            symgen.build_shared(spec, f"libs{fi}.so", d, soname=f"libs{fi}.so")
            objs.append(f"./libs{fi}.so")
        else:
            symgen.build_obj(spec, f"m{fi}.o", d)
            symgen.ar(f"liba{fi}.a", [f"m{fi}.o"], cwd=d)
            ars.append(f"liba{fi}.a")
    if ars:
        objs += ["--start-group", *ars, "--end-group"]
    return objs


def classify(case, m):
    classes = set()
    nontrivial = False
    parts = []
    for i, n in enumerate(case["names"]):
        if not n["wrapped"]:
            classes.add("control-unwrapped")
        def_file = next((fi for fi, f in enumerate(case["files"]) if any(d[0] == i and d[1] == "S" for d in f["defs"])), None)
        wrap_file = next((fi for fi, f in enumerate(case["files"]) if any(d[0] == i and d[1] == "wrap" for d in f["defs"])), None)
        intra = inter = real = False
        for fi, f in enumerate(case["files"]):
            for ri, which, weak in f["refs"]:
                if ri != i:
                    continue
                if which == "S" and fi == def_file:
                    intra = True
                elif which == "S":
                    inter = True
                elif which == "real":
                    real = True
        if n["wrapped"]:
            if intra:
                classes.add("S-ref-in-defining-object")
            if inter:
                classes.add("S-ref-from-other-file")
            if real:
                classes.add("real-ref")
            if inter and wrap_file is None:
                classes.add("wrap-undefined")
            if real and def_file is None:
                classes.add("real-of-undefined-S")
            if def_file is not None:
                classes.add("S-in-" + case["files"][def_file]["kind"])
            if wrap_file is not None:
                classes.add("wrap-in-" + case["files"][wrap_file]["kind"])
            if not (intra or inter or real):
                classes.add("wrap-unreferenced-name")
            if inter and (intra or real):
                nontrivial = True
        parts.append(f"{n['kind'][0]}{int(n['wrapped'])}")
    if m["error"]:
        classes.add("expect-error")
    if case["pie"]:
        classes.add("pie")
    key = ",".join(parts) + "|" + ";".join(
        f"{f['kind']}:" + ",".join(f"{i}{w[0]}{s[0]}" for i, w, s in f["defs"]) + "<" +
        ",".join(f"{i}{w[0]}{'w' if wk else ''}" for i, w, wk in f["refs"]) for f in case["files"])
    return nontrivial, key, sorted(classes)


class C33(Check):
    prop = "C33"
    level = "exploration"
    technique = ("differential PBT vs GNU ld + model of the stated --wrap rules: generated objects/archives/shared "
                 "libraries defining and referencing S, __wrap_S, __real_S; IDs reached are printed at run time")
    rule = ("Hypothesis-generated: 1-3 names (wrapped or control) x 2-5 files (object / archive member / shared library) "
            "with at most one definition of S and of __wrap_S and arbitrary strong/weak references to S/__wrap_S/__real_S; "
            "non-trivial = a wrapped S is referenced from another file and also from its defining object or via "
            "__real_S; distinct by the (definition, reference) table")
    assumptions = ["GNU ld 2.40 is the reference", "archives sit in a trailing --start-group so GNU ld's left-to-right "
                   "extraction coincides with the fixpoint"]
    quick_cases = 400
    thorough_cases = 8000

    def strategy(self, tier):
        return raw_strategy().map(normalize)

    @symgen.memo_run_case
    def run_case(self, case, ctx):
        d = ctx.dir
        m = model(case)
        inputs = build_inputs(case, d)
        has_so = any(f["kind"] == "so" for f in case["files"])
        opts = ["--no-gc-sections"]
        for i, n in enumerate(case["names"]):
            if n["wrapped"]:
                opts.append(f"--wrap={symname(i, 'S')}")
        if has_so:
            opts += ["-dynamic-linker", symgen.DYNLINKER]
        if case["pie"]:
            opts.append("-pie")
        args = opts + inputs
        nontrivial, key, classes = classify(case, m)
        info = {"nontrivial": nontrivial, "key": key, "classes": classes}

        w = symgen.link("wild", [*args, "-o", "w.out"], cwd=d)
        if w.timed_out:
            raise Inconclusive("wild timed out")
        if symgen.wild_crashed(w):
            raise Violation("crash", f"wild crashed: rc={w.rc} {w.err[-400:]}", {"args": args})
        r = symgen.link("ld", [*args, "-o", "r.out"], cwd=d)
        if r.timed_out:
            raise Inconclusive("ld timed out")

        if m["error"]:
            if r.rc == 0:
                raise OracleSplit("model expects an undefined-symbol error but ld accepts")
            if "undefined reference" not in r.err:
                raise OracleSplit("ld fails differently: " + r.err[:200])
            if w.rc == 0:
                raise Violation(self._undef_sig(case, m), "statement and GNU ld reject the link (a redirected reference is "
                                f"undefined: {self._first_line(r.err)}), wild accepts it", {"args": args})
            classes.append("both-reject")
            return info
        if r.rc != 0:
            raise Discard("ld rejects a case the model accepts: " + self._first_line(r.err))
        rr = symgen.run_program(f"{d}/r.out", d)
        if not rr.ok or rr.values != m["sites"]:
            classes.append("split")
            raise OracleSplit(f"ld != model: ld {rr.values if rr.ok else rr.why} model {m['sites']}")
        if w.rc != 0:
            if symgen.wild_unsupported(w):
                raise Discard("wild: unsupported: " + self._first_line(w.err))
            raise Violation("rejects-valid", f"GNU ld links it and its program prints the model's bindings; wild fails: {w.err[-300:]}",
                            {"args": args})
        wr = symgen.run_program(f"{d}/w.out", d)
        if not wr.ok:
            raise Violation("program-fails", f"wild-linked program fails ({wr.why}); ld-linked one prints the model's values",
                            {"args": args})
        if wr.values != m["sites"]:
            diff = sorted(s for s in set(wr.values) | set(m["sites"]) if wr.values.get(s, "-") != m["sites"].get(s, "-"))
            s0 = diff[0]
            fi, i, which = s0 // 64, (s0 % 64) // 4, WHICH[s0 % 4]
            f = case["files"][fi]
            exp_t = target_of(case, f, i, which)
            got = wr.values.get(s0)
            got_t = "null" if got is None else WHICH[(got - 1) % 4]
            defines = any(dd[0] == i and dd[1] == "S" for dd in f["defs"])
            sig = f"ref-{which}{'-in-defining-object' if defines and which == 'S' else ''}:expected-{exp_t}-got-{got_t}"
            if set(diff) <= {s for s, _ in no_wrapper_sites(case, m)}:
                sig = KNOWN_NO_WRAPPER
            elif set(diff) <= {s for s, _ in real_fallback_sites(case, m)}:
                sig = KNOWN_REAL_FALLBACK
            raise Violation(sig, f"file {fi} ({f['kind']}) reference to {symname(i, which)}: statement and GNU ld bind it to "
                            f"{symname(i, exp_t)} ({m['sites'].get(s0)!r}), wild to {got!r} [{got_t}] (sites differing {diff})",
                            {"args": args, "model": m["sites"], "wild": wr.values})
        return info

    @staticmethod
    def _undef_sig(case, m):
        """All expected-undefined strong references lie in the known finding's domain?"""
        known = {s for s, weak in no_wrapper_sites(case, m) if not weak}
        strong_undef = set()
        for fi, f in enumerate(case["files"]):
            if not m["loaded"][fi] or f["kind"] == "so":
                continue
            for i, which, weak in f["refs"]:
                if not weak and m["sites"].get(site_id(fi, i, which), 0) is None:
                    strong_undef.add(site_id(fi, i, which))
        if strong_undef and strong_undef <= known:
            return KNOWN_NO_WRAPPER
        known2 = {s for s, weak in real_fallback_sites(case, m) if not weak}
        if strong_undef and strong_undef <= (known | known2):
            return KNOWN_REAL_FALLBACK
        return "undefined-target-accepted"

    def excluded_by_construction(self, case):
        m = model(case)
        if no_wrapper_sites(case, m):
            return KNOWN_NO_WRAPPER
        return KNOWN_REAL_FALLBACK if real_fallback_sites(case, m) else None

    @staticmethod
    def _first_line(err):
        import re
        lines = [l for l in err.strip().split("\n") if l.strip()]
        return re.sub(r"[0-9]+", "N", lines[0])[-70:] if lines else ""


CHECK = C33()
