"""C06 — Output bytes are deterministic.

Inputs: a corpus of mid-size links built once by setup() under $VERIF_TARGET/c06-corpus (static
glibc hello, C++ with exceptions (dynamic PIE), a shared library with 2000 exported versioned
symbols and ~60 undefined references, a -rdynamic PIE with 300 exported functions, a program with
~300 KiB of mergeable strings, a 200-object link with COMDATs / archives / mixed-entsize merge
sections, a linker-script link) plus small programs generated per case.  For every case one
reference link (threads=1, fresh output path, no perturbation) and 4-7 generated variants:
--threads 1..64, WILD_FILES_PER_GROUP, --wild-experiments, taskset affinity, WILD_VERIF_SCHED,
--no-fork, --no-mmap-output-file, prior state of the output path (absent / shorter / longer /
random bytes of equal length / previous output of this or another link / read-only / currently
executing) x write mode (default / --update-in-place / --no-update-in-place), with
--build-id in {none, fast, sha1, 0x...} as the semantic argument of the class.

Oracle (the statement): every variant's output is byte-identical to the reference; the build-id
note is part of the bytes.  A difference is re-run 20 times and reported when it reproduces at
least twice (scheduling is not ownable).

Known finding (masked for exactly its field and class, counted): `sh_entsize` of an output section
whose input sections declare different entsizes depends on the grouping (`SectionAttributes::apply`
lets the last group's merged value win), and the fast build-id changes as a consequence.  Masked
only when (a) every differing byte lies in such an sh_entsize field or in the build-id descriptor,
(b) at least one sh_entsize differs, (c) both values are 0 or an entsize declared by an input
section mapping to that output section and those inputs are heterogeneous, (d) the variant's
grouping differs from the reference's.  Variants with equal sh_entsize vectors must still be
byte-identical to each other (keeps the build-id clause checked).
"""
import hashlib
import json
import os
import random
import shutil
import signal
import struct
import subprocess

from hypothesis import strategies as st

from vlib import core, tools
from vlib.core import Check, Discard, Inconclusive, Violation
from vlib.elf import Elf, ElfError, ET_REL

CORPUS_VERSION = "c06-v6"
REPLAYS = 20
NEED = 2

FIXED = ["hello_static", "cxx_exc", "shlib2000", "rdynamic_pie", "strings300k", "many_objs", "script_link"]


def corpus_dir():
    return os.path.join(core.TARGET, "c06-corpus")


# ------------------------------------------------------------------------------------------------
# Corpus construction (setup)


def _capture_driver_args(compiler, cargs, cwd):
    """Runs the compiler driver with a fake `ld` that records its argv; returns the cleaned list."""
    bd = os.path.join(cwd, "_bd")
    os.makedirs(bd, exist_ok=True)
    rec = os.path.join(cwd, "_ldargs.txt")
    with open(os.path.join(bd, "ld"), "w") as f:
        f.write('#!/bin/bash\nprintf \'%s\\n\' "$@" > ' + rec + "\nexit 0\n")
    os.chmod(os.path.join(bd, "ld"), 0o755)
    r = tools.run([compiler, "-B" + bd, *cargs, "-o", "_x"], cwd=cwd)
    if r.rc != 0 or not os.path.exists(rec):
        raise Inconclusive(f"could not capture linker arguments from {compiler}: {r.err[:500]}")
    raw = open(rec).read().split("\n")[:-1]
    out = []
    skip = False
    for a in raw:
        if skip:
            skip = False
            continue
        if a in ("-plugin", "-o"):
            skip = True
            continue
        if a.startswith("-plugin-opt=") or a.startswith("--build-id") or a == "-L" + bd or a.startswith("-L_bd"):
            continue
        out.append(a)
    shutil.rmtree(bd, ignore_errors=True)
    os.unlink(rec)
    return out


def _ar_members(path):
    data = open(path, "rb").read()
    if data[:8] != b"!<arch>\n":
        return []
    off = 8
    out = []
    while off + 60 <= len(data):
        name = data[off:off + 16]
        size = int(data[off + 48:off + 58].decode().strip() or "0")
        body = data[off + 60:off + 60 + size]
        if not (name.startswith(b"/ ") or name.startswith(b"// ") or name.startswith(b"/SYM")):
            out.append(body)
        off += 60 + size + (size & 1)
    return out


def _input_entsizes(args, cwd):
    """Maps input section name -> sorted list of sh_entsize values over every relocatable object and
    archive member that the link line names (the domain description of the known finding)."""
    table = {}
    ldirs = []
    static = "-static" in args
    files = []

    def add_file(p):
        if not os.path.isabs(p):
            p = os.path.join(cwd, p)
        if os.path.exists(p):
            files.append(p)

    i = 0
    while i < len(args):
        a = args[i]
        if a.startswith("-L") and len(a) > 2:
            ldirs.append(a[2:])
        elif a in ("-T", "-m", "-z", "-soname", "-dynamic-linker", "-h", "-e", "--hash-style", "-rpath"):
            i += 1
        elif a.startswith("-l") and len(a) > 2:
            nm = a[2:]
            for dd in ldirs:
                dd = dd if os.path.isabs(dd) else os.path.join(cwd, dd)
                so, ar_ = os.path.join(dd, f"lib{nm}.so"), os.path.join(dd, f"lib{nm}.a")
                if not static and os.path.exists(so):
                    head = open(so, "rb").read(4096)
                    if not head.startswith(b"\x7fELF"):
                        for tok in head.decode("latin-1").replace("(", " ").replace(")", " ").split():
                            if tok.endswith(".a") and os.path.exists(tok):
                                files.append(tok)
                    break
                if os.path.exists(ar_):
                    files.append(ar_)
                    break
        elif not a.startswith("-") and (a.endswith(".o") or a.endswith(".a")):
            add_file(a)
        i += 1
    for p in files:
        blobs = _ar_members(p) if p.endswith(".a") else [open(p, "rb").read()]
        for b in blobs:
            try:
                e = Elf(b)
            except (ElfError, struct.error):
                continue
            if e.type != ET_REL:
                continue
            for s in e.sections[1:]:
                if s.type in (2, 3, 4, 9, 17, 18):     # symtab/strtab/rela/rel/group/shndx
                    continue
                table.setdefault(s.name, set()).add(s.entsize)
    return {k: sorted(v) for k, v in table.items()}


def _asm_many(sources, cwd):
    """Assembles {name.o: text}; a handful of processes at a time."""
    procs = []
    for name, text in sources.items():
        spath = os.path.join(cwd, name[:-2] + ".s")
        tools.write(spath, text)
        procs.append((name, subprocess.Popen(["as", "--64", "-o", name, spath], cwd=cwd, stderr=subprocess.PIPE)))
        if len(procs) >= 8:
            for n, p in procs:
                _, err = p.communicate()
                if p.returncode != 0:
                    raise Inconclusive(f"assembling {n}: {err[:300]}")
            procs = []
    for n, p in procs:
        _, err = p.communicate()
        if p.returncode != 0:
            raise Inconclusive(f"assembling {n}: {err[:300]}")


START_S = ".globl _start\n.text\n_start:\n  call vmain\n  mov %eax, %edi\n  mov $60, %eax\n  syscall\n"


def _build_hello_static(d):
    tools.cc('#include <stdio.h>\n#include <string.h>\nint main(int c, char**v){ printf("hello %d %s\\n", c, strerror(c)); return 0; }\n',
             "hello.o", flags=["-O1"], cwd=d)
    return _capture_driver_args("gcc", ["-static", "hello.o"], d)


def _build_cxx(d):
    src = r"""
#include <stdexcept>
#include <string>
#include <vector>
#include <map>
#include <cstdio>
struct E : std::runtime_error { using std::runtime_error::runtime_error; };
template <class T> T thrower(T v) { if (v > 3) throw E("big " + std::to_string(v)); return v + 1; }
int main(int argc, char**) {
  std::map<std::string, std::vector<int>> m;
  int total = 0;
  for (int i = 0; i < 8; i++) {
    try { total += thrower<int>(i + argc); m["k" + std::to_string(i)].push_back(i); total += (int)thrower<long>(i); }
    catch (const E& e) { total += 100; std::printf("%s\n", e.what()); }
    catch (...) { total += 1000; }
  }
  std::printf("%d %zu\n", total, m.size());
  return 0;
}
"""
    tools.cc(src, "cxx.o", flags=["-O1"], cwd=d, compiler="g++", lang="c++")
    return _capture_driver_args("g++", ["cxx.o"], d)


LIBC_FUNCS = ["malloc", "free", "calloc", "realloc", "memcpy", "memmove", "memset", "memcmp", "strlen", "strcpy", "strncpy",
              "strcmp", "strncmp", "strchr", "strrchr", "strstr", "strdup", "printf", "fprintf", "sprintf", "snprintf",
              "puts", "putchar", "fopen", "fclose", "fread", "fwrite", "fseek", "ftell", "fflush", "getenv", "atoi",
              "atol", "strtol", "strtoul", "qsort", "bsearch", "abs", "labs", "rand", "srand", "time", "clock",
              "exit", "abort", "getpid", "read", "write", "open", "close", "lseek", "isatty", "sleep", "usleep",
              "toupper", "tolower", "isalpha", "isdigit", "isspace", "perror"]


def _build_shlib(d):
    lines = ["extern int " + ", ".join(f"{f}()" for f in LIBC_FUNCS) + ";"]
    for i in range(2000):
        callee = LIBC_FUNCS[i % len(LIBC_FUNCS)]
        if i % 33 == 0:
            lines.append(f"int fn_{i:04d}(int x) {{ return x + {i} + (int)(long)&{callee}; }}")
        else:
            lines.append(f"int fn_{i:04d}(int x) {{ return x * {i % 7 + 1} + {i}; }}")
    for i in range(50):
        lines.append(f"int hidden_{i}(int x) {{ return fn_{i:04d}(x) - {i}; }}")
    tools.cc("\n".join(lines) + "\n", "lib.o", flags=["-O1", "-fPIC", "-fno-builtin", "-w"], cwd=d)
    tools.write(f"{d}/v.ver", "V1 { global: fn_0*; };\nV2 { global: fn_1*; local: *; } V1;\n")
    return _capture_driver_args("gcc", ["-shared", "lib.o", "-Wl,--version-script=v.ver", "-Wl,-soname,libc06.so"], d)


def _build_rdynamic(d):
    lines = ["#include <stdio.h>"]
    for i in range(300):
        lines.append(f"int exp_{i}(int x) {{ return x ^ {i * 2654435761 % 65536}; }}")
    lines.append("int main(int c, char **v) { int t = 0; " + " ".join(f"t += exp_{i}(c);" for i in range(0, 300, 7)) +
                 ' printf("%d\\n", t); return 0; }')
    tools.cc("\n".join(lines) + "\n", "rd.o", flags=["-O1", "-fPIE"], cwd=d)
    return _capture_driver_args("gcc", ["-rdynamic", "-pie", "rd.o"], d)


def _build_strings(d):
    rng = random.Random(6006)
    srcs = {}
    main = [START_S, ".globl vmain\nvmain:"]
    words = ["alpha", "beta", "gamma", "delta", "wild", "linker", "merge", "string", "section", "offset"]
    for k in range(6):
        buf = bytearray()
        while len(buf) < 50_000:
            n = rng.randint(0, 4)
            s = " ".join(rng.choice(words) for _ in range(n))
            if rng.random() < 0.3:
                s += str(rng.randint(0, 2000))
            buf += s.encode() + b"\0"
        tools.write(f"{d}/s{k}.bin", bytes(buf))
        srcs[f"s{k}.o"] = (f'.section .rodata.str1.1,"aMS",@progbits,1\n.globl str_{k}\nstr_{k}:\n.incbin "s{k}.bin"\n'
                           f'.section .rodata.cst8,"aM",@progbits,8\n.p2align 3\n.quad {k}, {k + 1}\n'
                           f'.data\n.globl ptr_{k}\nptr_{k}: .quad str_{k} + 17, .rodata.str1.1 + 4000\n')
        main.append(f"  lea ptr_{k}(%rip), %rax\n  mov (%rax), %rax\n  movzbl (%rax), %ecx\n  add %ecx, %ebx")
    main.append("  mov %ebx, %eax\n  and $63, %eax\n  ret")
    srcs["main.o"] = "\n".join(main) + "\n"
    _asm_many(srcs, d)
    return ["main.o"] + [f"s{k}.o" for k in range(6)]


def _build_many(d):
    srcs = {}
    n = 200
    for i in range(n):
        nxt = f"fn_{i + 1}" if i + 1 < n else None
        t = [f'.section .text.fn_{i},"ax",@progbits', f".globl fn_{i}", f"fn_{i}:", f"  call inl_{i % 17}"]
        if nxt:
            t.append(f"  call {nxt}")
        t += [f"  lea msg_{i}(%rip), %rax", f"  add cst_{i}(%rip), %rax", "  ret",
              f'.section .text.inl_{i % 17},"axG",@progbits,inl_{i % 17},comdat', f".weak inl_{i % 17}", f"inl_{i % 17}:",
              f"  mov ${i % 17}, %eax", "  ret",
              '.section .rodata.str1.1,"aMS",@progbits,1', f'msg_{i}: .asciz "message {i % 23}"', f'.asciz "common tail"',
              f'.section .rodata.cst8,"aM",@progbits,8', ".p2align 3", f"cst_{i}: .quad {i % 5}",
              f'.section .data.d_{i},"aw",@progbits', f".globl d_{i}", f"d_{i}: .quad fn_{i}, msg_{i}",
              f'.section .bss.b_{i},"aw",@nobits', f".globl b_{i}", f"b_{i}: .skip {8 + i % 3 * 8}"]
        if i % 5 == 0:
            t += ['.section .init_array,"aw",@init_array', f"  .quad fn_{i}"]
        srcs[f"m{i}.o"] = "\n".join(t) + "\n"
    srcs["main.o"] = START_S + ".globl vmain\nvmain:\n  call fn_0\n  xor %eax, %eax\n  ret\n"
    _asm_many(srcs, d)
    tools.ar("liba.a", [f"m{i}.o" for i in range(120, 160)], cwd=d)
    tools.ar("libb.a", [f"m{i}.o" for i in range(160, 200)], cwd=d)
    return ["main.o"] + [f"m{i}.o" for i in range(120)] + ["liba.a", "libb.a"]


def _build_script(d):
    srcs = {"main.o": START_S + ".globl vmain\nvmain:\n  call a_fn\n  call b_fn\n  mov value(%rip), %eax\n  ret\n"}
    for nm in ("a", "b", "c"):
        srcs[f"{nm}.o"] = (f'.section .text.{nm},"ax",@progbits\n.globl {nm}_fn\n{nm}_fn:\n  lea {nm}_str(%rip), %rax\n  ret\n'
                           f'.section .rodata.str1.1,"aMS",@progbits,1\n{nm}_str: .asciz "script {nm}"\n.asciz "shared"\n'
                           f'.section .rodata.{nm},"a",@progbits\n.quad {nm}_fn\n'
                           f'.section .data.{nm},"aw",@progbits\n.globl {nm}_data\n{nm}_data: .quad {nm}_str\n'
                           f'.section .bss.{nm},"aw",@nobits\n.skip 64\n')
    srcs["a.o"] += ".data\n.globl value\nvalue: .long 7\n"
    _asm_many(srcs, d)
    tools.write(f"{d}/s.ld", """ENTRY(_start)
SECTIONS {
  . = 0x600000;
  .text : { *(.text .text.*) etext_sym = .; }
  . = ALIGN(4096);
  .rodata : { *(.rodata .rodata.*) }
  . = ALIGN(4096);
  .data : { data_begin = .; *(.data .data.*) data_end = .; }
  .bss : { *(.bss .bss.*) }
}
""")
    return ["-T", "s.ld", "main.o", "a.o", "b.o", "c.o"]


BUILDERS = {"hello_static": _build_hello_static, "cxx_exc": _build_cxx, "shlib2000": _build_shlib,
            "rdynamic_pie": _build_rdynamic, "strings300k": _build_strings, "many_objs": _build_many,
            "script_link": _build_script}


def build_corpus():
    root = corpus_dir()
    stamp = os.path.join(root, "corpus.json")
    lock = core._flock(os.path.join(core.TARGET, ".c06corpus.lock"))
    try:
        if os.path.exists(stamp):
            try:
                meta = json.load(open(stamp))
                if meta.get("version") == CORPUS_VERSION:
                    return meta
            except ValueError:
                pass
        shutil.rmtree(root, ignore_errors=True)
        os.makedirs(root)
        meta = {"version": CORPUS_VERSION, "inputs": {}}
        for name in FIXED:
            d = os.path.join(root, name)
            os.makedirs(d)
            args = BUILDERS[name](d)
            meta["inputs"][name] = {"args": args, "entsizes": _input_entsizes(args, d)}
        # helper binaries: a sleeper (for ETXTBSY) and an unrelated small executable
        d = os.path.join(root, "aux")
        os.makedirs(d)
        tools.asm(".globl _start\n_start:\n1: mov $34, %eax\n  syscall\n  jmp 1b\n", "sleeper.o", cwd=d)
        tools.must(tools.link("ld", ["sleeper.o", "-o", "sleeper"], cwd=d), "linking sleeper")
        tools.asm(".globl _start\n_start:\n  mov $60, %eax\n  mov $3, %edi\n  syscall\n.data\n.fill 3000, 1, 0x5a\n", "other.o", cwd=d)
        tools.must(tools.link("ld", ["other.o", "-o", "other"], cwd=d), "linking other")
        with open(stamp, "w") as f:
            json.dump(meta, f)
        return meta
    finally:
        lock.close()


# ------------------------------------------------------------------------------------------------
# Generated small programs


def gen_strategy():
    obj = st.fixed_dictionaries({
        "nfn": st.integers(1, 4),
        "calls": st.lists(st.integers(0, 30), max_size=4),
        "str": st.lists(st.sampled_from(["a", "b", "ab", "abc", "common", "", "zz top", "tail"]), max_size=5),
        "cst": st.sampled_from([0, 0, 4, 8, 16]),
        "plain_rodata": st.booleans(),
        "comdat": st.sampled_from([None, None, 0, 1, 2]),
        "ext": st.lists(st.integers(0, 5), max_size=3),
        "weak": st.booleans(),
        "archive": st.booleans(),
        # the object defines one exported function from a family of names with identical GNU hash (and
        # identical length): sort keys that order symbols by hash / bucket tie there
        "coll": st.sampled_from([None, None, 0, 1]),
    })
    return st.fixed_dictionaries({
        # dynexe: a dynamic executable whose colliding-name functions (and d<i> data) are exported only because
        # helper shared objects on the link line refer to them (exports requested on demand, in traversal order)
        "kind": st.sampled_from(["static", "shared", "shared", "dynexe", "dynexe"]),
        "objs": st.lists(obj, min_size=2, max_size=6),
        "gc": st.booleans(),
    })


def colliding_name(family, i):
    """Name number i (0..7) of a family of 8 names with the same GNU hash: h = h*33 + c, so the two-character
    blocks "ab" and "bA" are interchangeable ('a'*33+'b' == 'b'*33+'A')."""
    return f"cz{family}_" + "".join(("ab", "bA")[(i >> b) & 1] for b in range(3))


def emit_gen(g, d):
    n = len(g["objs"])
    fns = [(i, j) for i, o in enumerate(g["objs"]) for j in range(o["nfn"])]
    srcs = {}
    shared = g["kind"] == "shared"
    for i, o in enumerate(g["objs"]):
        t = []
        for j in range(o["nfn"]):
            t += [f'.section .text.f{i}_{j},"ax",@progbits', f".globl f{i}_{j}", f".type f{i}_{j},@function", f"f{i}_{j}:"]
            for c in o["calls"][j::o["nfn"]]:
                ti, tj = fns[c % len(fns)]
                t.append(f"  call f{ti}_{tj}@PLT" if shared else f"  call f{ti}_{tj}")
            if shared:
                for x in o["ext"]:
                    t.append(f"  call ext_{x}@PLT")
            if o["comdat"] is not None:
                t.append(f"  call cd_{o['comdat']}@PLT" if shared else f"  call cd_{o['comdat']}")
            if o["str"]:
                t.append(f"  lea s{i}_0(%rip), %rax")
            t.append("  ret")
        if o.get("coll") is not None:
            cn = colliding_name(o["coll"], i)
            t += [f'.section .text.{cn},"ax",@progbits', f".globl {cn}", f".type {cn},@function", f"{cn}:",
                  f"  mov ${i}, %eax", "  ret"]
        if o["comdat"] is not None:
            k = o["comdat"]
            t += [f'.section .text.cd_{k},"axG",@progbits,cd_{k},comdat', f".weak cd_{k}", f"cd_{k}:", f"  mov ${k}, %eax", "  ret"]
        if o["str"]:
            t.append('.section .rodata.str1.1,"aMS",@progbits,1')
            for k, s in enumerate(o["str"]):
                t.append(f's{i}_{k}: .asciz "{s}"')
        if o["cst"]:
            t += [f'.section .rodata.cst{o["cst"]},"aM",@progbits,{o["cst"]}', f'.p2align {o["cst"].bit_length() - 1}',
                  ".byte " + ",".join(str((i + b) & 255) for b in range(o["cst"]))]
        if o["plain_rodata"]:
            t += ['.section .rodata,"a",@progbits', f".quad {i}"]
        t += [f'.section .data.d{i},"aw",@progbits', f".globl d{i}", f"d{i}:"]
        t.append(f"  .quad f{i}_0")
        if o["str"]:
            t.append(f"  .quad s{i}_{len(o['str']) - 1}")
        if o["weak"]:
            t += [f".weak wk_{i}", f"  .quad wk_{i}"]
        srcs[f"g{i}.o"] = "\n".join(t) + "\n"
    main = [".globl _start", ".text", "_start:"]
    for i in range(n):
        main.append(f"  call f{i}_0@PLT" if shared else f"  call f{i}_0")
    dsos = []
    if g["kind"] == "dynexe":
        wanted = [colliding_name(o["coll"], i) for i, o in enumerate(g["objs"]) if o.get("coll") is not None]
        wanted += [f"d{i}" for i in range(n)][:3]
        for k, order in enumerate((wanted, wanted[::-1])):
            need = [f".globl need{k}_fn", ".text", f"need{k}_fn:"]
            for w in order:
                need.append(f"  mov {w}@GOTPCREL(%rip), %rax")
            need.append("  ret")
            srcs[f"need{k}.o"] = "\n".join(need) + "\n"
            main.append(f"  call need{k}_fn@PLT")
            dsos.append(f"libneed{k}.so")
    main.append("  mov $60, %eax\n  xor %edi, %edi\n  syscall")
    srcs["gmain.o"] = "\n".join(main) + "\n"
    _asm_many(srcs, d)
    for k, so in enumerate(dsos):
        tools.must(tools.link("ld", ["-shared", "-o", so, f"need{k}.o", "-soname", so], cwd=d), "helper shared object")
    plain = ["gmain.o"] + [f"g{i}.o" for i, o in enumerate(g["objs"]) if not o["archive"]]
    arch = [f"g{i}.o" for i, o in enumerate(g["objs"]) if o["archive"]]
    args = list(plain)
    if arch:
        tools.ar("libg.a", arch, cwd=d)
        args.append("libg.a")
    if shared:
        args = ["-shared", "--hash-style=gnu", "-soname", "libgen.so"] + args
    if dsos:
        args = ["--hash-style=gnu"] + args + dsos
    args.append("--gc-sections" if g["gc"] else "--no-gc-sections")
    return args


# ------------------------------------------------------------------------------------------------
# Strategy


PRIORS = ["absent", "absent", "shorter", "longer", "random_eq", "random_eq", "prev_same", "prev_other", "readonly", "busy"]
MODES = [None, None, "--update-in-place", "--update-in-place", "--no-update-in-place"]


def variant_strategy():
    exp = st.one_of(st.none(), st.tuples(
        st.one_of(st.none(), st.integers(1, 24)),
        st.one_of(st.none(), st.sampled_from([256, 1024, 4096, 65536, 1000000])),
        st.one_of(st.none(), st.integers(1, 50)),
        st.one_of(st.none(), st.sampled_from([1, 2, 5, 40, 150, 1000]))))
    return st.fixed_dictionaries({
        "threads": st.sampled_from([1, 2, 2, 3, 4, 5, 7, 8, 8, 12, 16, 16, 24, 32, 48, 64]),
        "fpg": st.sampled_from([None, None, 1, 2, 3, 7, 64, 256]),
        "exp": exp,
        "aff": st.sampled_from([None, None, None, 1, 2]),
        "sched": st.one_of(st.none(), st.tuples(st.integers(1, 100000), st.sampled_from([50, 200, 600]),
                                                st.sampled_from([20, 100, 500]))),
        "nofork": st.booleans(),
        "nommap": st.sampled_from([False, False, True]),
        "prior": st.sampled_from(PRIORS),
        "mode": st.sampled_from(MODES),
        "seed": st.integers(0, 1 << 30),
    })


def case_strategy(tier):
    return st.fixed_dictionaries({
        "input": st.sampled_from(FIXED + ["gen", "gen", "gen"]),
        "gen": gen_strategy(),
        "build_id": st.sampled_from(["none", "fast", "fast", "sha1", "0x0123456789abcdef0123456789abcdef01234567"]),
        "variants": st.lists(variant_strategy(), min_size=4, max_size=7),
    })


# ------------------------------------------------------------------------------------------------
# Comparison


def grouping_differs(v):
    return v["threads"] > 1 or v["fpg"] is not None or (v["exp"] is not None and (v["exp"][2] is not None or v["exp"][3] is not None))


def analyse_diff(ref, got, ents, v):
    """Returns (signature or None, masked:bool, entsize_vector).  `ents`: input name -> entsizes."""
    try:
        er = Elf(ref)
    except ElfError as x:
        raise Inconclusive(f"reference output unreadable: {x}")
    vec = None
    if len(got) == len(ref):
        try:
            vec = tuple(struct.unpack_from("<Q", got, er.shoff + 64 * i + 56)[0] for i in range(len(er.sections)))
        except struct.error:
            vec = None
    if got == ref:
        return None, False, vec
    if len(got) != len(ref):
        return "size-differs", False, None
    diffs = [i for i in range(len(ref)) if ref[i] != got[i]] if len(ref) < 200_000 else _diff_positions(ref, got)
    # allowed regions of the known finding
    bid = er.section(".note.gnu.build-id")
    allowed = []
    ent_fields = {}
    for s in er.sections:
        fo = er.shoff + 64 * s.index + 56
        ent_fields[s.index] = (fo, fo + 8)
    ent_diff_secs = set()
    rest = []
    for p in diffs:
        hit = False
        if bid is not None and bid.offset + 16 <= p < bid.offset + bid.size:
            hit = True
        else:
            k = (p - er.shoff) // 64 if p >= er.shoff else -1
            if 0 <= k < len(er.sections) and ent_fields[k][0] <= p < ent_fields[k][1]:
                ent_diff_secs.add(k)
                hit = True
        if not hit:
            rest.append(p)
    if not rest and ent_diff_secs and grouping_differs(v):
        ok = True
        for k in ent_diff_secs:
            s = er.sections[k]
            E = set()
            for name, vals in ents.items():
                if name == s.name or name.startswith(s.name + "."):
                    E.update(vals)
            a = s.entsize
            b = struct.unpack_from("<Q", got, ent_fields[k][0])[0]
            if len(E) < 2 or a not in E | {0} or b not in E | {0}:
                ok = False
        if ok:
            return None, True, vec
    # locate the first unexplained difference
    p = (rest or diffs)[0]
    where = "padding-or-headers"
    if p < 64:
        where = "elf-header"
    elif er.phoff <= p < er.phoff + er.phnum * 56:
        where = "program-headers"
    elif er.shoff <= p < er.shoff + 64 * len(er.sections):
        k = (p - er.shoff) // 64
        fld = ["sh_name", "sh_name", "sh_flags", "sh_addr", "sh_offset", "sh_size", "sh_link", "sh_addralign", "sh_entsize"]
        off = (p - er.shoff) % 64
        fi = 0 if off < 4 else 1 if off < 8 else 2 + (off - 8) // 8 if off < 40 else 6 if off < 48 else 7 if off < 56 else 8
        fname = ["sh_name", "sh_type", "sh_flags", "sh_addr", "sh_offset", "sh_size", "sh_link/info", "sh_addralign", "sh_entsize"][fi]
        where = f"shdr.{fname}"
    else:
        for s in er.sections:
            if s.type != 8 and s.size and s.offset <= p < s.offset + s.size:
                where = s.name
                break
    return f"bytes-differ:{where}", False, vec


def _diff_positions(a, b, limit=4096):
    out = []
    step = 1 << 16
    for base in range(0, len(a), step):
        ca, cb = a[base:base + step], b[base:base + step]
        if ca != cb:
            for i in range(len(ca)):
                if ca[i] != cb[i]:
                    out.append(base + i)
                    if len(out) >= limit:
                        return out
    return out


class C06(Check):
    def _entsize_known(self):
        from vlib import core as _core
        return any(e.get('status') == 'known' and e['signature'] == 'entsize-by-grouping' for e in _core.load_known('C06'))

    prop = "C06"
    level = "exploration"
    technique = ("metamorphic PBT: byte comparison of wild's output under generated (threads, files-per-group, experiments, "
                 "affinity, WILD_VERIF_SCHED, fork, mmap, prior-output-state x write-mode) variants against the threads=1 "
                 "fresh-path reference of the same (inputs, semantic arguments) class")
    rule = ("case = one input (7 corpus links or a generated 2-6 object program) x build-id mode x 4-7 generated variants; "
            "non-trivial = >= 1 variant differs from the reference in >= 2 dimensions of which one is partitioning "
            "(threads/files-per-group/experiments) or prior output state; distinct by (input id or generated-program "
            "hash, build-id mode, variant configuration tuples)")
    assumptions = ["the reference is wild itself at threads=1 on a fresh path (metamorphic statement)",
                   "--build-id=uuid excluded by definition",
                   "a difference must reproduce in >= 2 of 20 replays to be reported",
                   "--update-in-place over a currently executing file is documented to fail (not compared)"]
    quick_cases = 96
    thorough_cases = 3000
    max_workers = 16
    case_timeout = 600

    def setup(self, tier):
        self.meta = build_corpus()

    def strategy(self, tier):
        return case_strategy(tier)

    # --------------------------------------------------------------------------------------------
    def _link(self, cwd, args, out, v, bid, d, tag):
        """Runs one wild link. Returns (rc, stderr, bytes or None)."""
        a = [f"--build-id={bid}"]
        env = {"WILD_VALIDATE_OUTPUT": "0"}
        os.makedirs(os.path.dirname(out), exist_ok=True)
        pre = []
        sleeper = None
        if v is None:
            a.append("--threads=1")
        else:
            a.append(f"--threads={v['threads']}")
            if v["nofork"]:
                a.append("--no-fork")
            if v["nommap"]:
                a.append("--no-mmap-output-file")
            if v["mode"]:
                a.append(v["mode"])
            if v["exp"] is not None:
                a.append("--wild-experiments=" + ",".join("_" if x is None else str(x) for x in v["exp"]))
            if v["fpg"] is not None:
                env["WILD_FILES_PER_GROUP"] = str(v["fpg"])
            if v["sched"] is not None:
                env["WILD_VERIF_SCHED"] = "%d:%d:%d" % tuple(v["sched"])
            if v["aff"]:
                cpus = sorted(os.sched_getaffinity(0))
                pick = [cpus[(v["seed"] + k) % len(cpus)] for k in range(v["aff"])]
                pre = ["taskset", "-c", ",".join(map(str, pick))]
            sleeper = self._prepare_prior(out, v, d, tag)
        try:
            r = tools.run([*pre, tools.linker_path("wild"), *a, *args, "-o", out], cwd=cwd, env=env, timeout=180)
            if r.timed_out and sleeper is None:   # overloaded machine: one retry with a long timeout
                if v is not None:
                    self._prepare_prior(out, v, d, tag)
                r = tools.run([*pre, tools.linker_path("wild"), *a, *args, "-o", out], cwd=cwd, env=env, timeout=900)
        finally:
            if sleeper is not None:
                try:
                    os.killpg(sleeper.pid, signal.SIGKILL)
                except ProcessLookupError:
                    pass
                sleeper.wait()
        if r.timed_out:
            raise Inconclusive("wild timed out")
        data = None
        if r.rc == 0:
            try:
                with open(out, "rb") as f:
                    data = f.read()
            except OSError as x:
                return 1, f"output missing after successful link: {x}", None
        return r.rc, r.err, data

    def _prepare_prior(self, out, v, d, tag):
        os.makedirs(os.path.dirname(out), exist_ok=True)
        if os.path.lexists(out):
            os.chmod(out, 0o755)
            os.unlink(out)
        rng = random.Random(v["seed"])
        n = self._reflen
        p = v["prior"]
        aux = os.path.join(corpus_dir(), "aux")
        if p == "absent":
            return None
        if p == "shorter":
            tools.write(out, rng.randbytes(max(1, n // 2 - v["seed"] % 97)))
        elif p == "longer":
            tools.write(out, rng.randbytes(n + 4096 + v["seed"] % 5000))
        elif p in ("random_eq", "readonly"):
            tools.write(out, rng.randbytes(n))
            if p == "readonly":
                os.chmod(out, 0o444)
        elif p == "prev_same":
            tools.write(out, self._refbytes)
            os.chmod(out, 0o755)
        elif p == "prev_other":
            shutil.copy(os.path.join(aux, "other"), out)
        elif p == "busy":
            shutil.copy(os.path.join(aux, "sleeper"), out)
            os.chmod(out, 0o755)
            return subprocess.Popen([out], start_new_session=True, stdout=subprocess.DEVNULL, stderr=subprocess.DEVNULL)
        return None

    def run_case(self, case, ctx):
        d = ctx.dir
        if not hasattr(self, "meta"):
            self.meta = build_corpus()
        info = {"classes": [], "counters": {}}
        if case["input"] == "gen":
            cwd = os.path.join(d, "in")
            os.makedirs(cwd)
            args = emit_gen(case["gen"], cwd)
            ents = _input_entsizes(args, cwd)
            input_id = "gen:" + hashlib.sha1(json.dumps(case["gen"], sort_keys=True).encode()).hexdigest()[:10]
            info["classes"].append("input:gen:" + case["gen"]["kind"])
            colls = [o.get("coll") for o in case["gen"]["objs"] if o.get("coll") is not None]
            if any(colls.count(c) >= 2 for c in colls):
                info["classes"].append("gnu-hash-collision:" + case["gen"]["kind"])
        else:
            cwd = os.path.join(corpus_dir(), case["input"])
            m = self.meta["inputs"][case["input"]]
            args, ents = m["args"], m["entsizes"]
            input_id = case["input"]
            info["classes"].append("input:" + case["input"])
        bid = case["build_id"]
        info["classes"].append("build-id:" + (bid if not bid.startswith("0x") else "hex"))
        self._reflen, self._refbytes = 0, b""
        rc, err, ref = self._link(cwd, args, f"{d}/ref/out.bin", None, bid, d, "ref")
        if rc != 0 or ref is None:
            # the reference must link: corpus inputs are known-good; generated ones may legitimately fail
            if case["input"] == "gen":
                raise Discard("reference link of generated program fails: " + err.strip().split("\n")[0][:60])
            raise Inconclusive(f"reference link of {input_id} failed: {err[:400]}")
        self._reflen, self._refbytes = len(ref), ref
        by_vec = {}
        nontrivial = False
        found = []
        for k, v in enumerate(case["variants"]):
            out = f"{d}/v{k}/out.bin"
            rc, err, got = self._link(cwd, args, out, v, bid, d, f"v{k}")
            vdesc = (f"threads={v['threads']} fpg={v['fpg']} exp={v['exp']} aff={v['aff']} sched={v['sched']} nofork={v['nofork']} "
                     f"nommap={v['nommap']} prior={v['prior']} mode={v['mode']}")
            info["classes"].append("prior:" + v["prior"] + ("+" + v["mode"].strip("-") if v["mode"] else ""))
            dims = int(v["threads"] > 1) + int(v["fpg"] is not None) + int(v["exp"] is not None) + int(v["aff"] is not None) + \
                int(v["sched"] is not None) + int(v["nofork"]) + int(v["nommap"]) + int(v["prior"] != "absent") + int(v["mode"] is not None)
            if dims >= 2 and (grouping_differs(v) or v["exp"] is not None or v["prior"] != "absent"):
                nontrivial = True
            if rc != 0 or got is None:
                if v["prior"] == "busy" and v["mode"] == "--update-in-place":
                    info["classes"].append("busy+update-in-place:documented-error")
                    continue
                if err.startswith("output missing"):
                    sig, msg = "output-missing", err
                else:
                    sig, msg = "variant-link-fails", f"rc={rc} {err.strip()[:300]}"
                n = 0
                for _ in range(REPLAYS):
                    rc2, _e, g2 = self._link(cwd, args, out, v, bid, d, f"v{k}")
                    n += int(rc2 != 0 or g2 is None)
                if n >= NEED:
                    found.append((sig, f"[{input_id} build-id={bid}; {vdesc}] the reference (threads=1, fresh path) links, "
                                  f"this variant fails {n}/{REPLAYS}: {msg}"))
                else:
                    info["counters"]["unreproduced_failure"] = info["counters"].get("unreproduced_failure", 0) + 1
                continue
            sig, masked, vec = analyse_diff(ref, got, ents, v)
            if masked and not ctx.strict and self._entsize_known():
                info["counters"]["masked:entsize-by-grouping"] = info["counters"].get("masked:entsize-by-grouping", 0) + 1
                h = hashlib.sha1(got).hexdigest()
                if vec in by_vec and by_vec[vec][0] != h:
                    sig = "bytes-differ:same-entsize-vector"
                    masked = False
                else:
                    by_vec.setdefault(vec, (h, vdesc))
                    continue
            elif masked:
                sig = "entsize-by-grouping"
            if sig is None:
                continue
            # confirm by repetition
            n = 0
            for _ in range(REPLAYS):
                rc2, _e, g2 = self._link(cwd, args, out, v, bid, d, f"v{k}")
                if rc2 == 0 and g2 is not None:
                    s2, m2, _v = analyse_diff(ref, g2, ents, v)
                    if m2 and ctx.strict:
                        s2 = "entsize-by-grouping"
                    if s2 is not None or (sig == "bytes-differ:same-entsize-vector" and
                                          hashlib.sha1(g2).hexdigest() != by_vec.get(_v, (None,))[0]):
                        n += 1
            if n >= NEED:
                nd = sum(1 for a, b in zip(ref, got) if a != b) if len(ref) == len(got) else -1
                found.append((sig, f"[{input_id} build-id={bid}; {vdesc}] output differs from the threads=1 fresh-path reference "
                              f"({nd} bytes differ, sizes {len(ref)}/{len(got)}); reproduced {n}/{REPLAYS}"))
            else:
                info["counters"]["unreproduced_difference"] = info["counters"].get("unreproduced_difference", 0) + 1
        if found:
            found.sort(key=lambda f: (f[0] == "entsize-by-grouping", f[0]))
            raise Violation(found[0][0], found[0][1])
        info["nontrivial"] = nontrivial
        info["key"] = input_id + "|" + bid[:6] + "|" + hashlib.sha1(json.dumps(case["variants"], sort_keys=True).encode()).hexdigest()[:12]
        info["counters"]["links"] = 1 + len(case["variants"])
        return info


CHECK = C06()
