"""C12 — Relocation overflow is reported exactly when a value doesn't fit.

End-to-end tier (this file): one relocation site per link.  x86-64: a `.reloc` of the generated type
against the symbol `target`, addend A from the case.  Absolute kinds: `--defsym target=S` with
S = X - A.  PC-relative kinds: `--defsym target=site+OFF` (all three linkers evaluate it), so the
computed value X = S + A - P = OFF + A is layout-independent.  Three-way differential: GNU ld and lld both accept -> wild must accept and write
the same bytes (which must be X truncated to the field); both reject -> wild must reject (and not
crash); they disagree -> OracleSplit.  AArch64: lld and a hand-transcribed table of the psABI
overflow checks must agree (else OracleSplit); the instruction word wild writes must equal lld's.

In-process tier (harness/src/c12.rs, run from extra_phases): every x86-64 / AArch64 relocation type
of wild's tables through RelocationKindInfo::write_to_buffer at all boundary classes against the same
rules.
"""
import hashlib
import json
import os
import subprocess
from collections import Counter

from hypothesis import strategies as st

from vlib import core, tools
from vlib.core import Check, Discard, Inconclusive, OracleSplit, Violation
from vlib.elf import Elf

M64 = (1 << 64) - 1


def s64(v):
    v &= M64
    return v - (1 << 64) if v >> 63 else v


# ------------------------------------------------------------------------------------------------
# In-process tier plumbing (shared with c14.py and c11.py).


def run_inproc(check, sub, tier, seed, stats, quick_cases, thorough_cases, prefix="inproc"):
    """Runs `vcheck <sub>` shards like core.run_rust_check does and merges the result into `stats`.
    Raises Violation for the first violation that is not a known finding."""
    known_sigs = [e["signature"] for e in core.load_known(check.prop) if e["status"] == "known"]
    n_cases = quick_cases if tier == "quick" else thorough_cases
    shards = max(1, min(16, core.NWORKERS))
    procs = []
    for i in range(shards):
        wseed = int.from_bytes(hashlib.sha256(f"{check.prop}/{sub}/{seed}/{i}".encode()).digest()[:8], "big") >> 1
        cmd = [check.harness_bin, sub, "--seed", str(wseed), "--cases", str(max(1, n_cases // shards)),
               "--shard", str(i), "--shards", str(shards)]
        if tier == "thorough":
            cmd.append("--thorough")
        for s in known_sigs:
            cmd += ["--known", s]
        procs.append(subprocess.Popen(cmd, stdout=subprocess.PIPE, stderr=subprocess.PIPE, text=True))
    first = None
    ev = 0
    distinct = 0
    inproc_classes = Counter()
    for p in procs:
        out, err = p.communicate(timeout=3600)
        if p.returncode != 0:
            raise Inconclusive(f"vcheck {sub} exited {p.returncode}: {err[-1500:]}")
        o = json.loads(out)
        ev += o["evaluations"]
        distinct += o["distinct_nontrivial"]
        for k, v in o["classes"].items():
            if k.startswith("excluded_known/"):
                stats.excluded_known[k[len("excluded_known/"):]] += v
            else:
                inproc_classes[k] += v
        for k, v in o.get("extra", {}).items():
            key = f"{prefix}_{k}"
            if isinstance(v, (int, float)) and not isinstance(v, bool):
                stats.extra[key] = stats.extra.get(key, 0) + v
            else:
                stats.extra.setdefault(key, v)
        if len(stats.samples) < 6 and o["samples"]:
            stats.samples.append({"case": {"inproc": o["samples"][0]}, "info": {"tier": prefix}})
        for v in o["violations"]:
            if first is None:
                first = v
    stats.evaluations += ev
    # The in-process class histogram is kept apart so that it does not crowd out the end-to-end one.
    stats.extra[f"{prefix}_distinct_classes"] = len(inproc_classes)
    stats.extra[f"{prefix}_classes"] = dict(inproc_classes.most_common(60))
    stats.extra[f"{prefix}_classes_rarest"] = dict(inproc_classes.most_common()[-15:])
    stats.extra[f"{prefix}_evaluations"] = ev
    stats.extra[f"{prefix}_distinct_nontrivial"] = distinct
    # Count the in-process distinct cases in distinct_nontrivial without materialising the keys.
    stats.keys |= {f"{prefix}#{i}" for i in range(min(distinct, 200000))}
    if first is not None:
        v = Violation(first["signature"], first["message"], None)
        v.case = {"inproc": first["case"]}
        raise v


def patient(fn, *a, attempts=3, **kw):
    """Runs a tools.* helper; a timeout (the machine is shared, a 10 ms link can be starved for a minute)
    is retried instead of making the whole run inconclusive.  Returns the last result."""
    r = None
    for _ in range(attempts):
        try:
            r = fn(*a, **kw)
        except Inconclusive as e:
            if "rc=-9" in str(e) or "timed" in str(e):
                r = e
                continue
            raise
        if getattr(r, "timed_out", False):
            continue
        return r
    if isinstance(r, Exception):
        raise r
    return r


def replay_inproc(check, sub, case):
    p = subprocess.run([check.harness_bin, sub, "--replay", json.dumps(case)],
                       stdout=subprocess.PIPE, stderr=subprocess.PIPE, text=True, timeout=600)
    if p.returncode != 0:
        raise Inconclusive(f"vcheck {sub} --replay failed: {p.stderr[-2000:]}")
    out = json.loads(p.stdout)
    if out["violations"]:
        v = out["violations"][0]
        raise Violation(v["signature"], v["message"], None)
    return {"nontrivial": True, "key": "inproc-replay", "classes": ["inproc_replay"]}


# ------------------------------------------------------------------------------------------------
# x86-64 end-to-end.

# name -> (field bytes, pc-relative)
X86 = {
    "R_X86_64_8": (1, False), "R_X86_64_16": (2, False), "R_X86_64_32": (4, False), "R_X86_64_32S": (4, False),
    "R_X86_64_64": (8, False), "R_X86_64_PC8": (1, True), "R_X86_64_PC16": (2, True), "R_X86_64_PC32": (4, True),
    "R_X86_64_PC64": (8, True),
}
# (PLT32 kinds may legitimately be routed through a PLT entry -- wild does so for AArch64 --defsym
# symbols -- so their bytes are not comparable end-to-end; they are covered by the in-process tier.)


def x86_src(rtype, addend, size):
    a = f"{addend:+d}" if addend else ""
    rel = f"  .reloc ., {rtype}, target{a}\n" if rtype else ""
    return (".globl _start\n.globl site\n.globl target\n.text\n_start:\n  nop\nsite:\n" + rel +
            f"  .skip {size}, 0x55\n  .byte 0xaa\n")


# AArch64: name -> (initial instruction word or None for data, data size, pc-relative, page-relative,
#                   psABI accept range [lo, hi) or None = no check, required alignment of X)
A64 = {
    "R_AARCH64_ABS64": (None, 8, False, False, None, 1),
    "R_AARCH64_ABS32": (None, 4, False, False, (-2**31, 2**32), 1),
    "R_AARCH64_ABS16": (None, 2, False, False, (-2**15, 2**16), 1),
    "R_AARCH64_PREL64": (None, 8, True, False, None, 1),
    "R_AARCH64_PREL32": (None, 4, True, False, (-2**31, 2**32), 1),
    "R_AARCH64_PREL16": (None, 2, True, False, (-2**15, 2**16), 1),
    "R_AARCH64_MOVW_UABS_G0": (0xd2800000, 4, False, False, (0, 2**16), 1),
    "R_AARCH64_MOVW_UABS_G0_NC": (0xf2800000, 4, False, False, None, 1),
    "R_AARCH64_MOVW_UABS_G1": (0xd2a00000, 4, False, False, (0, 2**32), 1),
    "R_AARCH64_MOVW_UABS_G1_NC": (0xf2a00000, 4, False, False, None, 1),
    "R_AARCH64_MOVW_UABS_G2": (0xd2c00000, 4, False, False, (0, 2**48), 1),
    "R_AARCH64_MOVW_UABS_G2_NC": (0xf2c00000, 4, False, False, None, 1),
    "R_AARCH64_MOVW_UABS_G3": (0xf2e00000, 4, False, False, None, 1),
    "R_AARCH64_MOVW_SABS_G0": (0xd2800000, 4, False, False, (-2**16, 2**16), 1),
    "R_AARCH64_MOVW_SABS_G1": (0xd2a00000, 4, False, False, (-2**32, 2**32), 1),
    "R_AARCH64_MOVW_SABS_G2": (0xd2c00000, 4, False, False, (-2**48, 2**48), 1),
    "R_AARCH64_LD_PREL_LO19": (0x58000000, 4, True, False, (-2**20, 2**20), 4),
    "R_AARCH64_ADR_PREL_LO21": (0x10000000, 4, True, False, (-2**20, 2**20), 1),
    "R_AARCH64_ADR_PREL_PG_HI21": (0x90000000, 4, True, True, (-2**32, 2**32), 4096),
    "R_AARCH64_ADR_PREL_PG_HI21_NC": (0x90000000, 4, True, True, None, 4096),
    "R_AARCH64_ADD_ABS_LO12_NC": (0x91000000, 4, False, False, None, 1),
    "R_AARCH64_LDST8_ABS_LO12_NC": (0x39400000, 4, False, False, None, 1),
    "R_AARCH64_LDST16_ABS_LO12_NC": (0x79400000, 4, False, False, None, 2),
    "R_AARCH64_LDST32_ABS_LO12_NC": (0xb9400000, 4, False, False, None, 4),
    "R_AARCH64_LDST64_ABS_LO12_NC": (0xf9400000, 4, False, False, None, 8),
    "R_AARCH64_LDST128_ABS_LO12_NC": (0x3dc00000, 4, False, False, None, 16),
    "R_AARCH64_TSTBR14": (0x36000000, 4, True, False, (-2**15, 2**15), 4),
    "R_AARCH64_CONDBR19": (0x54000000, 4, True, False, (-2**20, 2**20), 4),
    "R_AARCH64_MOVW_PREL_G0": (0xd2800000, 4, True, False, (-2**16, 2**16), 1),
    "R_AARCH64_MOVW_PREL_G0_NC": (0xf2800000, 4, True, False, None, 1),
    "R_AARCH64_MOVW_PREL_G1": (0xd2a00000, 4, True, False, (-2**32, 2**32), 1),
    "R_AARCH64_MOVW_PREL_G1_NC": (0xf2a00000, 4, True, False, None, 1),
    "R_AARCH64_MOVW_PREL_G2": (0xd2c00000, 4, True, False, (-2**48, 2**48), 1),
    "R_AARCH64_MOVW_PREL_G2_NC": (0xf2c00000, 4, True, False, None, 1),
    "R_AARCH64_MOVW_PREL_G3": (0xd2e00000, 4, True, False, None, 1),
}


def a64_src(rtype, addend, word, size):
    a = f"{addend:+d}" if addend else ""
    rel = f"  .reloc ., {rtype}, target{a}\n" if rtype else ""
    body = f"  .inst {word:#x}\n" if word is not None else f"  .skip {size}, 0x55\n"
    return (".globl _start\n.globl site\n.globl target\n.text\n_start:\n  nop\nsite:\n" + rel + body +
            "  .inst 0xd503201f\n")


# Field class and X bit range per instruction relocation (AArch64 ELF psABI 5.7.x):
# class in {mov16, movnz, imm19, adr, imm12, imm14}
A64_FIELD = {
    "R_AARCH64_MOVW_UABS_G0": ("mov16", 0), "R_AARCH64_MOVW_UABS_G0_NC": ("mov16", 0),
    "R_AARCH64_MOVW_UABS_G1": ("mov16", 16), "R_AARCH64_MOVW_UABS_G1_NC": ("mov16", 16),
    "R_AARCH64_MOVW_UABS_G2": ("mov16", 32), "R_AARCH64_MOVW_UABS_G2_NC": ("mov16", 32),
    "R_AARCH64_MOVW_UABS_G3": ("mov16", 48),
    "R_AARCH64_MOVW_SABS_G0": ("movnz", 0), "R_AARCH64_MOVW_SABS_G1": ("movnz", 16), "R_AARCH64_MOVW_SABS_G2": ("movnz", 32),
    "R_AARCH64_LD_PREL_LO19": ("imm19", 2), "R_AARCH64_ADR_PREL_LO21": ("adr", 0),
    "R_AARCH64_ADR_PREL_PG_HI21": ("adr", 12), "R_AARCH64_ADR_PREL_PG_HI21_NC": ("adr", 12),
    "R_AARCH64_ADD_ABS_LO12_NC": ("imm12", 0), "R_AARCH64_LDST8_ABS_LO12_NC": ("imm12", 0),
    "R_AARCH64_LDST16_ABS_LO12_NC": ("imm12", 1), "R_AARCH64_LDST32_ABS_LO12_NC": ("imm12", 2),
    "R_AARCH64_LDST64_ABS_LO12_NC": ("imm12", 3), "R_AARCH64_LDST128_ABS_LO12_NC": ("imm12", 4),
    "R_AARCH64_TSTBR14": ("imm14", 2), "R_AARCH64_CONDBR19": ("imm19", 2),
    "R_AARCH64_MOVW_PREL_G0": ("movnz", 0), "R_AARCH64_MOVW_PREL_G0_NC": ("mov16", 0),
    "R_AARCH64_MOVW_PREL_G1": ("movnz", 16), "R_AARCH64_MOVW_PREL_G1_NC": ("mov16", 16),
    "R_AARCH64_MOVW_PREL_G2": ("movnz", 32), "R_AARCH64_MOVW_PREL_G2_NC": ("mov16", 32),
    "R_AARCH64_MOVW_PREL_G3": ("movnz", 48),
}


def a64_expected_word(rtype, word, x):
    """The instruction word the psABI prescribes for value x (two's complement), from `word`."""
    cls, lo = A64_FIELD[rtype]
    ux = x & M64
    if cls == "mov16":
        return (word & ~(0xffff << 5)) | (((ux >> lo) & 0xffff) << 5)
    if cls == "movnz":
        y = (~ux & M64) if x < 0 else ux
        w = (word & ~(0xffff << 5) & ~(1 << 30)) | (((y >> lo) & 0xffff) << 5)
        return w | (0 if x < 0 else 1 << 30)
    if cls == "imm19":
        return (word & ~(0x7ffff << 5)) | (((ux >> lo) & 0x7ffff) << 5)
    if cls == "imm14":
        return (word & ~(0x3fff << 5)) | (((ux >> lo) & 0x3fff) << 5)
    if cls == "imm12":
        return (word & ~(0xfff << 10)) | (((ux >> lo) & 0xfff) << 10)
    if cls == "adr":
        imm = (ux >> lo) & 0x1fffff
        return (word & ~((3 << 29) | (0x7ffff << 5))) | ((imm & 3) << 29) | ((imm >> 2) << 5)
    raise ValueError(cls)


def boundary_values(lo, hi):
    """Boundary classes of the half-open accept range [lo, hi) plus the generic ones."""
    out = {}
    for name, b in (("lo", lo), ("hi", hi)):
        for d in (-2, -1, 0, 1):
            out[f"{name}{d:+d}"] = b + d
    return out


GENERIC = {"zero": 0, "one": 1, "minus_one": -1, "i64_max": 2**63 - 1, "i64_max-1": 2**63 - 2, "i64_min": -2**63,
           "i64_min+1": -2**63 + 1}


def ranges_for(arch, rtype):
    """Interesting half-open ranges whose boundaries are probed for a type (all plausible
    interpretations of the field: signed, unsigned, either, GNU bitfield)."""
    if arch == "x86_64":
        n = 8 * X86[rtype][0]
        return [(-(1 << (n - 1)), 1 << (n - 1)), (0, 1 << n), (-(1 << n), 1 << n)] if n < 64 else []
    rng = A64[rtype][4]
    if rng is None:
        return [(-2**16, 2**16), (-2**32, 2**32)]
    lo, hi = rng
    return [(lo, hi), (-hi, hi), (0, hi)]


def value_strategy(arch, rtype):
    rs = ranges_for(arch, rtype)
    named = dict(GENERIC)
    for i, (lo, hi) in enumerate(rs):
        for k, v in boundary_values(lo, hi).items():
            named[f"r{i}.{k}"] = v
    named = {k: v for k, v in named.items() if -2**63 <= v < 2**63}
    items = sorted(named.items())
    bound = st.sampled_from(items).map(lambda kv: {"cls": kv[0], "x": kv[1]})
    span = max([hi for _, hi in rs] + [2**16])
    inside = st.integers(-min(span, 2**62), min(span, 2**62) - 1).map(lambda v: {"cls": "random_near", "x": v})
    wide = st.integers(-2**63, 2**63 - 1).map(lambda v: {"cls": "random_64", "x": v})
    return st.one_of(bound, bound, bound, inside, wide)


def case_strategy():
    def for_type(t):
        arch, rtype = t
        addends = st.sampled_from([0, 0, 0, 1, -1, 4, -8, 0x7fffffff, -0x80000000, 2**40 + 8, -(2**40)])
        return st.builds(lambda v, a: {"arch": arch, "type": rtype, "cls": v["cls"], "x": str(v["x"]), "addend": a},
                         value_strategy(arch, rtype), addends)
    types = [("x86_64", t) for t in X86] * 2 + [("aarch64", t) for t in A64]
    return st.sampled_from(types).flatmap(for_type)


# Exact domains of the known findings (excluded by construction, see known_findings.jsonl).
_KNOWN = None


def known_domain(case):
    global _KNOWN
    if _KNOWN is None:
        _KNOWN = {e["signature"] for e in core.load_known("C12") if e["status"] == "known"}
    sig = _known_domain(case)
    return sig if sig in _KNOWN else None


def _known_domain(case):
    if "inproc" in case:
        return None
    x = int(case["x"])
    t = case["type"]
    if t == "R_X86_64_8" and 128 <= x <= 255:
        return "x86_64/R_X86_64_8:rejects-valid"
    if t == "R_X86_64_16" and 32768 <= x <= 65535:
        return "x86_64/R_X86_64_16:rejects-valid"
    if x == 2**63 - 1 and unchecked(case["arch"], t):
        return "no_check:rejects-i64-max"
    if t in ("R_AARCH64_MOVW_PREL_G0", "R_AARCH64_MOVW_PREL_G1", "R_AARCH64_MOVW_PREL_G2"):
        lo, hi = A64[t][4]
        xa = x - x % A64[t][5]
        if not lo <= xa < hi:
            return f"aarch64/{t}:accepts-overflow"
    return None


def unchecked(arch, t):
    """True for relocation types without an overflow check (every 64-bit value must be accepted)."""
    return (arch == "x86_64" and X86[t][0] == 8) or (arch == "aarch64" and A64[t][4] is None)


class C12(Check):
    prop = "C12"
    level = "exploration"
    needs_harness = True
    technique = ("three-way differential PBT (GNU ld, lld, wild) on one-relocation links with the computed value "
                 "placed on every field-boundary class; AArch64: lld + psABI table; in-process proptest tier over "
                 "wild's relocation tables through write_to_buffer with the same rules")
    rule = ("case = (architecture, relocation type, computed value X, addend split); X from the boundary classes "
            "(+-2 around the signed, unsigned, either-sign and GNU-bitfield limits of the field, 0, +-1, i64 "
            "min/max) or random near the field / random 64-bit; the symbol value is derived per linker so that "
            "S + A - P equals X in every link; non-trivial = X within 2 of a boundary of the field or in the gap "
            "between the signed and the unsigned interpretation; distinct by (type, boundary class | exact value)")
    assumptions = ["GNU ld 2.40 and lld 14 are the references for x86-64; lld 14 and the hand-transcribed AArch64 "
                   "psABI overflow table for AArch64 (disagreement -> oracle_split)",
                   "R_AARCH64_CALL26/JUMP26 are not linked end-to-end (range extension thunks replace overflow; C11)",
                   "a wild failure counts as 'rejected' only if it is a diagnostic (non-zero exit, no panic/signal)"]
    quick_cases = 480
    thorough_cases = 40000
    INPROC_QUICK = 1_600_000
    INPROC_THOROUGH = 160_000_000

    def strategy(self, tier):
        return case_strategy()

    # -- helpers -------------------------------------------------------------------------------
    @staticmethod
    def _link(linker, arch, args, d):
        extra = ["-m", "aarch64linux"] if arch == "aarch64" and linker != "ld" else []
        return patient(tools.link, linker, extra + args, cwd=d, timeout=120)

    def run_case(self, case, ctx):
        if "inproc" in case:
            return replay_inproc(self, "c12", case["inproc"])
        d = ctx.dir
        arch, rtype, x, addend = case["arch"], case["type"], int(case["x"]), int(case["addend"])
        if arch == "x86_64":
            size, pcrel = X86[rtype]
            word, page, rng, align = None, False, None, 1
            src = x86_src(rtype, addend, size)
            linkers = ["ld", "lld", "wild"]
        else:
            word, size, pcrel, page, rng, align = A64[rtype]
            x -= x % align
            src = a64_src(rtype, addend, word, size)
            linkers = ["lld", "wild"]
        # Objects depend only on (type, addend): assembled once per worker (clang start-up dominates).
        cache = os.path.join(os.path.dirname(d), "objcache")
        os.makedirs(cache, exist_ok=True)
        obj = os.path.join(cache, f"{rtype}_{addend}.o".replace("-", "m"))
        if not os.path.exists(obj):
            patient(tools.asm, src, obj, arch=arch, cwd=cache)
        res = {}
        for L in linkers:
            # Absolute kinds: target is an absolute symbol with S = X - A.  PC-relative kinds: target is
            # defined relative to the site (`site + OFF`, all three linkers evaluate it), so
            # X = S + A - P = OFF + A whatever the layout; page-relative kinds use X % 4096 == 0, for
            # which Page(P + X) - Page(P) = X.
            s = (x - addend) & M64
            defsym = f"target=site+{s:#x}" if pcrel else f"target={s:#x}"
            r = self._link(L, arch, ["-o", f"{L}.out", obj, "--defsym", defsym], d)
            if r.timed_out:
                raise Inconclusive(f"{L} timed out")
            crashed = r.rc < 0 or "panicked at" in r.err
            data = None
            if r.rc == 0:
                e = Elf(f"{d}/{L}.out")
                site = e.sym("site")
                if site is None:
                    raise Inconclusive(f"{L}: output lacks the symbol `site`")
                data = e.read(site.value, size + 1 if word is None else 8)
            res[L] = (r.rc == 0, data, crashed, r.err.strip()[-300:])
        if res["wild"][2]:
            raise Violation(f"{arch}/{rtype}:crash", f"wild crashed for {rtype} X={x}: {res['wild'][3]}", case)
        refs = [res[L] for L in linkers if L != "wild"]
        if arch == "aarch64":
            table_ok = rng is None or rng[0] <= x < rng[1]
            refs.append((table_ok, refs[0][1] if table_ok else None, False, "psABI table"))
        oks = {r[0] for r in refs}
        cls = self._value_class(arch, rtype, x)
        info = {"classes": [f"{arch}/{rtype}", f"cls/{cls}"], "key": f"{rtype}/{case['cls'] if not case['cls'].startswith('random') else x}",
                "nontrivial": cls != "far"}
        if len(oks) != 1:
            raise OracleSplit(f"{rtype} X={x}: references disagree ({[r[0] for r in refs]})")
        ref_ok = oks.pop()
        wild_ok, wdata, _, werr = res["wild"]
        if ref_ok:
            rdata = refs[0][1]
            if any(r[1] is not None and r[1] != rdata for r in refs):
                raise OracleSplit(f"{rtype} X={x}: references accept but write different bytes")
            if word is None:
                expect = (x & ((1 << (8 * size)) - 1)).to_bytes(size, "little") + (b"\xaa" if arch == "x86_64" else b"\x1f")
                if rdata != expect:
                    raise OracleSplit(f"{rtype} X={x}: reference bytes {rdata.hex()} are not X truncated ({expect.hex()})")
            if not wild_ok:
                sig = "no_check:rejects-i64-max" if x == 2**63 - 1 and unchecked(arch, rtype) else f"{arch}/{rtype}:rejects-valid"
                raise Violation(sig,
                                f"{rtype} with computed value {x} ({x & M64:#x}): {' and '.join(l for l in linkers if l != 'wild')} "
                                f"accept and write {rdata.hex()}; wild fails: {werr}", case)
            if wdata != rdata and word is not None:
                # lld and the psABI text may prescribe different (equivalent) encodings (MOVW_PREL_G3:
                # lld keeps the opcode, the psABI says MOV[NZ]); wild matching either is not judged.
                want = a64_expected_word(rtype, word, x).to_bytes(4, "little")
                if wdata[:4] == want and wdata[4:] == rdata[4:]:
                    raise OracleSplit(f"{rtype} X={x}: lld writes {rdata[:4].hex()}, the psABI encoding is {want.hex()} (wild matches the psABI)")
            if wdata != rdata:
                raise Violation(f"{arch}/{rtype}:wrong-bytes",
                                f"{rtype} with computed value {x}: references write {rdata.hex()}, wild writes {wdata.hex()}", case)
            info["classes"].append("accepted")
        else:
            if wild_ok:
                raise Violation(f"{arch}/{rtype}:accepts-overflow",
                                f"{rtype} with computed value {x} ({x & M64:#x}) does not fit the field: "
                                f"{' and '.join(l for l in linkers if l != 'wild')} reject it, wild links and writes "
                                f"{wdata.hex()} (silently truncated)", case)
            info["classes"].append("rejected")
        return info

    @staticmethod
    def _value_class(arch, rtype, x):
        for lo, hi in ranges_for(arch, rtype):
            if min(abs(x - lo), abs(x - hi)) <= 2:
                return "boundary"
        rs = ranges_for(arch, rtype)
        if rs and rs[0][1] <= x < max(h for _, h in rs):
            return "sign_gap"
        if rs and min(l for l, _ in rs) <= x < rs[0][0]:
            return "sign_gap"
        if abs(x) >= 2**63 - 2:
            return "boundary"
        return "far"

    def excluded_by_construction(self, case):
        return known_domain(case)

    def extra_phases(self, tier, seed, stats):
        run_inproc(self, "c12", tier, seed, stats, self.INPROC_QUICK, self.INPROC_THOROUGH)


CHECK = C12()
