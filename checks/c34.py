"""C34 — linker-diff is quiet on equal binaries and catches broken relocations.

Domain: generated static x86-64 programs (functions calling each other, RIP-relative address
loads, absolute data pointers) linked by wild (with WILD_WRITE_LAYOUT=1) and by GNU ld.
(a) Equal: linker-diff of wild's output against itself and against a byte-identical copy (with
    copied .layout), with and without --wild-defaults, must exit 0.
(b) Corruption: one relocated reference in wild's output (call rel32, lea disp32, or an absolute
    8-byte data pointer) is re-encoded so that it resolves to the address of a *different symbol*;
    linker-diff against the GNU ld output of the same program must report a problem (non-zero
    exit). Sensitivity is measured against a clean baseline: the uncorrupted wild-vs-ld pair must
    be quiet, else the case is discarded.
"""
import os
import shutil
import struct

from hypothesis import strategies as st

from vlib import core, tools
from vlib.core import Check, Discard, Inconclusive, Violation
from vlib.elf import Elf


def spec_strategy():
    def build(nf, nd, bodies, ptrs, corrupt_pick, corrupt_to, dyn):
        return {"nf": nf, "nd": nd, "bodies": [b[:6] for b in bodies[:nf]], "ptrs": ptrs[:nd],
                "pick": corrupt_pick, "to": corrupt_to, "dyn": dyn}
    # call_x: call through the PLT to a function of a helper shared library (only in dynamic programs)
    instr = st.tuples(st.sampled_from(["call", "lea_f", "lea_d", "load_d", "nop", "call_x", "call_x"]), st.integers(0, 63))
    return st.integers(2, 8).flatmap(lambda nf: st.integers(2, 6).flatmap(lambda nd: st.builds(
        build, st.just(nf), st.just(nd),
        st.lists(st.lists(instr, min_size=1, max_size=6), min_size=nf, max_size=nf),
        st.lists(st.tuples(st.sampled_from(["f", "d"]), st.integers(0, 63)), min_size=nd, max_size=nd),
        st.integers(0, 10**6), st.integers(0, 10**6), st.sampled_from([False, True, True]))))


# instruction sizes in bytes and the offset of the relocated field inside the instruction
SIZES = {"call": (5, 1), "lea_f": (7, 3), "lea_d": (7, 3), "load_d": (7, 3), "nop": (1, None), "call_x": (5, 1)}
NX = 4      # functions exported by the helper shared library


def gen(spec, nobj=2):
    """Returns (sources per object, sites). site = (kind, func index, offset of field in function,
    field size, target symbol name)."""
    nf, nd = spec["nf"], spec["nd"]
    srcs = [[] for _ in range(nobj)]
    sites = []
    for i in range(nf):
        o = srcs[i % nobj]
        o.append(f'    .section .text.f{i},"ax",@progbits\n    .globl f{i}\n    .type f{i},@function\nf{i}:\n')
        off = 0
        for (op, t) in spec["bodies"][i]:
            size, fo = SIZES[op]
            if op == "call_x" and not spec.get("dyn"):
                op = "nop"
                size, fo = SIZES[op]
            if op == "call_x":
                tgt = f"x{t % NX}"
                o.append(f"    call {tgt}@PLT\n")
            elif op == "call":
                tgt = f"f{(i + 1 + t % (nf - 1)) % nf}" if nf > 1 else "f0"
                # Calls form a DAG-free graph; the program is never executed, only linked.
                o.append(f"    call {tgt}\n")
            elif op == "lea_f":
                tgt = f"f{t % nf}"
                o.append(f"    leaq {tgt}(%rip), %rax\n")
            elif op == "lea_d":
                tgt = f"d{t % nd}"
                o.append(f"    leaq {tgt}(%rip), %rax\n")
            elif op == "load_d":
                tgt = f"d{t % nd}"
                o.append(f"    movq {tgt}(%rip), %rcx\n")
            else:
                tgt = None
                o.append("    nop\n")
            if fo is not None:
                sites.append((op, f"f{i}", off + fo, 4, tgt, off + size))
            off += size
        o.append(f"    ret\n    .size f{i}, .-f{i}\n")
    for j in range(nd):
        o = srcs[j % nobj]
        kind, t = spec["ptrs"][j]
        tgt = f"f{t % nf}" if kind == "f" else f"d{(j + 1 + t % max(1, nd - 1)) % nd}"
        o.append(f'    .section .data.d{j},"aw",@progbits\n    .globl d{j}\n    .type d{j},@object\n    .balign 8\nd{j}: .quad {tgt}\n    .size d{j}, 8\n')
        sites.append(("abs64", f"d{j}", 0, 8, tgt, None))
    s0 = srcs[0]
    s0.append('    .section .text._start,"ax",@progbits\n    .globl _start\n    .type _start,@function\n_start:\n')
    for i in range(nf):
        s0.append(f"    call f{i}\n")
    for j in range(nd):
        s0.append(f"    leaq d{j}(%rip), %rax\n")
    s0.append("    ret\n    .size _start, .-_start\n")
    return ["".join(s) for s in srcs], sites


class C34(Check):
    prop = "C34"
    level = "exploration"
    technique = "metamorphic PBT of linker-diff: self/identical-copy comparison must be quiet; single-site relocation redirection to another symbol must be reported (baseline wild-vs-ld pair quiet first)"
    rule = ("case = generated static program (2-8 functions, 2-6 data pointers, 2 objects) + index of the site to corrupt + index "
            "of the replacement symbol; every case runs 4 equal-pair comparisons and 1 corruption; non-trivial = the corruption was "
            "applied to a site whose new target is a different symbol of the same kind at a different address and the uncorrupted "
            "wild-vs-ld comparison was quiet; distinct by (site kind, program shape hash)")
    assumptions = ["GNU ld output of the same program is the reference binary, as in wild's own test suite",
                   "corruptions keep the instruction otherwise intact and never point into padding or to another offset of the same symbol"]
    quick_cases = 240
    thorough_cases = 6000

    def strategy(self, tier):
        return spec_strategy()

    def run_case(self, case, ctx):
        d = ctx.dir
        srcs, sites = gen(case)
        objs = []
        for i, s in enumerate(srcs):
            tools.asm(s, f"o{i}.o", cwd=d)
            objs.append(f"o{i}.o")
        args = objs + ["--gc-sections"]
        if case.get("dyn"):
            tools.asm("".join(f"    .globl x{k}\n    .type x{k},@function\nx{k}:\n    mov ${k}, %eax\n    ret\n    .size x{k}, .-x{k}\n"
                              for k in range(NX)), "x.o", cwd=d)
            tools.must(tools.link("ld", ["-shared", "-soname", "libx.so", "x.o", "-o", "libx.so"], cwd=d), "helper shared library")
            # same binding mode and interpreter for both linkers (wild defaults to -z now and emits no PT_INTERP
            # unless asked), so that the uncorrupted pair is quiet
            args = ["-dynamic-linker", "/lib64/ld-linux-x86-64.so.2", "-z", "now"] + args + ["libx.so"]
        w = tools.link("wild", args + ["-o", "w.out"], cwd=d, env={"WILD_WRITE_LAYOUT": "1"})
        if w.rc != 0:
            raise Inconclusive(f"wild failed on a trivial program: {w.err[-300:]}")
        l = tools.link("ld", args + ["-o", "l.out"], cwd=d)
        if l.rc != 0:
            raise Discard("GNU ld rejects the program")
        ld_diff = core.LINKER_DIFF
        classes = []

        def diff(file, ref, defaults=True):
            cmd = [ld_diff] + (["--wild-defaults"] if defaults else []) + ["--colour", "never", "--ref", ref, file]
            if case.get("dyn"):
                # where the JUMP_SLOT/GLOB_DAT relocations live differs by design; irrelevant for code references
                cmd[1:1] = ["--ignore", ".dynamic.DT_RELA,.dynamic.DT_RELAENT"]
            r = tools.run(cmd, cwd=d, timeout=60)
            if r.timed_out or r.rc < 0 or "panicked at" in r.err:
                raise Violation("linker-diff-crash", f"linker-diff crashed/timed out comparing {file} with {ref}: rc={r.rc} {r.err[-300:]}")
            return r

        # (a) equal binaries
        shutil.copy(f"{d}/w.out", f"{d}/copy.out")
        if os.path.exists(f"{d}/w.out.layout"):
            shutil.copy(f"{d}/w.out.layout", f"{d}/copy.out.layout")
        # (linker-diff requires a .layout file next to the file under test, so only wild outputs qualify.)
        for (file, ref, defaults) in (("w.out", "w.out", True), ("w.out", "w.out", False), ("copy.out", "w.out", True),
                                      ("copy.out", "w.out", False)):
            r = diff(file, ref, defaults)
            if r.rc != 0:
                raise Violation("not-quiet-on-equal", f"linker-diff reports differences between {file} and byte-identical {ref} "
                                f"(wild-defaults={defaults}): {r.out[-400:]}")
        # (b) baseline must be quiet
        base = diff("w.out", "l.out")
        if base.rc != 0:
            classes.append("baseline-not-quiet")
            return {"nontrivial": False, "classes": classes, "key": "baseline", "counters": {"baseline_not_quiet": 1}}
        e = Elf(f"{d}/w.out")
        site = sites[case["pick"] % len(sites)]
        kind, holder, foff, fsize, tgt, next_off = site
        hs = e.sym(holder)
        if kind == "call_x":
            # A call through the PLT: the reference resolves to a PLT entry, not to a symbol of the executable.
            # Corruptions: displacements inside the same entry (4, 8, 11), to the neighbouring entries (+-16) and
            # out of the PLT (+-4096).
            if hs is None:
                raise Inconclusive(f"symbol {holder} missing from wild's .symtab")
            place = hs.value + foff
            fo = e.vaddr_to_off(place)
            data = bytearray(open(f"{d}/w.out", "rb").read())
            old = struct.unpack_from("<i", data, fo)[0]
            pc = hs.value + next_off
            oldt = (pc + old) & 0xffffffffffffffff
            sec = next((x for x in e.sections if x.addr <= oldt < x.addr + x.size and x.size), None)
            if sec is None or not sec.name.startswith(".plt"):
                raise Inconclusive(f"call to {tgt} in {holder}+{foff} goes to {oldt:#x} ({sec.name if sec else None}), not into a PLT section")
            delta = [4, 8, 11, 16, -16, 1, 4096, -4096][case["to"] % 8]
            struct.pack_into("<i", data, fo, old + delta)
            with open(f"{d}/bad.out", "wb") as f:
                f.write(data)
            os.chmod(f"{d}/bad.out", 0o755)
            if os.path.exists(f"{d}/w.out.layout"):
                shutil.copy(f"{d}/w.out.layout", f"{d}/bad.out.layout")
            r = diff("bad.out", "l.out")
            ckind = "plt-call-delta:" + ("same-entry" if 0 < delta < 16 else "other-entry" if abs(delta) == 16 else "outside")
            classes.append(f"corrupt:{ckind}")
            if r.rc == 0:
                raise Violation(f"missed-corruption:{ckind}",
                                f"call to {tgt}@PLT in {holder}+{foff:#x} redirected from {oldt:#x} ({sec.name}) by {delta:+d} bytes; "
                                f"linker-diff against the GNU ld output reports nothing", {"stdout": r.out[-300:]})
            return {"nontrivial": True, "key": f"{ckind}/{delta}/{case['nf']}/{core.case_hash(case['bodies'])}", "classes": classes,
                    "counters": {"equal_pairs_checked": 4, "corruptions_detected": 1}}
        ts = e.sym(tgt)
        if hs is None or ts is None:
            raise Inconclusive(f"symbol {holder}/{tgt} missing from wild's .symtab")
        # Replacement target: either a different symbol of the same kind (function/data) at a different
        # address, or the same symbol displaced by a delta (a small offset, or one that only changes the
        # upper half of a 64-bit field).
        prefix = tgt[0]
        cands = [s for s in e.symtab() if s.name.startswith(prefix) and s.name[1:].isdigit() and s.name != tgt
                 and s.value != ts.value and s.shndx != 0]
        mode = case["to"] % 8
        deltas64 = {3: 4, 4: -4, 5: 1 << 32, 6: -(1 << 32), 7: 1 << 45}
        place = hs.value + foff
        fo = e.vaddr_to_off(place)
        data = bytearray(open(f"{d}/w.out", "rb").read())
        if kind == "abs64" and mode in deltas64:
            newval = (ts.value + deltas64[mode]) & 0xffffffffffffffff
            newname = f"{tgt}{deltas64[mode]:+#x}"
            ckind = f"abs64-delta:{'hi' if abs(deltas64[mode]) >= 1 << 32 else 'lo'}"
        elif kind != "abs64" and mode == 7:
            newval = ts.value + 1
            newname = f"{tgt}+1"
            ckind = f"{kind}-delta"
        else:
            if not cands:
                return {"nontrivial": False, "classes": ["no-replacement"], "key": "none"}
            new = sorted(cands, key=lambda s: s.name)[(case["to"] // 8) % len(cands)]
            newval, newname, ckind = new.value, new.name, kind
        if kind == "abs64":
            old = struct.unpack_from("<Q", data, fo)[0]
            if old != ts.value:
                raise Inconclusive(f"site {holder} holds {old:#x}, expected address of {tgt} {ts.value:#x}")
            struct.pack_into("<Q", data, fo, newval)
        else:
            old = struct.unpack_from("<i", data, fo)[0]
            pc = hs.value + next_off
            if (pc + old) & 0xffffffffffffffff != ts.value:
                raise Inconclusive(f"site {holder}+{foff} resolves to {pc + old:#x}, expected {tgt} at {ts.value:#x}")
            struct.pack_into("<i", data, fo, newval - pc)
        with open(f"{d}/bad.out", "wb") as f:
            f.write(data)
        os.chmod(f"{d}/bad.out", 0o755)
        if os.path.exists(f"{d}/w.out.layout"):
            shutil.copy(f"{d}/w.out.layout", f"{d}/bad.out.layout")
        r = diff("bad.out", "l.out")
        classes.append(f"corrupt:{ckind}")
        if r.rc == 0:
            raise Violation(f"missed-corruption:{ckind}",
                            f"{kind} reference in {holder}+{foff:#x} redirected from {tgt} ({ts.value:#x}) to {newname} ({newval:#x}); "
                            f"linker-diff against the GNU ld output reports nothing", {"stdout": r.out[-300:]})
        return {"nontrivial": True, "key": f"{ckind}/{case['nf']}/{case['nd']}/{core.case_hash(case['bodies'])}", "classes": classes,
                "counters": {"equal_pairs_checked": 4, "corruptions_detected": 1}}


CHECK = C34()
