"""C19 — A link touches only its declared outputs.

A case is a history: one directory pre-populated with inputs and generated *siblings* of the
output (names sharing the output's stem: `<stem>.delete`, `.o`, `.d`, `.tmp`, `.layout`, `.trace`,
several-dot names such as `libx.so.1` vs `libx.so.delete`, dot-files, backup names; each a regular
file, a directory, a symlink to an input or a hard link to an input), a prior state of each output
(absent / regular / symlink / hard-linked), and 1-3 link commands -- run concurrently when there
are several -- whose outputs share a stem, each with its own write mode, thread count, fork mode
and requested side files (--dependency-file, WILD_WRITE_LAYOUT=1, WILD_WRITE_TRACE=1,
--write-gc-stats, WILD_SAVE_DIR).

Oracle: snapshot of the whole tree (type, inode, size, mtime, mode, SHA-256 / link target) before
and after *all* processes including wild's forked worker have exited.  Allowed set = the output
paths (and, because they are the same file, the target of an output symlink and the hard-link peer
of a prior output), the requested side files, everything under a requested save directory.  Every
other pre-existing path must be identical; no new path may exist.  On one history in five each
link additionally runs under `strace -f -e trace=%file` and every path it creates, renames,
unlinks, truncates or opens for writing inside the tree must be in the allowed set or be the
link's own transient `<output>.with_extension("delete")` temporary.

Known finding (unchanged tree): in unlink-and-replace mode with more than one thread and an
existing previous output, wild renames the old output to `path.with_extension("delete")` and
unlinks that name -- a user's file of that name is destroyed.  Histories that contain such a
sibling for such a link are excluded by construction while the finding is listed as known; the
same sibling with any other mode / thread count / absent prior output stays in the search.
"""
import os
import re
import threading

from hypothesis import strategies as st

import time

from vlib import faults, hist, tools
from vlib.core import Check, Inconclusive, Violation, load_known

STEMS = ["out", "libx.so", "a.b", "prog-1"]
OUT_SUFFIXES = ["", ".1", ".x", ".y", ".so", ".exe"]
SIB_SUFFIXES = [".delete", ".o", ".d", ".tmp", ".layout", ".trace", "..trace", "~", ".delete.bak", ".bak",
                ".1.delete", ".so.delete", ".x.delete", ".deleted", ".DELETE"]
SIB_KINDS = ["file", "file", "file", "dir", "symlink_input", "hardlink_input", "empty"]
PRIORS = ["absent", "regular", "regular", "regular", "symlink", "hardlink"]
MODES = ["default", "uip", "nouip", "nouip"]
SIG_DELETE = "delete-sibling-clobbered"
FAILS = [None, None, None, "symbols-resolved:error", "layout-done:error", "layout-done:panic", "output-created:error",
         "sections-written:error", "output-flushed:panic", "output-written:error"]
OLD_MTIME = 1_500_000_000


def out_name(stem, suffix):
    return stem + suffix


def sibling_name(stem, sib, links):
    kind, idx = sib["pat"], sib["sfx"]
    sfx = SIB_SUFFIXES[idx % len(SIB_SUFFIXES)]
    if kind == "deltemp":   # exactly the name wild would use as its rename target for link idx
        return delete_temp(links[idx % len(links)])
    if kind == "outsfx":    # the output's own name plus a backup-style suffix (out.old, out.bak, out~, out.orig)
        return links[idx % len(links)]["out"] + [".old", ".bak", "~", ".orig", ".old", ".tmp"][idx % 6]
    if kind == "stem":
        return stem + sfx
    if kind == "dot":
        return "." + stem + sfx
    return stem  # the bare stem itself


def links_of(case):
    """Normalised link list: distinct output names."""
    seen = set()
    out = []
    for ln in case["links"]:
        name = out_name(case["stem"], OUT_SUFFIXES[ln["suffix"] % len(OUT_SUFFIXES)])
        if name in seen:
            continue
        seen.add(name)
        l2 = dict(ln)
        l2["out"] = name
        l2["share_save"] = bool(case.get("share_save"))
        if l2["share_save"]:
            l2["side"] = dict(l2["side"], save=True)    # constructed: every link of the history uses the bundle
        out.append(l2)
    return out


def siblings_of(case, links):
    taken = {l["out"] for l in links}
    for l in links:
        taken |= side_paths(l, as_set=True)
        taken |= {l["out"] + ".real", l["out"] + ".peer"}
    out = {}
    for s in case["siblings"]:
        n = sibling_name(case["stem"], s, links)
        if n in taken or n in out or n in ("main.o", "fill.o"):
            continue
        out[n] = s["kind"]
    return out


def side_paths(l, as_set=False):
    """Relative paths (files or directory roots) the user requested besides the output."""
    side = l["side"]
    p = {}
    if side["dep"]:
        p["dep"] = l["out"] + ".dep"
    if side["gc"]:
        p["gc"] = l["out"] + ".gcstats"
    if side["layout"]:
        p["layout"] = l["out"] + ".layout"
    if side["trace"]:
        p["trace"] = l["out"] + ".trace"
        p["trace2"] = l["out"] + "..trace"  # linker_trace::trace_path for extension-less names
        p["trace3"] = hist.rust_with_extension(l["out"], (os.path.splitext(l["out"])[1][1:] + ".trace"))
    if side["save"]:
        p["save"] = "save-shared" if l.get("share_save") else "save-" + l["out"]
    return set(p.values()) if as_set else p


def effective_unlink_and_replace(l):
    if l["mode"] == "nouip":
        return True
    if l["mode"] == "uip":
        return False
    if l["shared"]:
        return True
    return l["prior"] == "absent"   # default_file_write_mode: metadata(output) fails


def delete_temp(l):
    return hist.rust_with_extension(l["out"], "delete")


def in_known_domain(l, siblings):
    """Exact domain of the known finding for one link."""
    d = delete_temp(l)
    return (effective_unlink_and_replace(l) and l["threads"] != 1 and l["prior"] != "absent"
            and d in siblings and siblings[d] != "dir")


WRITE_CALL = re.compile(r"^(?:\d+\s+)?(rename|renameat|renameat2|unlink|unlinkat|rmdir|mkdir|mkdirat|truncate|"
                        r"link|linkat|symlink|symlinkat|chmod|fchmodat|chown|utimensat|creat|open|openat|openat2)\((.*)$")


def written_paths(strace_text, cwd):
    """Paths inside cwd that a traced process created/renamed/unlinked/truncated/opened for writing."""
    out = set()
    pending = {}
    for line in strace_text.splitlines():
        m = re.match(r"^(\d+)\s+(.*)$", line)
        if not m:
            continue
        pid, rest = m.groups()
        if rest.endswith("<unfinished ...>"):
            pending[pid] = rest[:-len("<unfinished ...>")]
            continue
        mm = re.match(r"^<\.\.\. \w+ resumed>(.*)$", rest)
        if mm:
            if pid not in pending:
                continue
            rest = pending.pop(pid) + mm.group(1)
        m2 = WRITE_CALL.match(rest)
        if not m2:
            continue
        call, args = m2.groups()
        if re.search(r"=\s+-1\s+E", args):
            continue  # failed call changed nothing
        if call in ("open", "openat", "openat2", "creat"):
            if not re.search(r"O_WRONLY|O_RDWR|O_CREAT|O_TRUNC|O_APPEND", args) and call != "creat":
                continue
        strs = hist.STR_RE.findall(args.rsplit(") = ", 1)[0])
        if call in ("link", "linkat", "symlink", "symlinkat"):
            strs = strs[-1:]   # only the created name is written
        at_relative = call.rstrip("2").endswith("at") and not args.startswith("AT_FDCWD")
        for s in strs:
            p = hist._unescape_strace(s)
            if at_relative and not p.startswith("/"):
                continue   # relative to a directory fd we do not track
            full = os.path.normpath(os.path.join(cwd, p))
            if full == cwd or full.startswith(cwd + "/"):
                out.add(os.path.relpath(full, cwd))
    return out


class C19(Check):
    prop = "C19"
    level = "exploration"
    technique = ("history PBT (Hypothesis): generated directory contents x 1-3 (concurrent) link commands x side "
                 "files x write modes; full-tree before/after snapshot against the allowed set after every "
                 "descendant process has exited; strace -f %file as second witness on 1 history in 5")
    rule = ("a history = stem, 1-3 links with distinct outputs sharing the stem (mode, threads, fork, prior output "
            "state, requested side files), 0-6 generated siblings (name pattern x kind); non-trivial = (>=1 sibling "
            "shares the stem and some prior output exists, so the replace-old-output path runs) or >=2 concurrent "
            "links; distinct by (stem, per-link out/mode/threads-class/prior/shared/side set, sibling names+kinds)")
    assumptions = [
        "the target of an output symlink and the hard-link peer of a prior output are the output file itself (same inode); their content may change, they must not disappear",
        "the trace side file may be named <out>.trace or <out>..trace (linker_trace::trace_path)",
        "nlink/ctime of inputs are not compared (a save directory hard-links inputs)",
    ]
    quick_cases = 320
    thorough_cases = 10000
    max_workers = 12

    def strategy(self, tier):
        side = st.fixed_dictionaries({"dep": st.booleans(), "gc": st.booleans(), "layout": st.booleans(),
                                      "trace": st.booleans(), "save": st.sampled_from([False, False, True])})
        link = st.fixed_dictionaries({
            "suffix": st.integers(0, len(OUT_SUFFIXES) - 1),
            "shared": st.booleans(),
            "mode": st.sampled_from(MODES),
            "threads": st.sampled_from([2, 4, 0, 1]),
            "fork": st.booleans(),
            "prior": st.sampled_from(PRIORS),
            # the previous output (a regular file) is a program that is *running* while the link happens: opening it
            # for writing fails with ETXTBSY and the linker takes its replace-the-busy-file path
            "busy": st.sampled_from([False, False, True]),
            "side": side,
            # the statement covers failing links too: an injected failure (WILD_VERIF_CRASH) before, while or
            # after the output is written makes wild run its clean-up paths
            "fail": st.sampled_from(FAILS),
        })
        sib = st.fixed_dictionaries({
            "pat": st.sampled_from(["stem", "stem", "stem", "dot", "bare", "deltemp", "deltemp", "outsfx", "outsfx"]),
            "sfx": st.integers(0, len(SIB_SUFFIXES) - 1),
            "kind": st.sampled_from(SIB_KINDS),
        })
        return st.fixed_dictionaries({
            "stem": st.sampled_from(STEMS),
            "links": st.builds(lambda n, a, b, c: [a, b, c][:n], st.sampled_from([1, 2, 2, 3]), link, link, link),
            "siblings": st.lists(sib, min_size=0, max_size=6),
            "strace": st.sampled_from([False, False, True, False, False]),
            # every link that requests a save directory uses the same one (concurrent builds of variants of
            # one target into a common bundle directory): the bundle is shared, the inputs must survive
            "share_save": st.sampled_from([False, False, True]),
            "nfill": st.integers(0, 2),
        })

    def _known_listed(self):
        if not hasattr(self, "_kl"):
            self._kl = {e["signature"] for e in load_known(self.prop) if e.get("status") == "known"}
        return self._kl

    def excluded_by_construction(self, case):
        links = links_of(case)
        sibs = siblings_of(case, links)
        if any(in_known_domain(l, sibs) for l in links) and SIG_DELETE in self._known_listed():
            return SIG_DELETE
        return None

    # --------------------------------------------------------------------------------------------
    @hist.retry_environmental
    def run_case(self, case, ctx):
        w = os.path.join(ctx.dir, "w")
        os.makedirs(w)
        links = links_of(case)
        sibs = siblings_of(case, links)

        # Inputs.
        main = [".globl _start", ".text", "_start:"]
        inputs = ["main.o"]
        if case["nfill"]:
            main.append("  call fillfn")
            tools.asm(f".globl fillfn\n.text\nfillfn:\n  .fill {300 * case['nfill']}, 1, 0x90\n  ret\n"
                      ".section .rodata\n  .ascii \"filler-rodata\"\n", "fill.o", cwd=w)
            inputs.append("fill.o")
        main += ["  mov $60, %eax", "  xor %edi, %edi", "  syscall", ""]
        tools.asm("\n".join(main), "main.o", cwd=w)
        for f in os.listdir(w):
            os.utime(os.path.join(w, f), (OLD_MTIME, OLD_MTIME))

        # Siblings.
        for name, kind in sorted(sibs.items()):
            p = os.path.join(w, name)
            if kind == "file":
                tools.write(p, f"precious user file {name}\n")
            elif kind == "empty":
                tools.write(p, "")
            elif kind == "dir":
                os.mkdir(p)
                tools.write(os.path.join(p, "inner.keep"), "inner\n")
            elif kind == "symlink_input":
                os.symlink("main.o", p)
            elif kind == "hardlink_input":
                os.link(os.path.join(w, "main.o"), p)
            if kind in ("file", "empty"):
                os.utime(p, (OLD_MTIME, OLD_MTIME))

        # Prior outputs.
        busy_outs = []           # previous outputs that are executed while the links run
        allowed = set()          # may be created / changed / removed
        must_exist = set()       # content may change (same inode as the output) but must stay present
        for l in links:
            out = os.path.join(w, l["out"])
            allowed.add(l["out"])
            if l["prior"] in ("regular", "hardlink"):
                if l.get("busy") and l["prior"] == "regular":
                    if not os.path.exists(os.path.join(ctx.dir, "sleeper")):
                        tools.asm(".globl _start\n_start:\n1:  mov $34, %eax\n    syscall\n    jmp 1b\n", "sleeper.o", cwd=ctx.dir)
                        tools.must(tools.link("ld", ["sleeper.o", "-o", "sleeper"], cwd=ctx.dir), "sleeper program")
                    import shutil
                    shutil.copy(os.path.join(ctx.dir, "sleeper"), out)
                    busy_outs.append(out)
                else:
                    tools.write(out, b"OLD-OUTPUT " * 200)
                os.chmod(out, 0o755)
                os.utime(out, (OLD_MTIME, OLD_MTIME))
                if l["prior"] == "hardlink":
                    os.link(out, out + ".peer")
                    must_exist.add(l["out"] + ".peer")
            elif l["prior"] == "symlink":
                tools.write(out + ".real", b"OLD-OUTPUT " * 200)
                os.chmod(out + ".real", 0o755)
                os.utime(out + ".real", (OLD_MTIME, OLD_MTIME))
                os.symlink(l["out"] + ".real", out)
                must_exist.add(l["out"] + ".real")
            for k, p in side_paths(l).items():
                allowed.add(p)

        def is_allowed(rel):
            if rel in allowed:
                return True
            return any(rel.startswith(a + "/") for a in allowed if a.startswith("save-"))

        before = hist.snapshot(w)
        import subprocess
        sleepers = []
        for bo in busy_outs:
            try:
                sleepers.append(subprocess.Popen([bo], cwd=w, stdin=subprocess.DEVNULL, stdout=subprocess.DEVNULL,
                                                 stderr=subprocess.DEVNULL))
            except OSError as e:
                raise Inconclusive(f"cannot start the previous output: {e}")

        # Commands.
        cmds = []
        for l in links:
            args = (["-shared"] if l["shared"] else []) + inputs + ["-o", l["out"]]
            if l["mode"] == "uip":
                args.append("--update-in-place")
            elif l["mode"] == "nouip":
                args.append("--no-update-in-place")
            if not l["fork"]:
                args.append("--no-fork")
            if l["threads"]:
                args.append(f"--threads={l['threads']}")
            sp = side_paths(l)
            env = {}
            if "dep" in sp:
                args.append(f"--dependency-file={sp['dep']}")
            if "gc" in sp:
                args.append(f"--write-gc-stats={sp['gc']}")
            if "layout" in sp:
                env["WILD_WRITE_LAYOUT"] = "1"
            if "trace" in sp:
                env["WILD_WRITE_TRACE"] = "1"
            if "save" in sp:
                env["WILD_SAVE_DIR"] = sp["save"]
            if l.get("fail"):
                env["WILD_VERIF_CRASH"] = l["fail"]
            cmds.append((l, args, env))

        results = [None] * len(cmds)
        traces = [None] * len(cmds)
        errors = []
        meta = os.path.join(ctx.dir, "m")
        os.makedirs(meta)

        # Links that share one save directory: the harness owns the schedule.  Every such link is paused when it
        # opens its first input (after argument parsing, where the save directory is wiped and re-created, and
        # before the bundle is written); once all are there they are released one after the other, so each later
        # link writes its bundle into a directory that already holds the earlier ones' files.
        pauses = {}
        savers = [i for i, (l, _, _) in enumerate(cmds) if "save" in side_paths(l)]
        if case.get("share_save") and len(savers) >= 2 and not case["strace"]:
            for i in savers:
                pd = os.path.join(meta, f"p{i}")
                os.makedirs(pd)
                pauses[i] = faults.Pause(pd, "opened=main.o")
                cmds[i][2].update(pauses[i].env())

        def coordinate():
            for p in pauses.values():
                p.wait_paused(timeout=30)
            for p in pauses.values():
                p.release()
                try:
                    # the point can be reached again (the same file is opened more than once): never block there
                    os.write(p.wfd, b"g" * 256)
                except (OSError, TypeError):
                    pass
                time.sleep(0.4)

        def run(i):
            l, args, env = cmds[i]
            try:
                if case["strace"]:
                    tf = os.path.join(meta, f"strace{i}.txt")
                    from vlib import core
                    r = hist.run_all(["strace", "-f", "-s", "4096", "-o", tf, "-e", "trace=%file", core.WILD, *args],
                                     cwd=w, env=hist.clean_env(env), timeout=240)
                    try:
                        traces[i] = open(tf, errors="replace").read()
                    except OSError:
                        traces[i] = None
                else:
                    r = hist.wild(args, cwd=w, env_extra=env)
                results[i] = r
            except Exception as e:  # noqa: BLE001
                errors.append(e)

        ths = [threading.Thread(target=run, args=(i,)) for i in range(len(cmds))]
        if pauses:
            ths.append(threading.Thread(target=coordinate))
        for t in ths:
            t.start()
        for t in ths:
            t.join()
        for p in pauses.values():
            p.close()
        for sp in sleepers:
            sp.kill()
            sp.wait()
        if errors:
            e = errors[0]
            raise e if isinstance(e, Inconclusive) else Inconclusive(f"runner failed: {e!r}")
        for r in results:
            if r.timed_out:
                raise Inconclusive("wild timed out")

        after = hist.snapshot(w)

        info = {"classes": [], "counters": {}}
        problems = []
        for rel in sorted(set(before) | set(after)):
            if rel == ".":
                continue
            b, a = before.get(rel), after.get(rel)
            if is_allowed(rel):
                continue
            if rel in must_exist:
                if a is None:
                    problems.append((rel, "same-inode-alias-of-output-removed", b, a))
                continue
            if hist.same_entry(b, a):
                continue
            if b is None:
                problems.append((rel, "stray-file-left", b, a))
            elif a is None:
                problems.append((rel, "file-deleted", b, a))
            else:
                problems.append((rel, "file-modified", b, a))
        if problems:
            rel, how, b, a = problems[0]
            sig = f"{how}"
            culprit = ""
            for l in links:
                if rel == delete_temp(l):
                    culprit = f" (= with_extension(\"delete\") of output `{l['out']}`, mode={l['mode']} shared={l['shared']} threads={l['threads']} prior={l['prior']})"
                    if how in ("file-deleted", "file-modified") and in_known_domain(l, sibs):
                        sig = SIG_DELETE
                    elif how == "stray-file-left":
                        sig = "stray-delete-temp-left"
                    break
            else:
                if rel in ("main.o", "fill.o"):
                    sig = "input-" + how
            raise Violation(sig, f"`{rel}` {how}{culprit}: {hist.describe_change(b, a)}; "
                            f"{len(problems)} path(s) outside the allowed set changed: {[p[0] for p in problems][:6]}",
                            {"links": [(l["out"], a_, e_) for l, a_, e_ in cmds], "siblings": sibs,
                             "rcs": [r.rc for r in results], "stderr": [r.err[-200:] for r in results]})

        # Second witness.
        if case["strace"]:
            for i, (l, args, env) in enumerate(cmds):
                if traces[i] is None:
                    raise Inconclusive("strace produced no output")
                own_temps = {delete_temp(l)}
                for p in sorted(written_paths(traces[i], w)):
                    if is_allowed(p) or p in own_temps or p in must_exist:
                        continue
                    raise Violation("transient-touch-outside-allowed-set",
                                    f"strace: link of `{l['out']}` wrote/renamed/unlinked `{p}` which is neither its "
                                    f"output nor a requested side file", {"args": args, "env": env})
            info["classes"].append("strace-witness")

        # Side files that were requested must exist for successful links (sanity of the allowed set).
        nfail = sum(1 for r in results if r.rc != 0)
        info["counters"]["links_failed"] = nfail
        info["counters"]["links_run"] = len(results)
        for (l, args, env), r in zip(cmds, results):
            info["classes"].append(f"mode:{l['mode']}")
            info["classes"].append("rc0" if r.rc == 0 else "rc!=0")
            if l.get("fail") and r.rc != 0 and "Text file busy" in r.err:
                # the running previous output could not be updated in place: the link failed before the injected point
                info["classes"].append("fails:busy-output")
            elif l.get("fail"):
                if r.rc == 0 or "verif: injected" not in r.err:
                    raise Inconclusive(f"injected failure {l['fail']} did not fire: rc={r.rc} {r.err[-200:]}")
                info["classes"].append("fails-at:" + l["fail"] + ("+layout" if "layout" in side_paths(l) else ""))
            if effective_unlink_and_replace(l) and l["prior"] != "absent" and l["threads"] != 1:
                info["classes"].append("rename-old-output-path-taken")
            if delete_temp(l) in sibs:
                info["classes"].append("has-delete-sibling(outside-known-domain)")
            for k in side_paths(l):
                if not k.startswith("trace") or k == "trace":
                    info["classes"].append("side:" + k)
        stem_sibs = [n for n in sibs if n.startswith(case["stem"]) or n.startswith("." + case["stem"])]
        any_prior = any(l["prior"] != "absent" for l in links)
        info["classes"].append(f"nlinks:{len(links)}")
        if busy_outs:
            info["classes"].append("previous-output-running" + (":with-out-suffix-sibling" if any(
                (bo_rel + sfx) in sibs for bo_rel in (os.path.relpath(b, w) for b in busy_outs)
                for sfx in (".old", ".bak", "~", ".orig", ".tmp")) else ""))
        if case.get("share_save") and sum(1 for l in links if "save" in side_paths(l)) >= 2:
            info["classes"].append("concurrent-links-share-save-dir" + (":scheduled" if pauses else ""))
        info["nontrivial"] = bool((stem_sibs and any_prior) or len(links) >= 2)
        info["key"] = case["stem"] + "|" + ";".join(
            f"{l['out']},{l['mode']},{'t1' if l['threads'] == 1 else 'tN'},{l['prior']},{int(l['shared'])},"
            f"{''.join(sorted(k[0] for k in side_paths(l) if not k.startswith('trace') or k == 'trace'))}"
            f"{',' + l['fail'] if l.get('fail') else ''}"
            for l in links) + "|" + ",".join(f"{n}:{k}" for n, k in sorted(sibs.items()))
        return info


CHECK = C19()
