"""C24 — WILD_SAVE_DIR bundles replay to an identical output.

Case: a generated link command whose *text* is hostile: directory / object / archive / thin
archive / linker script / version script / -L directory / save-directory names and a -soname
value, each built from harmless words plus one character class (whitespace, `$`, backslash,
quotes, shell operators `; & | ( ) < >`, glob characters, brace expansions, `#`, `~`, `=`, other
punctuation, UTF-8, a leading `-`, a very long name), placed at the start or in the middle;
relative / absolute / `dir/../dir` spellings; `-o x`, `-ox`, `--output=x`, `--output x`;
`-Ldir` / `-L dir` + `-l`; response files (optionally nested, entries escaped for wild's own
response-file syntax); INPUT/GROUP scripts with relative or absolute entries; thin archives with
hostile member names; `--version-script=f` / `--version-script f`; option files that are read but
are not inputs (--dynamic-list, --export-dynamic-symbol-list, --retain-symbols-file).

Oracle (round trip, the statement): run 0 `wild <args> -o out1` must succeed (else the command is
outside the domain); run 1 the same with WILD_SAVE_DIR=<d> must succeed and give the same bytes;
run 2 `OUT=rep2/out1 ./<d>/run-with <same wild binary>` must exit 0 and its output must be
byte-identical to out1 (same basename: a shared object's base version definition is named after
the output file, for GNU ld too); then every original input is moved away and run 2 is repeated
(rep3/out1): the bundle must be self-contained.

SAFETY: metacharacters are only ever followed by words from a fixed vocabulary that names no
command, builtin or file; the replay runs with `env -i`, PATH = a directory holding only symlinks
to bash, dirname, mktemp and rm (what the prelude and the response-file stub use), cwd inside the
scratch directory, HOME unset.

Known findings (unchanged tree) are keyed `quoting:<role>:<class>` (role: file-arg = a path that
run-with writes as unquoted `$D/<path>`; plain-arg = any other argument, escaped only for space,
`$` and backslash; rsp-entry = a path inside a saved response file, written without the escaping
wild's own response-file parser needs; save-dir = the bundle directory's own name used unquoted
by the prelude), plus `output-form-not-redirected` (--output forms are not rewritten to $OUT) and
`not-self-contained:<option>` (option files that are not copied).  While a key is listed as known
the generator does not draw it; everything else stays in the search.
"""
import os
import shutil

from hypothesis import strategies as st

from vlib import core, hist, tools
from vlib.core import Check, Discard, Inconclusive, OracleSplit, Violation, load_known

WORDS = ["zq", "qxv", "vzk", "kq7", "wj"]     # name no command / builtin / file
CLASS_CHARS = {
    "plain": [""],
    "space": [" ", "  "],
    "tab": ["\t"],
    "dollar": ["$", "$zq", "${zq}", "$$"],
    "backslash": ["\\", "\\\\", "\\n"],
    "quote": ["'", '"'],
    "backtick": ["`"],
    "shell-operator": [";", "&", "|", "(", ")", "<", ">", "&&", "||", "$(zq)"],
    "glob": ["*", "?", "[", "[a-z]"],
    "brace": ["{zq,qx}", "{1..3}"],
    "hash": ["#"],
    "tilde": ["~"],
    "equals": ["="],
    "misc": ["!", ",", ":", "@", "%", "^", "+"],
    "utf8": ["é", "日本", "ß"],
    "dash": ["-"],
    "long": ["L" * 120],
}
CLASSES = list(CLASS_CHARS)
ROLES = ["file-arg", "plain-arg", "rsp-entry", "save-dir", "thin-member"]
OUT_FORMS = ["-o x", "-ox", "--output=x", "--output x"]
AUX = ["none", "none", "dynamic-list", "export-dynamic-symbol-list", "retain-symbols-file"]
PATH_STYLES = ["rel", "rel", "abs", "dotdot"]
SIG_OUTFORM = "output-form-not-redirected"
SIG_VALUE_IS_PATH = "plain-arg-value-names-copied-path"


def render(spec):
    chars = CLASS_CHARS[spec["cls"]]
    ch = chars[spec["ch"] % len(chars)]
    w = WORDS[spec["w"] % len(WORDS)]
    w2 = WORDS[(spec["w"] + 1 + spec["ch"]) % len(WORDS)]
    return (ch + w + w2) if spec["lead"] else (w + ch + w2)


def hostile(spec):
    return spec is not None and spec["cls"] != "plain"


def rsp_escape(s):
    """Escapes an argument for wild's response-file syntax (backslash before specials)."""
    out = []
    for c in s:
        if c in " \t\n'\"\\":
            out.append("\\")
        out.append(c)
    return "".join(out)


def is_shared(case):
    """-soname / -rpath values only reach the output bytes of a shared object, so they force one."""
    return bool(case["shared"] or case.get("soname") or case.get("rpath"))


def features(case):
    """(signature-key, ...) of every hostile ingredient of the case, in priority order."""
    keys = []
    rsp = case["rsp"]
    in_rsp = [i for i in range(len(case["objs"])) if rsp["use"] and (rsp["which"] >> i) & 1 and i > 0]
    if in_rsp and hostile(case["savedir"]):
        # $D (the bundle directory) is substituted into every saved response-file entry.
        sdcls = case["savedir"]["cls"]
        chars = CLASS_CHARS[sdcls]
        if "&" in chars[case["savedir"]["ch"] % len(chars)]:
            # bash >= 5.2: '&' in the replacement of ${LINE//\$D/$D} stands for the matched text
            sdcls = "ampersand-in-bundle-dir"
        keys.append(f"quoting:rsp-entry:{sdcls}")
    if hostile(case["savedir"]):
        keys.append(f"quoting:save-dir:{case['savedir']['cls']}")
    if in_rsp:
        if hostile(case["dir"]):
            keys.append(f"quoting:rsp-entry:{case['dir']['cls']}")
        for i in in_rsp:
            if hostile(case["objs"][i]):
                keys.append(f"quoting:rsp-entry:{case['objs'][i]['cls']}")
    on_cmd = [i for i in range(len(case["objs"])) if i not in in_rsp]
    if hostile(case["dir"]):   # objs[0] is always on the command line
        keys.append(f"quoting:file-arg:{case['dir']['cls']}")
    for i in on_cmd:
        if hostile(case["objs"][i]):
            keys.append(f"quoting:file-arg:{case['objs'][i]['cls']}")
    for k in ("archive", "script", "vscript", "libdir"):
        v = case[k]
        if k == "vscript" and not is_shared(case):
            continue
        if v and hostile(v["name"]):
            keys.append(f"quoting:file-arg:{v['name']['cls']}")
    if case["thin"]:
        if hostile(case["thin"]["name"]):
            keys.append(f"quoting:file-arg:{case['thin']['name']['cls']}")
    dname = render(case["dir"]) if case["dir"]["lead"] else "d_" + render(case["dir"])
    for opt in ("soname", "rpath"):
        if case.get(opt) and render(case[opt]["value"]) == dname:
            # The value happens to spell a path that was copied into the bundle (the inputs' directory).
            keys.insert(0, SIG_VALUE_IS_PATH)
    for opt in ("soname", "rpath"):
        if case.get(opt) and hostile(case[opt]["value"]):
            v = case[opt]["value"]
            cls = v["cls"]
            if cls == "hash" and v["lead"] and case[opt]["form"] != "eq":
                cls = "hash-at-word-start"    # a separate word starting with '#' is a shell comment
            if (cls == "misc" and v["lead"] and case[opt]["form"] != "eq"
                    and CLASS_CHARS["misc"][v["ch"] % len(CLASS_CHARS["misc"])] == "@"):
                cls = "at-sign-at-word-start"  # save_dir takes every word starting with '@' for a response file
            keys.append(f"quoting:plain-arg:{cls}")
    if case["out_form"].startswith("--output"):
        keys.append(SIG_OUTFORM)
    if case["aux"] != "none":
        keys.append(f"not-self-contained:{case['aux']}")
    if case["thin"]:
        for m in case["thin"]["members"]:
            if hostile(m):
                keys.append(f"quoting:thin-member:{m['cls']}")
    return keys


class C24(Check):
    prop = "C24"
    level = "exploration"
    technique = ("round-trip PBT (Hypothesis) over generated command text: link, link with WILD_SAVE_DIR, replay "
                 "run-with (env -i, tools-only PATH) -> byte compare; replay again after moving all originals away")
    rule = ("a case = hostile-name specs (class x position) for each named entity + argument forms + optional response "
            "file / script / thin archive / version script / -L -l / option file; non-trivial = some entity or value "
            "carries a non-plain character class, or the command uses a response file, linker script or thin archive; "
            "distinct by the sorted feature-key list + forms")
    assumptions = [
        "the link itself is deterministic for the generated commands (checked per case: run 0 vs run 1, else oracle split)",
        "only vocabulary words follow shell metacharacters, so a mis-quoted script can run nothing real",
    ]
    quick_cases = 240
    thorough_cases = 10000

    def setup(self, tier):
        d = os.path.join(core.TARGET, "c24-tools")
        os.makedirs(d, exist_ok=True)
        for t in ("bash", "dirname", "mktemp", "rm"):
            src = shutil.which(t)
            if not src:
                raise Inconclusive(f"tool {t} not found")
            link = os.path.join(d, t)
            if not os.path.islink(link) or os.readlink(link) != src:
                if os.path.lexists(link):
                    os.unlink(link)
                os.symlink(src, link)

    def _known_listed(self):
        if not hasattr(self, "_kl"):
            self._kl = {e["signature"] for e in load_known(self.prop) if e.get("status") == "known"}
        return self._kl

    def _allowed(self, role):
        kl = self._known_listed()
        return [c for c in CLASSES if f"quoting:{role}:{c}" not in kl]

    def strategy(self, tier):
        kl = self._known_listed()

        def spec(role, also=()):
            classes = [c for c in self._allowed(role) if all(c in self._allowed(r) for r in also)]
            # plain twice so that not every entity is hostile at once
            return st.fixed_dictionaries({"cls": st.sampled_from(classes + ["plain"]), "ch": st.integers(0, 8),
                                          "lead": st.booleans(), "w": st.integers(0, 4)})

        # Names that may end up in a response file must be allowed in both roles.
        fname = spec("file-arg", also=("rsp-entry",))
        out_forms = [f for f in OUT_FORMS if not (f.startswith("--output") and SIG_OUTFORM in kl)]
        aux = [a for a in AUX if f"not-self-contained:{a}" not in kl]
        return st.fixed_dictionaries({
            "dir": fname,
            "objs": st.lists(fname, min_size=1, max_size=3),
            "rsp": st.fixed_dictionaries({"use": st.booleans(), "nested": st.booleans(), "which": st.integers(0, 7)}),
            "archive": st.one_of(st.none(), st.fixed_dictionaries({"name": spec("file-arg")})),
            "thin": st.one_of(st.none(), st.fixed_dictionaries({
                "name": spec("file-arg"), "members": st.lists(spec("thin-member"), min_size=1, max_size=2)})),
            "script": st.one_of(st.none(), st.fixed_dictionaries({
                "name": spec("file-arg"), "kw": st.sampled_from(["INPUT", "GROUP"]), "abs": st.booleans()})),
            "vscript": st.one_of(st.none(), st.fixed_dictionaries({
                "name": spec("file-arg"), "form": st.sampled_from(["eq", "sep"])})),
            "libdir": st.one_of(st.none(), st.fixed_dictionaries({
                "name": spec("file-arg"), "form": st.sampled_from(["-Ldir", "-L dir"])})),
            "soname": st.one_of(st.none(), st.fixed_dictionaries({
                "value": spec("plain-arg"), "form": st.sampled_from(["eq", "sep", "h"])})),
            "rpath": st.one_of(st.none(), st.fixed_dictionaries({
                "value": spec("plain-arg"), "form": st.sampled_from(["eq", "sep"])})),
            # --sysroot with a libc.so-style text script inside it that names its archive by an absolute
            # (sysroot-relative) path; the -L directory is spelled directly, with a `..` that stays inside the
            # sysroot, or the way compiler drivers spell it (leaving and re-entering the sysroot lexically)
            "sysroot": st.one_of(st.none(), st.none(), st.fixed_dictionaries({
                "via": st.sampled_from(["direct", "inner-dotdot", "outer-dotdot"]),
                "entry": st.sampled_from(["abs", "abs", "name"]),
                "kw": st.sampled_from(["INPUT", "GROUP"]),
                "sysroot_form": st.sampled_from(["eq", "sep"]),
            })),
            "savedir": spec("save-dir"),
            "out_form": st.sampled_from(out_forms),
            "aux": st.sampled_from(aux),
            "path_style": st.sampled_from(PATH_STYLES),
            "shared": st.booleans(),
        })

    def excluded_by_construction(self, case):
        kl = self._known_listed()
        for k in features(case):
            if k in kl:
                return k
        return None

    # --------------------------------------------------------------------------------------------
    @hist.retry_environmental
    def run_case(self, case, ctx):
        w = os.path.join(ctx.dir, "w")
        os.makedirs(w)
        shared = is_shared(case)
        call = (lambda s: f"  call {s}@PLT") if shared else (lambda s: f"  call {s}")
        dname = "d_" + render(case["dir"]) if not case["dir"]["lead"] else render(case["dir"])
        ddir = os.path.join(w, dname)
        try:
            os.makedirs(ddir)
        except OSError as e:
            raise Discard(f"cannot create directory: {e.strerror}")

        def styled(rel):
            """Spelling of a path under w according to path_style; never starts with '-' or '@'."""
            ps = case["path_style"]
            if ps == "abs":
                return os.path.join(w, rel)
            if ps == "dotdot":
                first = rel.split("/")[0]
                return f"./{first}/../{rel}"
            return "./" + rel

        def asm_to(path_abs, text):
            tmp = os.path.join(ctx.dir, "tmp.o")
            tools.asm(text, tmp, cwd=ctx.dir)
            try:
                os.replace(tmp, path_abs)
            except OSError as e:
                raise Discard(f"cannot create file: {e.strerror}")

        # Objects: objs[0] is the main object.
        calls = []
        obj_rel = []
        names_used = set()
        for i, sp in enumerate(case["objs"]):
            nm = render(sp) + f"_{i}.o"
            names_used.add(nm)
            obj_rel.append(f"{dname}/{nm}")
            if i > 0:
                calls.append(f"p{i}")
        plain_dir = os.path.join(w, "plain")
        os.makedirs(plain_dir)
        extra_args = []
        if case["archive"]:
            asm_to(os.path.join(ctx.dir, "am.o"), ".globl pa\n.text\npa:\n  ret\n")
            an = render(case["archive"]["name"]) + "_a.a"
            tools.ar(os.path.join(ddir, an), [os.path.join(ctx.dir, "am.o")], cwd=ctx.dir)
            calls.append("pa")
            extra_args.append(styled(f"{dname}/{an}"))
        if case["thin"]:
            tdir = os.path.join(ddir, "tm")
            os.makedirs(tdir)
            members = []
            for j, m in enumerate(case["thin"]["members"]):
                mn = render(m) + f"_m{j}.o"
                asm_to(os.path.join(tdir, mn), f".globl pt{j}\n.text\npt{j}:\n  ret\n")
                members.append("tm/" + mn)
                calls.append(f"pt{j}")
            tn = render(case["thin"]["name"]) + "_t.a"
            r = tools.run(["ar", "rcsT", "./" + tn] + ["./" + m for m in members], cwd=ddir)
            if r.rc != 0:
                raise Discard("ar cannot build the thin archive: " + r.err[:60])
            extra_args.append(styled(f"{dname}/{tn}"))
        if case["script"]:
            asm_to(os.path.join(plain_dir, "ps.o"), ".globl ps\n.text\nps:\n  ret\n")
            sn = render(case["script"]["name"]) + "_s.ld"
            ref = os.path.join(plain_dir, "ps.o") if case["script"]["abs"] else "../plain/ps.o"
            tools.write(os.path.join(ddir, sn), f"{case['script']['kw']}({ref})\n")
            calls.append("ps")
            extra_args.append(styled(f"{dname}/{sn}"))
        if case["libdir"]:
            ln = "L_" + render(case["libdir"]["name"])
            os.makedirs(os.path.join(w, ln))
            asm_to(os.path.join(ctx.dir, "lm.o"), ".globl pl\n.text\npl:\n  ret\n")
            tools.ar(os.path.join(w, ln, "libvzq.a"), [os.path.join(ctx.dir, "lm.o")], cwd=ctx.dir)
            calls.append("pl")
            sp = styled(ln)
            extra_args += (["-L" + sp] if case["libdir"]["form"] == "-Ldir" else ["-L", sp]) + ["-lvzq"]
        if case.get("sysroot"):
            sr = case["sysroot"]
            srlib = os.path.join(w, "sr", "usr", "lib")
            os.makedirs(srlib)
            os.makedirs(os.path.join(w, "tc", "lib", "gcc"))
            asm_to(os.path.join(ctx.dir, "srm.o"), ".globl psr\n.text\npsr:\n  ret\n")
            tools.ar(os.path.join(srlib, "libsrimpl.a"), [os.path.join(ctx.dir, "srm.o")], cwd=ctx.dir)
            entry = "/usr/lib/libsrimpl.a" if sr["entry"] == "abs" else "libsrimpl.a"
            tools.write(os.path.join(srlib, "libsrq.so"), f"/* GNU ld script */\n{sr['kw']} ( {entry} )\n")
            calls.append("psr")
            ldir = {"direct": "sr/usr/lib", "inner-dotdot": "sr/usr/lib/../lib",
                    "outer-dotdot": "tc/lib/gcc/../../../sr/usr/lib"}[sr["via"]]
            ldir = os.path.join(w, ldir) if case["path_style"] == "abs" else "./" + ldir
            srarg = os.path.join(w, "sr") if case["path_style"] == "abs" else "./sr"
            extra_args += ([f"--sysroot={srarg}"] if sr["sysroot_form"] == "eq" else ["--sysroot", srarg])
            extra_args += ["-L" + ldir, "-lsrq"]
        if case["vscript"] and shared:
            vn = render(case["vscript"]["name"]) + "_v.ver"
            tools.write(os.path.join(ddir, vn), "VZQ_1 { global: _start; local: zz_*; };\n")
            sp = styled(f"{dname}/{vn}")
            extra_args += ([f"--version-script={sp}"] if case["vscript"]["form"] == "eq" else ["--version-script", sp])
        if case["soname"]:
            v = render(case["soname"]["value"])
            f = case["soname"]["form"]
            extra_args += [f"-soname={v}"] if f == "eq" else (["-soname", v] if f == "sep" else ["-h", v])
        if case.get("rpath"):
            v = render(case["rpath"]["value"])
            extra_args += [f"-rpath={v}"] if case["rpath"]["form"] == "eq" else ["-rpath", v]
        aux_rel = None
        if case["aux"] != "none":
            aux_rel = "plain/aux.txt"
            tools.write(os.path.join(w, aux_rel), "_start\n" if case["aux"] == "retain-symbols-file" else "{ _start; };\n")
            extra_args.append(f"--{case['aux']}={aux_rel}")

        main = [".globl _start", ".text", "_start:"] + [call(c) for c in calls] + ["  ret", ""]
        asm_to(os.path.join(w, obj_rel[0]), "\n".join(main))
        for i in range(1, len(obj_rel)):
            asm_to(os.path.join(w, obj_rel[i]), f".globl p{i}\n.text\np{i}:\n  ret\n")

        rsp = case["rsp"]
        in_rsp = [i for i in range(1, len(obj_rel)) if rsp["use"] and (rsp["which"] >> i) & 1]
        args = [styled(obj_rel[i]) for i in range(len(obj_rel)) if i not in in_rsp]
        if in_rsp:
            lines = [rsp_escape(styled(obj_rel[i])) for i in in_rsp]
            if rsp["nested"] and len(lines) >= 1:
                tools.write(os.path.join(w, "inner.rsp"), lines[-1] + "\n")
                lines = lines[:-1] + ["@inner.rsp"]
            tools.write(os.path.join(w, "args.rsp"), "\n".join(lines) + "\n")
            args.append("@args.rsp")
        args += extra_args
        if shared:
            args.insert(0, "-shared")
        args.append("--threads=2")

        def with_out(name):
            f = case["out_form"]
            if f == "-o x":
                return args + ["-o", name]
            if f == "-ox":
                return args + ["-o" + name]
            if f == "--output=x":
                return args + ["--output=" + name]
            return args + ["--output", name]

        sd = "sd_" + render(case["savedir"]) if not case["savedir"]["lead"] else render(case["savedir"])
        if sd == dname or sd.startswith("L_"):
            sd = sd + "S"      # never the inputs' own directory (WILD_SAVE_DIR is wiped at start)
        if sd.startswith("-"):
            sd = "./" + sd
        out1 = os.path.join(w, "out1")

        # Run 0: plain link (domain check + determinism reference).
        r0 = hist.wild(with_out("out1"), cwd=w)
        if r0.timed_out:     # loaded machine: the plain link is idempotent, retry once
            r0 = hist.wild(with_out("out1"), cwd=w, timeout=400)
        if r0.timed_out:
            raise Inconclusive("wild timed out")
        if r0.rc != 0:
            if hist.crashed(r0):
                raise Inconclusive(f"wild crashed on the plain link: {r0.err[-300:]}")
            raise Discard("wild rejects the command without a save dir: " + r0.err.strip().split("\n")[0][:50])
        ref_bytes = open(out1, "rb").read()
        os.unlink(out1)

        keys = features(case)
        detail = {"args": with_out("out1"), "save_dir": sd, "features": keys}

        def sig(stage):
            if SIG_VALUE_IS_PATH in keys:
                return SIG_VALUE_IS_PATH
            role_keys = [k for k in keys if k.startswith("quoting:") and not k.startswith("quoting:thin-member")]
            if role_keys:
                return role_keys[0]
            if SIG_OUTFORM in keys:
                return SIG_OUTFORM
            if stage == "moved" and case["aux"] != "none":
                return f"not-self-contained:{case['aux']}"
            tm = [k for k in keys if k.startswith("quoting:thin-member")]
            if tm:
                return tm[0]
            feats = [n for n in ("rsp", "script", "thin", "vscript", "libdir", "archive")
                     if (case[n]["use"] if n == "rsp" else case[n])]
            if case.get("sysroot"):
                feats.append(f"sysroot-{case['sysroot']['via']}-{case['sysroot']['entry']}")
            return f"replay-mismatch:{stage}:{case['path_style']}:{'+'.join(feats) or 'objects-only'}"

        # Run 1: with the save directory.
        r1 = hist.wild(with_out("out1"), cwd=w, env_extra={"WILD_SAVE_DIR": sd})
        if r1.timed_out:
            r1 = hist.wild(with_out("out1"), cwd=w, env_extra={"WILD_SAVE_DIR": sd}, timeout=400)
        if r1.timed_out:
            raise Inconclusive("wild timed out")
        if r1.rc != 0:
            raise Violation(sig("save"), f"[save] the link succeeds without WILD_SAVE_DIR but fails with it: "
                            f"{r1.err.strip()[-300:]}", detail)
        b1 = open(out1, "rb").read()
        if b1 != ref_bytes:
            raise OracleSplit("output differs between two runs of the same command (C06's business)")
        run_with = os.path.join(w, sd, "run-with")
        if not os.path.exists(run_with):
            raise Violation("run-with-missing", f"no run-with in `{sd}`", detail)
        detail["run_with_tail"] = open(run_with, errors="replace").read()[-1200:]

        tools_dir = os.path.join(core.TARGET, "c24-tools")

        def replay(out_name, stage):
            # Same basename as the original output (the base version definition of a shared object is
            # named after the output file, for GNU ld as well), different directory.
            os.makedirs(os.path.join(w, os.path.dirname(out_name)))
            env = {"PATH": tools_dir, "OUT": out_name, "WILD_VALIDATE_OUTPUT": "0"}
            # Always invoked as ./<dir>/run-with (a leading '+', '-' or '@' of the directory name would
            # otherwise be taken as an option by bash / as a response file by wild: not a quoting matter).
            argv = ["./" + (sd[2:] if sd.startswith("./") else sd) + "/run-with", core.WILD]
            r = hist.run_all(argv, cwd=w, env=env, timeout=120)
            if r.timed_out:   # loaded machine: one retry before giving up
                r = hist.run_all(argv, cwd=w, env=env, timeout=360)
            if r.timed_out:
                raise Inconclusive("replay timed out")
            p = os.path.join(w, out_name)
            if r.rc != 0:
                raise Violation(sig(stage), f"[{stage}] run-with exited {r.rc}: {r.err.strip()[-300:]}", detail)
            if not os.path.exists(p):
                raise Violation(sig(stage), f"[{stage}] run-with exited 0 but OUT={out_name} was not written", detail)
            if open(p, "rb").read() != b1:
                raise Violation(sig(stage), f"[{stage}] replayed output differs from the original ({os.path.getsize(p)} vs "
                                f"{len(b1)} bytes)", detail)
            if open(out1, "rb").read() != b1:
                raise Violation(sig(stage), f"[{stage}] the replay modified the original output", detail)

        replay("rep2/out1", "replay")
        # Move every original away; the bundle must be self-contained.
        moved = os.path.join(ctx.dir, "moved")
        os.makedirs(moved)
        sd_top = sd[2:] if sd.startswith("./") else sd
        for n in os.listdir(w):
            if n in (sd_top, "out1", "rep2"):
                continue
            os.rename(os.path.join(w, n), os.path.join(moved, n))
        replay("rep3/out1", "moved")

        info = {"classes": [], "counters": {}}
        for k in keys:
            info["classes"].append(k)
        for n in ("archive", "thin", "script", "vscript", "libdir", "soname", "rpath"):
            if case.get(n):
                info["classes"].append("uses:" + n)
        if case.get("sysroot"):
            info["classes"].append(f"uses:sysroot:{case['sysroot']['via']}:{case['sysroot']['entry']}")
        if in_rsp:
            info["classes"].append("uses:rsp" + ("-nested" if rsp["nested"] else ""))
        info["classes"].append("out_form:" + case["out_form"])
        info["classes"].append("path:" + case["path_style"])
        info["nontrivial"] = bool(keys or in_rsp or case["script"] or case["thin"] or case.get("sysroot"))
        info["key"] = ",".join(sorted(keys)) + f"|{case['out_form']}|{case['path_style']}|" + \
            "".join(str(int(bool(x))) for x in (in_rsp, case["archive"], case["thin"], case["script"], case["vscript"],
                                                case["libdir"], case["soname"], case.get("rpath"), shared)) + \
            (f"|sr:{case['sysroot']['via']}:{case['sysroot']['entry']}" if case.get("sysroot") else "")
        return info


CHECK = C24()
