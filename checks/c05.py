"""C05 — Garbage collection keeps everything reachable.

Domain: reachability graphs over `-ffunction-sections`-style input sections (functions in
`.text.nI`, pointer tables in `.data.nI`/`.rodata.nI`, start/stop sets `vset_K`, init/fini/preinit
arrays, note sections) spread over 2-4 assembly objects.  Edges are relocations of several kinds:
direct call (PLT32), PC32 `lea`, GOTPCREL(X) loads/calls, absolute 64/32-bit immediates (non-PIC),
pointers in data (R_X86_64_64), all of which become *section symbol + offset* relocations whenever
the target is a local symbol (padding before the label gives non-zero offsets).  Roots: entry,
`-u sym`, exported symbols (shared output / --export-dynamic), SHF_GNU_RETAIN, note sections,
init/fini/preinit arrays, `__start_X/__stop_X` references.

Oracle.
 (1) Behaviour: every function prints its ID when first reached (DFS with a visited table), the
     program walks its pointer tables and start/stop ranges.  The expected stdout is computed by
     the generator's model and must equal GNU ld's `--gc-sections` link of the same objects
     (else OracleSplit).  wild with GC on must behave like wild with `--no-gc-sections`
     (the statement's last sentence), given that the references agree on what that behaviour is.
 (2) Closure model: every section in the model's reachable set (roots + relocation closure, per the
     statement's first two sentences) must have its marker symbol defined in the `.symtab` of
     wild's GC'd output.  The same predicate is evaluated on GNU ld's GC'd output first
     (calibration; a miss there is an OracleSplit, never a violation).  Over-retention is counted
     only.
"""
import hashlib
import json

from hypothesis import strategies as st

from vlib import progen, tools
from vlib.core import Check, Discard, Inconclusive, OracleSplit, Violation
from vlib.elf import Elf, SHN_UNDEF

MAXN = 64

WALK_C = r"""
typedef unsigned long u64;
extern void emit2(u64, u64);
__attribute__((visibility("hidden"))) unsigned char visited[256];
__attribute__((visibility("hidden"))) void walk(u64 *t) {
    u64 id = t[0];
    if (visited[id]) return;
    visited[id] = 1;
    emit2(id, 0xD);
    u64 n = t[1];
    for (u64 i = 0; i < n; i++) {
        u64 tag = t[2 + 2 * i], p = t[3 + 2 * i];
        if (tag == 0) ((void (*)(void))p)(); else walk((u64 *)p);
    }
}
__attribute__((visibility("hidden"))) void walkset(u64 *b, u64 *e) {
    for (; b < e; b++) ((void (*)(void))*b)();
}
"""

# via kinds by (source kind, target kind)
VIA_FF = ["call", "gotcall", "leacall", "gotload", "abscall", "abs32call"]
VIA_FD = ["lea", "got", "abs", "abs32"]
NONPIC_VIAS = {"abscall", "abs32call", "abs", "abs32"}
ROOTS = ["", "u", "retain", "init", "fini", "preinit", "note"]
NSETS = 2


def node_strategy():
    return st.fixed_dictionaries({
        "tu": st.integers(0, 3),
        "kind": st.sampled_from(["f", "f", "f", "d", "d"]),
        "bind": st.sampled_from(["l", "l", "h", "g"]),
        "pad": st.integers(0, 2),
        "ro": st.booleans(),
        "root": st.sampled_from([""] * 20 + ["u", "u", "retain", "retain", "init", "init", "fini", "preinit", "note", "note"]),
        "edges": st.lists(st.tuples(st.integers(0, MAXN - 1), st.integers(0, 8)).map(list), max_size=3),
        "ss": st.sampled_from([-1, -1, -1, -1, 0, 1]),       # function walks start/stop set K
        "member": st.sampled_from([-1, -1, -1, 0, 1]),       # function is registered in set K
    })


def case_strategy(tier):
    return st.fixed_dictionaries({
        "mode": st.sampled_from(["static", "static", "pie", "shared"]),
        "ntu": st.integers(2, 4),
        "nodes": st.lists(node_strategy(), min_size=4, max_size=14 if tier == "quick" else 30),
        "main_edges": st.lists(st.tuples(st.integers(0, MAXN - 1), st.integers(0, 8)).map(list), min_size=1, max_size=3),
        "export_dynamic": st.booleans(),
        "gc_flag": st.sampled_from(["explicit", "default"]),
        "ssflag": st.booleans(),          # pass -z nostart-stop-gc to wild too
        "threads": st.sampled_from([0, 1, 2, 8]),
    })


class Graph:
    """Normalised form of a raw case: validity by construction."""

    def __init__(self, case):
        self.mode = case["mode"]
        pic = self.mode in ("pie", "shared")
        self.ntu = case["ntu"]
        raw = case["nodes"][:MAXN]
        n = len(raw)
        self.nodes = []
        for i, r in enumerate(raw):
            nd = {"i": i, "tu": r["tu"] % self.ntu, "kind": r["kind"], "bind": r["bind"], "pad": r["pad"],
                  "ro": r["ro"] and not pic, "root": r["root"], "ss": -1, "member": -1, "edges": []}
            if nd["kind"] == "f":
                nd["ss"] = r["ss"]
                nd["member"] = r["member"]
            else:
                if nd["root"] in ("init", "fini", "preinit"):
                    nd["root"] = "retain"
            if nd["root"] == "note":
                if pic:
                    nd["root"] = "retain"
                else:
                    nd["kind"] = "note"
                    nd["ss"] = nd["member"] = -1
            if nd["root"] == "preinit" and self.mode == "shared":
                nd["root"] = "init"
            if nd["root"] == "u" and nd["bind"] == "l":
                nd["bind"] = "h"
            self.nodes.append(nd)
        if not any(nd["kind"] == "f" for nd in self.nodes):
            self.nodes[0].update(kind="f", root="", ro=False)
        # edges
        for nd, r in zip(self.nodes, raw):
            for to, v in r["edges"]:
                nd["edges"].append(self._edge(nd, self.nodes[to % n], v, pic))
        # a walked set must exist somewhere, else __start_ is undefined: give it a member
        for k in range(NSETS):
            walkers = [nd for nd in self.nodes if nd["ss"] == k]
            members = [nd for nd in self.nodes if nd["member"] == k]
            if walkers and not members:
                f = next((nd for nd in self.nodes if nd["kind"] == "f" and nd["member"] < 0), None)
                if f is not None:
                    f["member"] = k
                else:
                    for w in walkers:
                        w["ss"] = -1
        main = {"i": -1, "tu": 0, "kind": "f", "bind": "g", "edges": []}
        for to, v in case["main_edges"]:
            t = self.nodes[to % n]
            main["edges"].append(self._edge(main, t, v, pic))
        self.main = main
        # local symbols referenced from another TU (or via -u) become hidden
        for src in self.nodes + [main]:
            for e in src["edges"]:
                t = self.nodes[e[0]]
                if t["bind"] == "l" and t["tu"] != src["tu"]:
                    t["bind"] = "h"
        self.export_dynamic = case["export_dynamic"] and self.mode == "pie"

    def _edge(self, src, tgt, v, pic):
        j = tgt["i"]
        while self.nodes[j]["kind"] == "note":      # notes are never targets: next non-note node
            j = (j + 1) % len(self.nodes)
        tgt = self.nodes[j]
        if src["kind"] in ("d", "note"):
            return [tgt["i"], "ptr"]
        vias = VIA_FF if tgt["kind"] == "f" else VIA_FD
        via = vias[v % len(vias)]
        if v >= 7:
            # A relocation that needs no value (R_X86_64_NONE, as emitted for e.g. personality/marker
            # references): a pure GC edge, nothing is called or read through it at run time.
            return [tgt["i"], "none"]
        if pic and via in NONPIC_VIAS:
            via = vias[v % 2]
        if self.mode == "shared" and tgt["bind"] == "g" and via in ("lea", "leacall"):
            via = {"lea": "got", "leacall": "gotcall"}[via]      # preemptible: PC32 not allowed
        return [tgt["i"], via]

    # -- model ------------------------------------------------------------------------------------
    def set_members(self, k):
        """Member functions of set k in link order (TU order, then node order)."""
        out = []
        for tu in range(self.ntu):
            out += [nd for nd in self.nodes if nd["member"] == k and nd["tu"] == tu]
        return out

    def roots(self, with_u=True):
        r = []
        for nd in self.nodes:
            if nd["root"] == "u" and not with_u:
                continue
            if nd["root"] in ("u", "retain", "init", "fini", "preinit", "note"):
                r.append(nd["i"])
            elif nd["bind"] == "g" and (self.mode == "shared" or self.export_dynamic):
                r.append(nd["i"])
        return r

    def closure(self, only_call=False, with_u=True):
        """Set of node indices reachable from the roots + main through relocations; also returns the
        set of start/stop sets that are kept."""
        seen, sets = set(), set()
        work = [e[0] for e in self.main["edges"] if not only_call or e[1] == "call"]
        if not only_call:
            work += self.roots(with_u)
        while work:
            i = work.pop()
            if i in seen:
                continue
            seen.add(i)
            nd = self.nodes[i]
            for to, via in nd["edges"]:
                if not only_call or via == "call":
                    work.append(to)
            if nd["ss"] >= 0 and not only_call and nd["ss"] not in sets:
                sets.add(nd["ss"])
                work += [m["i"] for m in self.set_members(nd["ss"])]
        return seen, sets

    def expected_stdout(self):
        out = []
        visited = set()

        def visit(i):
            if i in visited:
                return
            visited.add(i)
            nd = self.nodes[i]
            out.append(f"{i:08x} {0xF if nd['kind'] == 'f' else 0xD:016x}\n")
            for to, via in nd["edges"]:
                if via != "none":
                    visit(to)
            if nd["ss"] >= 0:
                for m in self.set_members(nd["ss"]):
                    visit(m["i"])

        def arr(kind):
            res = []
            for tu in range(self.ntu):
                res += [nd["i"] for nd in self.nodes if nd["root"] == kind and nd["tu"] == tu]
            return res

        for i in arr("preinit"):
            visit(i)
        for i in arr("init"):
            visit(i)
        for to, via in self.main["edges"]:
            if via != "none":
                visit(to)
        for i in reversed(arr("fini")):
            visit(i)
        return "".join(out)

    # -- emission ---------------------------------------------------------------------------------
    def sym_decl(self, nd):
        n = f"n{nd['i']}"
        if nd["bind"] == "g":
            return f"    .globl {n}\n"
        if nd["bind"] == "h":
            return f"    .globl {n}\n    .hidden {n}\n"
        return ""

    def emit_edge(self, e):
        to, via = e
        t = f"n{to}"
        if via == "none":
            if to % 2 == 0:
                # through an intermediate zero-sized section whose only content is the R_X86_64_NONE relocation
                # (keep-alive dependency that emits no bytes): the GC edge passes through an empty section
                h = f"hop{len(self._hops)}_{self._tu}"
                self._hops.append(f'    .section .text.{h},"ax",@progbits\n{h}:\n    .reloc ., R_X86_64_NONE, {t}\n')
                return f"    .reloc ., R_X86_64_NONE, {h}\n"
            return f"    .reloc ., R_X86_64_NONE, {t}\n"
        if via == "call":
            return f"    call {t}\n"
        if via == "gotcall":
            return f"    call *{t}@GOTPCREL(%rip)\n"
        if via == "gotload":
            return f"    mov {t}@GOTPCREL(%rip), %rax\n    call *%rax\n"
        if via == "leacall":
            return f"    lea {t}(%rip), %rax\n    call *%rax\n"
        if via == "abscall":
            return f"    movabs ${t}, %rax\n    call *%rax\n"
        if via == "abs32call":
            return f"    mov ${t}, %eax\n    call *%rax\n"
        if via == "lea":
            return f"    lea {t}(%rip), %rdi\n    call walk\n"
        if via == "got":
            return f"    mov {t}@GOTPCREL(%rip), %rdi\n    call walk\n"
        if via == "abs":
            return f"    movabs ${t}, %rdi\n    call walk\n"
        if via == "abs32":
            return f"    mov ${t}, %edi\n    call walk\n"
        raise ValueError(via)

    def emit_tu(self, tu):
        self._hops, self._tu = [], tu
        s = ["    .hidden visited\n    .hidden walk\n    .hidden walkset\n"]
        for nd in self.nodes:
            if nd["tu"] != tu:
                continue
            i = nd["i"]
            n = f"n{i}"
            if nd["kind"] == "f":
                flags = "axR" if nd["root"] == "retain" else "ax"
                s.append(f'    .section .text.{n},"{flags}",@progbits\n')
                s.append(self.sym_decl(nd))
                s.append("    nop\n" * (nd["pad"] * 3))
                s.append(f"    .type {n},@function\n{n}:\n")
                s.append(f"    cmpb $0, visited+{i}(%rip)\n    jne 9f\n    movb $1, visited+{i}(%rip)\n")
                s.append(f"    push %rbx\n    mov ${i}, %edi\n    mov $0xF, %esi\n    call emit2@PLT\n")
                for e in nd["edges"]:
                    s.append(self.emit_edge(e))
                if nd["ss"] >= 0:
                    k = nd["ss"]
                    s.append(f"    mov __start_vset_{k}@GOTPCREL(%rip), %rdi\n"
                             f"    mov __stop_vset_{k}@GOTPCREL(%rip), %rsi\n    call walkset\n")
                if nd["root"] == "fini":
                    s.append("    call flush_out@PLT\n")
                s.append(f"    pop %rbx\n9:  ret\n    .size {n}, .-{n}\n")
                if nd["member"] >= 0:
                    s.append(f'    .section vset_{nd["member"]},"aw",@progbits\n    .quad {n}\n')
                if nd["root"] in ("init", "fini", "preinit"):
                    s.append(f'    .section .{nd["root"]}_array,"aw"\n    .quad {n}\n')
            elif nd["kind"] == "d":
                base = ".rodata" if nd["ro"] else ".data"
                flags = "a" if nd["ro"] else "aw"
                if nd["root"] == "retain":
                    flags += "R"
                s.append(f'    .section {base}.{n},"{flags}",@progbits\n    .balign 8\n')
                s.append(self.sym_decl(nd))
                s.append("    .quad 0xdeadbeef\n" * nd["pad"])
                s.append(f"    .type {n},@object\n{n}:\n    .quad {i}\n    .quad {len(nd['edges'])}\n")
                for to, _ in nd["edges"]:
                    tag = 0 if self.nodes[to]["kind"] == "f" else 1
                    s.append(f"    .quad {tag}\n    .quad n{to}\n")
                s.append(f"    .size {n}, .-{n}\n")
            else:  # note
                s.append(f'    .section .note.{n},"a",@note\n    .balign 8\n')
                s.append(f"{n}:\n    .long 4\n    .long {8 * max(1, len(nd['edges']))}\n    .long 0x7601\n    .asciz \"VRF\"\n")
                if not nd["edges"]:
                    s.append("    .quad 0\n")
                for to, _ in nd["edges"]:
                    s.append(f"    .quad n{to}\n")
        if tu == 0:
            s.append('    .section .text.vmain,"ax",@progbits\n    .globl vmain\n    .type vmain,@function\nvmain:\n    push %rbx\n')
            for e in self.main["edges"]:
                s.append(self.emit_edge(e))
            s.append("    xor %eax, %eax\n    movb visited+255(%rip), %al\n    add $7, %eax\n    pop %rbx\n    ret\n")
        s += self._hops
        s.append(progen.NOTE_GNU_STACK)
        return "".join(s)

    def key(self):
        canon = {"mode": self.mode, "x": self.export_dynamic,
                 "n": [[nd["tu"], nd["kind"], nd["bind"], nd["pad"], nd["root"], nd["ss"], nd["member"], nd["edges"]]
                       for nd in self.nodes], "m": self.main["edges"]}
        return hashlib.sha1(json.dumps(canon, sort_keys=True).encode()).hexdigest()[:16]


def _errline(err):
    """First diagnostic line, with addresses/paths stripped so that reasons aggregate."""
    import re
    for line in err.split("\n"):
        if "error" in line or "undefined" in line or "relocation" in line:
            line = re.sub(r"/\S*/", "", line)
            line = re.sub(r"0x[0-9a-f]+|\d+", "N", line)
            return line[-70:]
    return err.strip().split("\n")[-1][-70:]


def defined_syms(path):
    e = Elf(path)
    return {s.name for s in e.symtab() if s.shndx != SHN_UNDEF and s.name}


class C05(Check):
    prop = "C05"
    level = "exploration"
    technique = ("metamorphic PBT (wild --gc-sections vs --no-gc-sections, executed) + reachability-closure model "
                 "checked against the GC'd output's symbol table, calibrated on GNU ld's GC'd output")
    rule = ("Hypothesis-generated section graphs (4-14 nodes in 2-4 objects; static/PIE/shared); non-trivial = the "
            "model closure contains a section that is unreachable when only direct-call edges are followed (i.e. kept "
            "only through a data pointer / GOT / section-symbol / start-stop / root kind edge) and at least one section "
            "is outside the closure; distinct by hash of the normalised graph")
    assumptions = ["GNU ld 2.40 --gc-sections is the behavioural reference and the calibration of the closure model",
                   "-z nostart-stop-gc semantics (the statement: __start_/__stop_ referenced sections are roots)"]
    quick_cases = 400
    thorough_cases = 12000

    def strategy(self, tier):
        return case_strategy(tier)

    @progen.shrink_budget(45)
    def run_case(self, case, ctx):
        d = ctx.dir
        g = Graph(case)
        objs = []
        for tu in range(g.ntu):
            tools.asm(g.emit_tu(tu), f"t{tu}.o", cwd=d)
            objs.append(f"t{tu}.o")
        walk_o = progen._cached_cc(ctx, "c05_walk.o", WALK_C, progen.RT_FLAGS + ["-fPIC"])
        objs.append(walk_o)
        mode = g.mode
        common = ["-z", "nostart-stop-gc"]
        for nd in g.nodes:
            if nd["root"] == "u":
                common += ["-u", f"n{nd['i']}"]
        if g.export_dynamic:
            common.append("--export-dynamic")

        def opts(lst):
            # -z X must travel as one -Wl, group when going through the compiler driver
            if mode == "static":
                return lst
            out, it = [], iter(lst)
            for o in it:
                if o in ("-z", "-u"):
                    out.append(o + "," + next(it))
                else:
                    out.append(o)
            return out

        expected = g.expected_stdout()
        exp_rc = 7
        # --- reference: GNU ld with GC
        st_, out, rc = progen.behaviour("ld", mode, objs, ctx, "ld_gc", opts=opts(common + ["--gc-sections"]))
        if st_ != "ok":
            raise Discard("GNU ld rejects the case: " + _errline(out))
        if (out, rc) != (expected, exp_rc):
            raise OracleSplit(f"model and GNU ld disagree on behaviour: ld rc={rc} out={out[:200]!r} expected={expected[:200]!r}")
        clos, sets = g.closure()
        ld_syms = defined_syms(f"{d}/ld_gc.out" + (".so" if mode == "shared" else ""))
        miss = [i for i in sorted(clos) if f"n{i}" not in ld_syms]
        if miss:
            raise OracleSplit(f"closure model demands n{miss[0]} but GNU ld's GC removed it")
        # --- wild
        wopts = [o for o in common]
        if not case["ssflag"]:
            wopts = wopts[2:]
        if case["threads"]:
            wopts.append(f"--threads={case['threads']}")
        gc = ["--gc-sections"] if case["gc_flag"] == "explicit" else []
        s1, o1, r1 = progen.behaviour("wild", mode, objs, ctx, "w_gc", opts=opts(wopts + gc))
        s0, o0, r0 = progen.behaviour("wild", mode, objs, ctx, "w_nogc", opts=opts(wopts + ["--no-gc-sections"]))
        for s, o, tag in ((s1, o1, "gc"), (s0, o0, "no-gc")):
            if s == "crash":
                raise Violation("wild-crash", f"wild crashed/timed out linking ({tag}): {o[-300:]}")
        if s1 == "reject" and s0 == "reject":
            raise Discard("wild rejects the case: " + _errline(o1))
        if s1 == "reject":
            raise Violation("gc-link-fails", f"wild links with --no-gc-sections but fails with GC on: {o1[-400:]}")
        classes = [f"mode:{mode}"]
        counters = {}
        if s0 == "reject":
            # not a statement about GC; GNU ld accepted. Counted, not reported here.
            classes.append("wild_nogc_rejects")
        elif (o0, r0) != (expected, exp_rc):
            classes.append("wild_nogc_differs_from_reference")
            if (o1, r1) == (o0, r0):
                # same behaviour with and without GC: outside this property (C01's domain)
                return {"nontrivial": False, "classes": classes}
        if s0 == "ok" and (o1, r1) != (o0, r0) and (o0, r0) == (expected, exp_rc):
            lost = self._first_diff(o1, o0)
            raise Violation("gc-changes-behaviour",
                            f"wild --gc-sections output differs from --no-gc-sections (and from GNU ld + model): {lost}; "
                            f"rc gc={r1} nogc={r0}", {"gc": o1[-600:], "nogc": o0[-600:], "mode": mode})
        if (o1, r1) != (expected, exp_rc) and s0 != "ok":
            raise Violation("gc-changes-behaviour", f"wild GC'd program differs from GNU ld + model: {self._first_diff(o1, expected)}",
                            {"gc": o1[-600:], "expected": expected[-600:], "mode": mode})
        # --- closure model on wild's GC'd output
        wpath = f"{d}/w_gc.out" + (".so" if mode == "shared" else "")
        wsyms = defined_syms(wpath)
        miss = [i for i in sorted(clos) if f"n{i}" not in wsyms]
        if miss:
            nd = g.nodes[miss[0]]
            why = self._why(g, miss[0])
            raise Violation("reachable-section-dropped:" + why,
                            f"section of n{miss[0]} ({nd['kind']}, bind {nd['bind']}, root '{nd['root']}') is reachable "
                            f"from the GC roots ({why}) but absent from wild's GC'd output (GNU ld keeps it)",
                            {"missing": miss, "mode": mode})
        kept_extra = [nd["i"] for nd in g.nodes if nd["i"] not in clos and f"n{nd['i']}" in wsyms]
        removed = [nd["i"] for nd in g.nodes if f"n{nd['i']}" not in wsyms]
        counters["over_retained_sections"] = len(kept_extra)
        counters["removed_sections"] = len(removed)
        counters["closure_sections"] = len(clos)
        call_only, _ = g.closure(only_call=True)
        noncall = clos - call_only
        for i in sorted(noncall):
            classes.append("kept_via:" + self._why(g, i))
        for nd in g.nodes:
            if nd["i"] in clos and nd["root"]:
                classes.append("root:" + nd["root"])
        if sets:
            classes.append("startstop_set_kept")
        if g.export_dynamic:
            classes.append("export_dynamic")
        if removed:
            classes.append("gc_removed_something")
        nontrivial = bool(noncall) and len(clos) < len(g.nodes)
        return {"nontrivial": nontrivial, "key": g.key(), "classes": sorted(set(classes)), "counters": counters,
                "nodes": len(g.nodes), "closure": len(clos)}

    # The finding `reachable-section-dropped:root-u` (-u symbols were not GC roots) was repaired by /repo
    # commit 5aeb0ab; nothing is excluded any more and its case is replayed on every run.

    @staticmethod
    def _first_diff(a, b):
        la, lb = a.split("\n"), b.split("\n")
        for i, (x, y) in enumerate(zip(la, lb)):
            if x != y:
                return f"line {i}: {x!r} vs {y!r}"
        return f"lengths {len(la)} vs {len(lb)} lines"

    @staticmethod
    def _why(g, i):
        """Label of one way node i is reached (for signatures/histograms): root kind or edge kind."""
        nd = g.nodes[i]
        if nd["root"]:
            return "root-" + nd["root"]
        if nd["bind"] == "g" and (g.mode == "shared" or g.export_dynamic):
            return "root-exported"
        clos, sets = g.closure()
        vias = set()
        for src in g.nodes + [g.main]:
            if src["i"] == -1 or src["i"] in clos:
                for to, via in src["edges"]:
                    if to == i:
                        t = g.nodes[to]
                        local = t["bind"] == "l" and via not in ("got", "gotcall", "gotload")
                        vias.add(via + ("-secsym" if local else ""))
        if nd["member"] in sets:
            vias.add("startstop")
        return sorted(vias)[0] if vias else "unknown"


CHECK = C05()
