"""C37 — DT_NEEDED lists exactly the required libraries.

Domain: 1..5 generated shared libraries (with or without soname; some linked against earlier
ones, properly or under-linked; the same symbol possibly defined by two libraries) and 1..3
objects referencing library symbols strongly / weakly / not at all (or defining the symbol
themselves); command lines mixing the objects and libraries (spelled as path, `-l`, or through a
linker script `INPUT(...)` / `INPUT(AS_NEEDED(...))`, possibly listed twice) with
`--as-needed` / `--no-as-needed` / `--push-state` / `--pop-state`; output: dynamic executable,
PIE, or shared object.

Oracle: model transcribed from the statement — every library linked without --as-needed, and
every --as-needed library that satisfies (i.e. is the first library on the command line defining a
symbol that no object defines and) a non-weak reference from the output's own objects, each once,
in command-line order — and GNU ld's DT_NEEDED sequence for the same command line.
VIOLATION only when wild != model and GNU ld == model; ld != model -> OracleSplit; ld rejecting
the line (e.g. its order-sensitive as-needed handling) -> Discard.
"""
from hypothesis import strategies as st

from vlib import symgen, tools
from vlib.core import Check, Discard, Inconclusive, OracleSplit, Violation
from vlib.elf import Elf

NSYM = 8


def sym(i):
    return f"ls{i}"


def raw_strategy():
    lib = st.fixed_dictionaries({
        "soname": st.sampled_from([True, True, True, False]),
        "defs": st.lists(st.integers(0, NSYM - 1), min_size=0, max_size=2).filter(lambda l: True),
        "ndefs_min1": st.sampled_from([True, True, True, False]),
        "dep": st.integers(0, 15),          # 0..4 -> depends on lib (index mod j) if j > 0
        "underlinked": st.sampled_from([False, False, False, True]),
        "weak_defs": st.booleans(),
    })
    obj = st.fixed_dictionaries({
        "refs": st.lists(st.tuples(st.integers(0, 15), st.sampled_from([False, False, True])).map(list),
                         min_size=0, max_size=3),
        "defs": st.lists(st.integers(0, NSYM - 1), min_size=0, max_size=1),
        "define": st.sampled_from([False, False, False, True]),
    })
    tok = st.one_of(
        st.tuples(st.just("lib"), st.integers(0, 9), st.sampled_from(["path", "path", "l", "script", "script-as-needed"])).map(list),
        st.tuples(st.just("lib"), st.integers(0, 9), st.sampled_from(["path", "l"])).map(list),
        st.tuples(st.just("obj"), st.integers(0, 9)).map(list),
        st.sampled_from([["as-needed"], ["as-needed"], ["no-as-needed"], ["push"], ["pop"]]),
        st.sampled_from([["as-needed"], ["no-as-needed"], ["push"], ["pop"]]),
        # --whole-archive regions must not influence which shared libraries are needed.
        st.sampled_from([["whole-archive"], ["no-whole-archive"]]),
    )
    return st.fixed_dictionaries({
        "libs": st.lists(lib, min_size=1, max_size=5),
        "objs": st.lists(obj, min_size=1, max_size=3),
        "line": st.lists(tok, min_size=2, max_size=12),
        "objs_first": st.sampled_from([True, True, True, True, True, False]),
        "output": st.sampled_from(["exe", "exe", "pie", "shared"]),
        "start_as_needed": st.sampled_from([True, True, False]),
        "allow_twice": st.sampled_from([False, False, False, False, True]),
    })


def normalize(case):
    if "objs_first" not in case:
        return case
    libs, objs = case["libs"], case["objs"]
    nl, no = len(libs), len(objs)
    # Libraries: unique definitions inside a lib; dependency on an earlier lib.
    for j, lib in enumerate(libs):
        lib["defs"] = sorted(set(lib["defs"]))
        if lib.pop("ndefs_min1") and not lib["defs"]:
            lib["defs"] = [(3 * j + 1) % NSYM]
        d = lib.pop("dep")
        lib["dep"] = (d % j) if (j > 0 and d < 5) else None
        if lib["dep"] is not None and not libs[lib["dep"]]["defs"]:
            lib["dep"] = None
        if lib["dep"] is None:
            lib["underlinked"] = False
    lib_defined = {s for lib in libs for s in lib["defs"]}
    for o in objs:
        o["defs"] = sorted(set(o["defs"])) if o.pop("define") else []
    obj_defined = set()
    for o in objs:
        o["defs"] = [s for s in o["defs"] if s not in obj_defined]  # no duplicate strong definitions
        obj_defined |= set(o["defs"])
    for o in objs:
        refs, seen = [], set()
        lib_syms = sorted(lib_defined)
        for idx, weak in o["refs"]:
            # Mostly aim references at symbols some library defines.
            s = lib_syms[idx % len(lib_syms)] if (idx < 12 and lib_syms) else idx % NSYM
            if s in seen or s in o["defs"]:
                continue
            if not weak and s not in lib_defined and s not in obj_defined and case["output"] != "shared":
                continue  # would be an undefined-symbol error
            seen.add(s)
            refs.append([s, bool(weak)])
        o["refs"] = sorted(refs)
    # Command line: valid indices, balanced pops, every object exactly once, every library that
    # another listed library depends on present (GNU ld needs it to check shlib undefineds).
    line, depth, seen_obj = [], 0, set()
    seen_lib = set()
    for t in case["line"]:
        if t[0] == "lib":
            if t[1] % nl in seen_lib and not case["allow_twice"]:
                continue
            seen_lib.add(t[1] % nl)
            line.append(["lib", t[1] % nl, t[2]])
        elif t[0] == "obj":
            i = t[1] % no
            if i not in seen_obj:
                seen_obj.add(i)
                line.append(["obj", i])
        elif t[0] == "pop":
            if depth > 0:
                depth -= 1
                line.append(t)
        else:
            if t[0] == "push":
                depth += 1
            line.append(t)
    for i in range(no):
        if i not in seen_obj:
            line.insert(0, ["obj", i])
    on_line = {t[1] for t in line if t[0] == "lib"}
    for j in range(nl):
        if j not in on_line:
            line.append(["lib", j, "path"])
    if case["objs_first"]:
        line = [t for t in line if t[0] == "obj"] + ([["as-needed"]] if case["start_as_needed"] else []) + \
            [t for t in line if t[0] != "obj"]
    elif case["start_as_needed"]:
        line.insert(0, ["as-needed"])
    return {"libs": libs, "objs": objs, "line": line, "output": case["output"]}


def lib_file(j):
    return f"libv{j}.so"


def needed_name(lib, j, spelling):
    if lib["soname"]:
        return f"libv{j}.so.1"
    return lib_file(j) if spelling == "l" else f"./{lib_file(j)}"


def model_needed(case):
    """The statement: [(lib index, spelling of the first occurrence)] in command-line order."""
    libs, objs = case["libs"], case["objs"]
    obj_defined = {s for o in objs for s in o["defs"]}
    strong_refs = {s for o in objs for s, weak in o["refs"] if not weak and s not in obj_defined}
    stack, as_needed = [], False
    occ = []  # (lib, as_needed, spelling) per occurrence in order
    for t in case["line"]:
        if t[0] == "as-needed":
            as_needed = True
        elif t[0] == "no-as-needed":
            as_needed = False
        elif t[0] == "push":
            stack.append(as_needed)
        elif t[0] == "pop":
            as_needed = stack.pop()
        elif t[0] == "lib":
            occ.append((t[1], as_needed or t[2] == "script-as-needed", t[2]))
    order = []
    for j, _, sp in occ:
        if j not in [x for x, _ in order]:
            order.append((j, sp))
    satisfies = set()
    for s in strong_refs:
        for j, _ in order:
            if s in libs[j]["defs"]:
                satisfies.add(j)
                break
    forced = {j for j, an, _ in occ if not an}
    return [(j, sp) for j, sp in order if j in forced or j in satisfies], occ, satisfies, forced


KNOWN_DUP = "needed-duplicate-soname-via-different-paths"


def dup_path_domain(case):
    """Exact domain of the known finding: the same library reached through two different path
    texts. wild keys loaded files by path text (`./libx.so` as typed vs the absolute path produced
    by -l / linker-script lookup) and emits one DT_NEEDED per loaded instance; GNU ld and lld
    de-duplicate by soname."""
    cls = {}
    for t in case["line"]:
        if t[0] == "lib":
            cls.setdefault(t[1], set()).add("typed" if t[2] == "path" else "searched")
    return any(len(v) == 2 for v in cls.values())


KNOWN_REPEAT = "repeated-lib-mention-flags-ignored"


def repeat_domain_libs(case):
    """Exact domain of the second known finding: a library mentioned more than once under the same
    path text where the mentions differ in their --as-needed state, or mix a linker-script mention
    with a direct `-l` mention. wild loads each path once: the first *direct* command-line mention
    wins (they are all registered before any linker script is read), else the first script
    mention; the flags (and position) of every other mention are ignored. GNU ld and the
    statement treat the library as linked without --as-needed if any mention is."""
    _, occ, _, _ = model_needed(case)
    groups = {}
    for j, an, sp in occ:
        groups.setdefault((j, "typed" if sp == "path" else "searched"), []).append((an, sp))
    out = set()
    for (j, _), lst in groups.items():
        if len(lst) < 2:
            continue
        flags = {an for an, _ in lst}
        direct = {sp == "l" for _, sp in lst}
        if len(flags) == 2 or len(direct) == 2:
            out.add(j)
    return out


def build_inputs(case, d):
    libs, objs = case["libs"], case["objs"]
    for j, lib in enumerate(libs):
        spec = {"defs": [{"name": sym(s), "kind": "func" if s % 2 else "data",
                          "strength": "weak" if lib["weak_defs"] else "strong", "id": 0x100 * (j + 1) + s}
                         for s in lib["defs"]], "refs": []}
        extra = []
        if lib["dep"] is not None:
            dep = libs[lib["dep"]]
            spec["refs"].append({"name": sym(dep["defs"][0]), "kind": "data", "weak": False})
            if not lib["underlinked"]:
                extra = ["--no-as-needed", f"./{lib_file(lib['dep'])}"]
        symgen.build_shared(spec, lib_file(j), d, soname=f"libv{j}.so.1" if lib["soname"] else None, extra=extra)
        tools.write(f"{d}/scr{j}.ld", f"INPUT ( ./{lib_file(j)} )\n")
        tools.write(f"{d}/scra{j}.ld", f"INPUT ( AS_NEEDED ( ./{lib_file(j)} ) )\n")
    for i, o in enumerate(objs):
        spec = {"defs": [{"name": sym(s), "kind": "func" if s % 2 else "data", "strength": "strong", "id": 0x9000 + s}
                         for s in o["defs"]],
                "refs": [{"name": sym(s), "kind": "func" if s % 2 else "data", "weak": weak} for s, weak in o["refs"]]}
        symgen.build_obj(spec, f"o{i}.o", d)
    if case["output"] != "shared":
        symgen.runtime_obj(d)


def command_line(case):
    args = ["-L."]
    if case["output"] == "shared":
        args += ["-shared"]
    else:
        args += ["-dynamic-linker", symgen.DYNLINKER]
        if case["output"] == "pie":
            args += ["-pie"]
        args += ["rt.o"]
    for t in case["line"]:
        if t[0] == "obj":
            args.append(f"o{t[1]}.o")
        elif t[0] == "lib":
            j, sp = t[1], t[2]
            args.append({"path": f"./{lib_file(j)}", "l": f"-lv{j}", "script": f"scr{j}.ld",
                         "script-as-needed": f"scra{j}.ld"}[sp])
        else:
            args.append({"as-needed": "--as-needed", "no-as-needed": "--no-as-needed", "push": "--push-state",
                         "pop": "--pop-state", "whole-archive": "--whole-archive",
                         "no-whole-archive": "--no-whole-archive"}[t[0]])
    return args


class C37(Check):
    prop = "C37"
    level = "exploration"
    technique = ("model-based + differential PBT vs GNU ld: generated shared libraries, objects and command lines with "
                 "as-needed regions; the output's DT_NEEDED sequence is compared with the stated rule and with GNU ld")
    rule = ("Hypothesis-generated: 1-5 shared libraries (soname or not, inter-library dependencies, duplicate symbols) x "
            "1-3 objects with strong/weak/no references x a command line of <=12 tokens with --as-needed/--no-as-needed/"
            "--push-state/--pop-state, path / -l / linker-script spellings, repeated libraries; executable, PIE or shared "
            "output; non-trivial = at least one as-needed library is needed and one is not, or an as-needed library is "
            "referenced only weakly or only from another library; distinct by the command line + reference table")
    assumptions = ["GNU ld 2.40 is the reference", "libraries without soname are named by the path given on the command line"]
    quick_cases = 320
    thorough_cases = 10000

    def strategy(self, tier):
        return raw_strategy().map(normalize)

    @symgen.memo_run_case
    def run_case(self, case, ctx):
        d = ctx.dir
        build_inputs(case, d)
        args = command_line(case)
        needed, occ, satisfies, forced = model_needed(case)
        libs, objs = case["libs"], case["objs"]
        exp = [needed_name(libs[j], j, sp) for j, sp in needed]
        listed = {j for j, _, _ in occ}
        as_needed_libs = {j for j in listed if j not in forced}
        weak_syms = {s for o in objs for s, weak in o["refs"] if weak}
        strong_syms = {s for o in objs for s, weak in o["refs"] if not weak}
        weak_only = {j for j in as_needed_libs if j not in satisfies and any(s in weak_syms and s not in strong_syms
                                                                            for s in libs[j]["defs"])}
        lib_only = {j for j in as_needed_libs if j not in satisfies and
                    any(l["dep"] == j for k, l in enumerate(libs) if k in listed)}
        shadowed = {j for j in as_needed_libs if j not in satisfies and any(s in strong_syms for s in libs[j]["defs"])}
        classes = ["out:" + case["output"]]
        if as_needed_libs & satisfies:
            classes.append("as-needed-used")
        if as_needed_libs - satisfies:
            classes.append("as-needed-dropped")
        if weak_only:
            classes.append("weak-only")
        if lib_only:
            classes.append("lib-to-lib-only")
        if shadowed:
            classes.append("shadowed-by-earlier-def")
        if any(t[0] in ("push", "pop") for t in case["line"]):
            classes.append("push-pop")
        if len(occ) != len(listed):
            classes.append("lib-listed-twice")
        for sp in sorted({sp for _, _, sp in occ}):
            classes.append("spelling:" + sp)
        if any(not l["soname"] for l in libs):
            classes.append("no-soname")
        if any(l["underlinked"] for l in libs):
            classes.append("underlinked-lib")
        first_lib = next((i for i, t in enumerate(case["line"]) if t[0] == "lib"), 99)
        last_obj = max((i for i, t in enumerate(case["line"]) if t[0] == "obj"), default=-1)
        if last_obj > first_lib:
            classes.append("lib-before-object")
        nontrivial = bool((as_needed_libs & satisfies and as_needed_libs - satisfies) or weak_only or lib_only)
        info = {"nontrivial": nontrivial, "classes": classes,
                "key": " ".join(args) + "|" + ";".join(f"{o['defs']}{o['refs']}" for o in objs) + "|" +
                ";".join(f"{l['defs']}{l['dep']}{int(l['soname'])}" for l in libs)}

        r = symgen.link("ld", [*args, "-o", "r.out"], cwd=d)
        if r.timed_out:
            raise Inconclusive("ld timed out")
        if r.rc != 0:
            import re
            classes.append("ld-rejects")
            first = [l for l in r.err.strip().split("\n") if l.strip()][0]
            raise Discard("ld rejects: " + re.sub(r"[0-9]+", "N", first)[-60:])
        ld_needed = Elf(f"{d}/r.out").needed()
        if ld_needed != exp:
            cls = "split:" + ("under" if any(l["underlinked"] for l in libs) else
                              "twice" if len(occ) != len(listed) else
                              "libfirst" if last_obj > first_lib else "other")
            classes.append(cls)
            raise OracleSplit(f"ld {ld_needed} != model {exp} [{cls}] for {' '.join(args)}")
        w = symgen.link("wild", [*args, "-o", "w.out"], cwd=d)
        if w.timed_out:
            raise Inconclusive("wild timed out")
        if symgen.wild_crashed(w):
            raise Violation("crash", f"wild crashed: rc={w.rc} {w.err[-400:]}", {"args": args})
        if w.rc != 0:
            if symgen.wild_unsupported(w):
                raise Discard("wild: unsupported: " + w.err.strip().split("\n")[-1][-60:])
            raise Violation("rejects-valid", f"GNU ld links it with DT_NEEDED {ld_needed} (= model); wild fails: {w.err[-300:]}",
                            {"args": args})
        got = Elf(f"{d}/w.out").needed()
        if got != exp:
            raise Violation(self._sig(case, got, exp, libs, needed, occ, satisfies, weak_only, lib_only),
                            f"DT_NEEDED: statement and GNU ld give {exp}, wild gives {got} for `{' '.join(args)}`",
                            {"args": args, "expected": exp, "wild": got})
        return info

    def excluded_by_construction(self, case):
        if dup_path_domain(case):
            return KNOWN_DUP
        return KNOWN_REPEAT if repeat_domain_libs(case) else None

    @staticmethod
    def _sig(case, got, exp, libs, needed, occ, satisfies, weak_only, lib_only):
        names = {}
        for j, _, sp in occ:
            names.setdefault(needed_name(libs[j], j, sp), j)
            # any spelling of the same lib maps back to it
            for sp2 in ("path", "l"):
                names.setdefault(needed_name(libs[j], j, sp2), j)
        gj = [names.get(n) for n in got]
        ej = [j for j, _ in needed]
        if None in gj:
            return "needed-string"
        rep = repeat_domain_libs(case)
        if rep and [j for j in gj if j not in rep] == [j for j in ej if j not in rep]:
            return KNOWN_REPEAT
        if gj == ej:
            return "needed-string"
        if sorted(gj) == sorted(ej):
            return "needed-order"
        extra = [j for j in gj if j not in ej]
        missing = [j for j in ej if j not in gj]
        if len(gj) != len(set(gj)):
            return KNOWN_DUP if dup_path_domain(case) else "needed-duplicate-entry"
        if extra and not missing:
            if set(extra) <= weak_only:
                return "extra:weakly-referenced-as-needed-lib"
            if set(extra) <= lib_only:
                return "extra:as-needed-lib-referenced-from-lib-only"
            return "extra:unneeded-as-needed-lib"
        if missing and not extra:
            forced = {j for j, an, _ in occ if not an}
            return "missing:no-as-needed-lib" if set(missing) & forced else "missing:needed-as-needed-lib"
        return "needed-set"


CHECK = C37()
