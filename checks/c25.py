"""C25 — The dependency file lists exactly the files the link read.

Case: a generated link line mixing plain objects, used and unused archives, thin archives (also
thin archives that share a member with each other or with the command line), shared libraries,
`-l` lookups through `-L`, linker scripts (on the command line with INPUT/GROUP, nested two deep,
`-T`), `--version-script`, `--dynamic-list` / `--export-dynamic-symbol-list`,
`--retain-symbols-file`, a response file, the same file named twice, and relative / absolute /
`./` / `dir/../` spellings.

Oracle: ground truth R = regular files under the scratch tree that the wild processes opened
read-only, from `strace -f -e trace=open,openat,openat2` of the very run that wrote the
dependency file (minus the output and the dependency file).  The dependency file is parsed as a
Makefile rule: its target must be the `-o` path; no prerequisite string may occur twice; every
prerequisite must be a file that was read; every file in R must be covered by a prerequisite
(compared as canonical paths).  GNU ld's dependency file is not the oracle.

Out of domain (not generated): names containing Makefile-special characters -- neither wild nor
GNU ld escapes them, so the Makefile-rule predicate would flag the reference linker too.
Not judged either way: response files and --retain-symbols-file (read during argument parsing; not
in the statement's enumeration of kinds, GNU ld omits them as well) -- counted only.

Known findings (unchanged tree), one per omitted input kind: the thin archive file itself, the
version script, the export list (--dynamic-list / --export-dynamic-symbol-list).  While a kind is
listed as known the comparison ignores exactly that kind (and counts it); all other kinds stay
checked.  In strict replay nothing is ignored.
"""
import os
import re

from hypothesis import strategies as st

from vlib import core, hist, tools
from vlib.core import Check, Discard, Inconclusive, Violation, load_known

KINDS = ["obj", "archive", "thin", "shared", "lstatic", "lshared"]
VIAS = ["cmd", "cmd", "script", "nested", "rsp"]
SPELLS = ["rel", "abs", "dot", "dotdot"]
IGNORED_KINDS = {"response-file", "retain-symbols-file"}
OPTION_FILE_KINDS = ("version-script", "export-list", "retain-symbols-file", "linker-script-T")
KNOWN_KIND_SIGS = {"thin-archive": "omitted:thin-archive", "version-script": "omitted:version-script",
                   "export-list": "omitted:export-list"}


def spell(path, how, w):
    if how == "abs":
        return os.path.join(w, path)
    if how == "dot":
        return "./" + path
    if how == "dotdot":
        return "sub/../" + path
    return path


def fn_obj(sym, extra=""):
    return f".globl {sym}\n.text\n{sym}:\n  ret\n{extra}"


class C25(Check):
    prop = "C25"
    level = "exploration"
    technique = ("PBT (Hypothesis) over generated link lines; ground truth = files opened read-only under the "
                 "scratch tree per strace -f of the same run; dependency file parsed as a Makefile rule and compared "
                 "as canonical path sets + exact-string duplicate check")
    rule = ("a case = 1-6 providers (kind x used/unused x how it is named: command line / INPUT-GROUP script / nested "
            "script / response file x spelling x named twice) + option files; non-trivial = the read set contains a "
            "file that is not a plain command-line object (script, thin member, archive, -l library, option file); "
            "distinct by the multiset of (kind, via, used, spelling, twice) + option set")
    assumptions = [
        "strace's successful O_RDONLY opens of regular files under the scratch tree are the files whose contents the link read",
        "response files and --retain-symbols-file are not judged (outside the statement's enumeration; GNU ld omits them too)",
        "names with Makefile-special characters are outside the domain (the reference linker does not escape them either)",
        "different spellings of one file that were each opened may each be listed; only identical prerequisite strings count as 'twice'",
    ]
    quick_cases = 240
    thorough_cases = 8000

    def strategy(self, tier):
        prov = st.fixed_dictionaries({
            "kind": st.sampled_from(KINDS),
            "used": st.booleans(),
            "via": st.sampled_from(VIAS),
            "spell": st.sampled_from(SPELLS),
            "twice": st.sampled_from([False, False, False, True]),
            "group": st.booleans(),          # GROUP() instead of INPUT() when via a script
            "share": st.booleans(),          # thin: also contains the first plain object's file as a member
        })
        return st.fixed_dictionaries({
            "providers": st.lists(prov, min_size=1, max_size=6),
            # True = an ordinary version script; "empty" = a zero-length file, "comment" = only a comment
            # (both parse to "no versions", as generated per-configuration scripts sometimes are)
            "version_script": st.sampled_from([False, False, True, True, "empty", "comment"]),
            "export": st.sampled_from(["none", "none", "dynamic-list", "export-dynamic-symbol-list"]),
            "retain": st.sampled_from([False, False, True]),
            "tscript": st.sampled_from([False, False, False, True]),
            "shared_out": st.booleans(),
            "threads": st.sampled_from([0, 1, 2]),
            "fork": st.booleans(),
            "outdir": st.booleans(),
            "same_spelling": st.sampled_from([False, False, True]),
        })

    def _known_listed(self):
        if not hasattr(self, "_kl"):
            self._kl = {e["signature"] for e in load_known(self.prop) if e.get("status") == "known"}
        return self._kl

    # --------------------------------------------------------------------------------------------
    @hist.retry_environmental
    def run_case(self, case, ctx):
        w = os.path.join(ctx.dir, "w")
        os.makedirs(os.path.join(w, "sub"))
        os.makedirs(os.path.join(w, "mem"))
        kind_of = {}      # canonical path -> kind label
        provs = case["providers"]
        shared_out = bool(case["shared_out"] or case["version_script"])

        def reg(path, kind):
            kind_of[os.path.realpath(os.path.join(w, path))] = kind

        # Main object.
        main = [".globl _start", ".text", "_start:"]
        for i, p in enumerate(provs):
            if p["used"] or p["kind"] == "obj":
                main.append(f"  call p{i}@PLT")
        if case.get("same_spelling"):
            main += ["  call pdupa@PLT", "  call pdupb@PLT"]
        main += ["  ret", ""]
        tools.asm("\n".join(main), "u.o", cwd=w)
        reg("u.o", "object")

        first_obj = next((i for i, p in enumerate(provs) if p["kind"] == "obj"), None)
        shared_member_cases = []
        cmd_items = []     # (text args list, via)
        rsp_args = []
        for i, p in enumerate(provs):
            k = p["kind"]
            if k == "obj":
                path = f"o{i}.o"
                tools.asm(fn_obj(f"p{i}"), path, cwd=w)
                reg(path, "object")
                arg = [spell(path, p["spell"], w)]
            elif k == "archive":
                tools.asm(fn_obj(f"p{i}"), f"am{i}_0.o", cwd=w)
                tools.asm(fn_obj(f"q{i}"), f"am{i}_1.o", cwd=w)
                path = f"ar{i}.a"
                tools.ar(path, [f"am{i}_0.o", f"am{i}_1.o"], cwd=w)
                os.unlink(os.path.join(w, f"am{i}_0.o"))
                os.unlink(os.path.join(w, f"am{i}_1.o"))
                reg(path, "archive")
                arg = [spell(path, p["spell"], w)]
            elif k == "thin":
                members = [f"mem/tm{i}_0.o", f"mem/tm{i}_1.o"]
                tools.asm(fn_obj(f"p{i}"), members[0], cwd=w)
                tools.asm(fn_obj(f"q{i}"), members[1], cwd=w)
                spelling = p["spell"]
                if p["share"]:
                    # Share a member with an earlier thin archive or with a command-line object, using
                    # the same spelling, so that the very same path string is loaded twice.
                    prev_thin = next((j for j in range(i) if provs[j]["kind"] == "thin"), None)
                    if prev_thin is not None:
                        members.append(f"mem/tm{prev_thin}_0.o")
                        spelling = provs[prev_thin]["spell"]
                    elif first_obj is not None and first_obj < i:
                        members.append(f"o{first_obj}.o")
                        spelling = provs[first_obj]["spell"]
                path = f"th{i}.a"
                tools.ar(path, members, cwd=w, thin=True)
                reg(path, "thin-archive")
                for m in members:
                    if os.path.realpath(os.path.join(w, m)) not in kind_of:
                        reg(m, "thin-member")
                if len(members) > 2:
                    shared_member_cases.append(i)
                arg = [spell(path, spelling, w)]
            elif k == "shared":
                os.makedirs(os.path.join(w, f"so{i}"))
                tools.asm(fn_obj(f"p{i}"), f"so{i}/s.o", cwd=w)
                path = f"so{i}/libs{i}.so"
                tools.must(tools.link("ld", ["-shared", f"so{i}/s.o", "-o", path], cwd=w), "building shared lib")
                os.unlink(os.path.join(w, f"so{i}/s.o"))
                reg(path, "shared-library")
                arg = [spell(path, p["spell"], w)]
            elif k == "lstatic":
                os.makedirs(os.path.join(w, f"L{i}"))
                tools.asm(fn_obj(f"p{i}"), f"L{i}/m.o", cwd=w)
                tools.ar(f"L{i}/libl{i}.a", [f"L{i}/m.o"], cwd=w)
                os.unlink(os.path.join(w, f"L{i}/m.o"))
                reg(f"L{i}/libl{i}.a", "archive-via-l")
                arg = ["-L" + spell(f"L{i}", p["spell"], w), f"-ll{i}"]
            else:  # lshared
                os.makedirs(os.path.join(w, f"L{i}"))
                tools.asm(fn_obj(f"p{i}"), f"L{i}/m.o", cwd=w)
                tools.must(tools.link("ld", ["-shared", f"L{i}/m.o", "-o", f"L{i}/libd{i}.so"], cwd=w), "shared lib")
                os.unlink(os.path.join(w, f"L{i}/m.o"))
                reg(f"L{i}/libd{i}.so", "shared-via-l")
                arg = ["-L" + spell(f"L{i}", p["spell"], w), f"-ld{i}"]
            via = p["via"]
            if k in ("lstatic", "lshared") and via in ("script", "nested"):
                via = "cmd"
            if via in ("script", "nested"):
                kw = "GROUP" if p["group"] else "INPUT"
                inner = f"s{i}.ld"
                tools.write(os.path.join(w, inner), f"{kw}({arg[0]})\n")
                reg(inner, "linker-script")
                if via == "nested":
                    outer = f"n{i}.ld"
                    tools.write(os.path.join(w, outer), f"INPUT({inner})\n")
                    reg(outer, "linker-script")
                    arg = [outer]
                else:
                    arg = [inner]
            times = 2 if (p["twice"] and k in ("archive", "thin", "shared", "lstatic", "lshared")) else 1
            for _ in range(times):
                if via == "rsp":
                    rsp_args += arg
                else:
                    cmd_items.append(arg)

        args = ["u.o"]
        if rsp_args:
            tools.write(os.path.join(w, "args.rsp"), "\n".join(rsp_args) + "\n")
            reg("args.rsp", "response-file")
            args.append("@args.rsp")
        if case.get("same_spelling"):
            # Two different files requested under one spelling: `dupname.o` on the command line and `INPUT(dupname.o)`
            # in a script that lives in sub/ (script inputs are looked up next to the script first). Both are read.
            tools.asm(".globl pdupa\n.text\npdupa:\n  ret\n", "dupname.o", cwd=w)
            tools.asm(".globl pdupb\n.text\npdupb:\n  nop\n  ret\n", "sub/dupname.o", cwd=w)
            tools.write(os.path.join(w, "sub", "sd.ld"), "INPUT(dupname.o)\n")
            reg("dupname.o", "object")
            reg("sub/dupname.o", "object")
            reg("sub/sd.ld", "linker-script")
            cmd_items.append(["dupname.o"])
            cmd_items.append(["sub/sd.ld"])
        for a in cmd_items:
            args += a
        if shared_out:
            args.insert(0, "-shared")
        if case["version_script"]:
            tools.write(os.path.join(w, "v.ver"), {"empty": "", "comment": "/* no versions in this configuration */\n"}.get(
                case["version_script"], "VERS_1 { global: _start; p*; local: *; };\n"))
            reg("v.ver", "version-script")
            args.append("--version-script=v.ver")
        if case["export"] != "none":
            tools.write(os.path.join(w, "exp.lst"), "{ _start; };\n")
            reg("exp.lst", "export-list")
            args.append(f"--{case['export']}=exp.lst")
        if case["retain"]:
            tools.write(os.path.join(w, "retain.txt"), "_start\n")
            reg("retain.txt", "retain-symbols-file")
            args.append("--retain-symbols-file=retain.txt")
        if case["tscript"]:
            tools.write(os.path.join(w, "layout.ld"), "SECTIONS { .text : { *(.text*) } }\n")
            reg("layout.ld", "linker-script-T")
            args += ["-T", "layout.ld"]
        if case["outdir"]:
            os.makedirs(os.path.join(w, "o"))
            out, dep = "o/prog.out", "o/prog.d"
        else:
            out, dep = "prog.out", "prog.d"
        args += ["-o", out, f"--dependency-file={dep}"]
        if case["threads"]:
            args.append(f"--threads={case['threads']}")
        if not case["fork"]:
            args.append("--no-fork")

        meta = os.path.join(ctx.dir, "m")
        os.makedirs(meta)
        tf = os.path.join(meta, "strace.txt")
        res = hist.run_all(["strace", "-f", "-s", "4096", "-o", tf, "-e", "trace=open,openat,openat2,stat,lstat,newfstatat,statx",
                            core.WILD, *args],
                           cwd=w, env=hist.clean_env(), timeout=240)
        if res.timed_out:
            raise Inconclusive("wild (under strace) timed out")
        if res.rc != 0:
            if hist.crashed(res):
                raise Inconclusive(f"wild crashed: {res.err[-300:]}")
            raise Discard("wild rejects the link: " + (res.err.strip().split("\n")[0][:60] if res.err.strip() else "?"))
        try:
            st_text = open(tf, errors="replace").read()
        except OSError:
            raise Inconclusive("no strace output")

        # Ground truth.
        wreal = os.path.realpath(w)
        excluded = {os.path.realpath(os.path.join(w, out)), os.path.realpath(os.path.join(w, dep))}
        R = {}
        for path, flags, ret in hist.parse_strace_opens(st_text):
            if ret < 0 or "O_RDONLY" not in flags or "O_DIRECTORY" in flags:
                continue
            full = os.path.realpath(os.path.join(w, path))
            if not full.startswith(wreal + "/") or full in excluded or not os.path.isfile(full):
                continue
            R[full] = kind_of.get(full, "unclassified")
        # An option file named on the command line whose metadata the link inspected was consulted as well
        # (e.g. its length decides what the link does), even if it was never opened.
        for path in hist.parse_strace_stats(st_text):
            full = os.path.realpath(os.path.join(w, path))
            if kind_of.get(full) in OPTION_FILE_KINDS and full not in excluded and os.path.isfile(full):
                R.setdefault(full, kind_of[full])
        if kind_of[os.path.realpath(os.path.join(w, "u.o"))] and os.path.realpath(os.path.join(w, "u.o")) not in R:
            raise Inconclusive("strace ground truth does not even contain the main object")

        # Dependency file.
        try:
            text = open(os.path.join(w, dep)).read()
        except OSError:
            raise Violation("dependency-file-missing", f"wild exited 0 but `{dep}` was not written", {"args": args})
        logical = re.sub(r"\\\n", " ", text).split("\n")
        rules = [ln for ln in logical if ln.strip()]
        if not rules or ":" not in rules[0]:
            raise Violation("dependency-file-unparsable", f"first rule: {rules[:1]}", {"args": args})
        target, _, rhs = rules[0].partition(":")
        prereqs = rhs.split()
        if target.strip() != out:
            raise Violation("wrong-target", f"target `{target.strip()}` != -o `{out}`", {"args": args, "dep": text[:500]})
        dups = sorted({p for p in prereqs if prereqs.count(p) > 1})
        if dups:
            raise Violation("duplicate-prerequisite", f"{dups[0]} is listed {prereqs.count(dups[0])} times",
                            {"args": args, "dep": text[:800]})
        listed = {}
        for p in prereqs:
            listed.setdefault(os.path.realpath(os.path.join(w, p)), p)
        for full, p in sorted(listed.items()):
            if full not in R:
                raise Violation("lists-file-not-read", f"prerequisite `{p}` was not opened for reading by the link",
                                {"args": args, "dep": text[:800], "read": sorted(R)})
        info = {"classes": [], "counters": {}}
        missing = []
        for full, kind in sorted(R.items()):
            if full in listed:
                continue
            if kind in IGNORED_KINDS:
                info["counters"]["unjudged_" + kind] = info["counters"].get("unjudged_" + kind, 0) + 1
                continue
            sig = KNOWN_KIND_SIGS.get(kind, "omitted:" + kind)
            if not ctx.strict and sig in self._known_listed():
                info["counters"]["ignored_known_" + kind] = info["counters"].get("ignored_known_" + kind, 0) + 1
                continue
            missing.append((kind, sig, full))
        if missing:
            kind, sig, full = missing[0]
            raise Violation(sig, f"`{os.path.relpath(full, w)}` ({kind}) was read by the link but is not a prerequisite "
                            f"in `{dep}`; all missing: {[(k, os.path.relpath(f, w)) for k, _, f in missing]}",
                            {"args": args, "dep": text[:800]})

        kinds = sorted(set(R.values()))
        for k in kinds:
            info["classes"].append("read:" + k)
        for p in provs:
            info["classes"].append(f"via:{p['via']}")
        if any(p["twice"] for p in provs):
            info["classes"].append("named-twice")
        if case.get("same_spelling"):
            info["classes"].append("same-spelling-two-files")
        if shared_member_cases:
            info["classes"].append("same-path-loaded-twice(thin member shared)")
        n_listed_twice_alias = len(prereqs) - len(listed)
        if n_listed_twice_alias:
            info["classes"].append("alias-spellings-listed")
        info["nontrivial"] = any(k != "object" for k in R.values())
        info["key"] = ";".join(sorted(f"{p['kind']},{p['via']},{int(p['used'])},{p['spell']},{int(p['twice'])}"
                                      for p in provs)) + \
            f"|{case['version_script']}{case['export']}{int(case['retain'])}{int(case['tscript'])}{int(shared_out)}"
        return info


CHECK = C25()
