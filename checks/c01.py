"""C01 — Relocated values are correct at run time (x86-64, executed).

Domain: progen site programs: 2-4 assembly objects; every reference site is (reference kind x
target symbol kind x binding x addend) with reference kinds R_X86_64_64 (data and text), 32, 32S,
PC32 (text and data), PC64, PLT32 (call/jmp), GOTPCREL, GOTPCRELX, REX_GOTPCRELX with
mov/add/sub/or/xor/and/adc/sbb/cmp/test, GOT64, GOTOFF64 + GOTPC32, PLTOFF64, TPOFF32, GOTTPOFF,
TLSGD, TLSLD + DTPOFF32, GOTPC32_TLSDESC + TLSDESC_CALL, and a call that comes back from a DSO by
name; symbol kinds local / global / hidden / protected / weak-defined functions and data (with
section-symbol + offset forms for locals), weak duplicates that lose to a strong definition,
common, absolute, ifunc, TLS (tdata/tbss), mergeable strings, weak undefined, and functions / data
/ TLS defined in a shared library (PLT, canonical PLT, copy relocation); output kinds static
(freestanding), static libc, static-pie, PIE, dynamic non-PIE, shared; options relax on/off,
-z now, --no-gc-sections.  The soundness table (`progen.ref_ok`) was calibrated by probing: a
combination is in the domain only if GNU ld and lld both accept it and agree with the model.

Oracle: execute.  Expected output = the generator's own model ("site reaches the definition the
resolver picks, plus addend"); it must equal the program linked by GNU ld and by lld (consensus;
disagreement = OracleSplit, a reference rejecting = Discard).  wild's program must print the same
(PIE/shared are run three times: three load addresses).  A complete matrix pass (every in-domain
reference kind x symbol kind x binding, per output kind) runs after the random phase.

Known findings excluded by construction (exact domains in progen.known_domain).
AArch64 static-formula tier: not implemented (no emulator; out of time budget).
"""
import concurrent.futures
import hashlib
import json
import os
import re
import shutil

from hypothesis import strategies as st

from vlib import core, progen, tools
from vlib.core import Check, Ctx, Discard, Inconclusive, OracleSplit, Violation

MODES = ["static", "static-libc", "static-pie", "pie", "dyn", "shared"]
OPTSETS = [[], [], ["--no-relax"], ["-z", "now"], ["--no-gc-sections"], ["--no-relax", "-z", "now"]]
MATRIX_KINDS = ["func", "data", "rodata", "common", "tdata", "tbss", "abs", "ifunc", "str", "hfunc", "hdata", "htls",
                "wundef"]


def _wl(opts, mode):
    if mode == "static":
        return opts
    out, it = [], iter(opts)
    for o in it:
        out.append(o + "," + next(it) if o == "-z" else o)
    return out


def matrix_program(mode, kind, skip_known=True):
    """Deterministic program with one site per in-domain (ref, bind[, absolute value]) for `kind`."""
    P = progen
    binds = P.BINDS
    if kind in ("hfunc", "hdata", "htls"):
        binds = ["global"]
    elif kind == "wundef":
        binds = ["weak"]
    elif kind == "str":
        binds = ["local"]
    elif kind == "common":
        binds = ["global", "hidden"]
    elif kind == "ifunc":
        binds = ["local", "global", "hidden"]
    vals = [0]
    if kind == "abs":
        binds, vals = ["global", "hidden"], list(range(len(P.ABS_VALUES)))
    defs = []
    for b in binds:
        for v in vals:
            i = len(defs)
            defs.append({"kind": kind, "bind": b, "tu": 0 if kind not in ("hfunc", "hdata", "htls", "wundef") else -1,
                         "id": 0x100 + i, "pad": 1 + i % 2, "absval": P.ABS_VALUES[v] if kind == "abs" else 0, "sid": i % 3,
                         "dup_tu": None, "name": f"{kind}_{b}_{i}"})
    sites = []
    for di, d in enumerate(defs):
        for ref in P.REF_NAMES:
            for k0 in (1, 3):
                k = P.fix_k(ref, d, k0, [mode])
                if k0 == 3 and k == P.fix_k(ref, d, 1, [mode]):
                    continue
                if not P.ref_ok(ref, d, mode, k, allow_known=not skip_known):
                    continue
                n = len(sites) + 1
                sites.append({"n": n, "tu": 0 if d["bind"] == "local" else 1, "ref": ref, "tgt": di, "k": k, "ro": bool(n & 1)})
    return P.Program.explicit(2, defs, sites, [mode])


class C01(Check):
    prop = "C01"
    level = "exploration"
    technique = ("differential PBT by execution: wild vs consensus of {GNU ld, lld, generator model} on generated "
                 "multi-object programs; plus a complete reference-kind x symbol-kind x output-kind matrix pass")
    rule = ("Hypothesis-generated site programs (2-4 objects, <=12 sites) x output kind x option set; non-trivial = >= 2 "
            "objects, >= 1 cross-object reference and >= 1 site that is not a plain PC32/PLT32 reference to a local "
            "function; distinct by the multiset of (reference kind, symbol kind:binding) + output kind + options")
    assumptions = ["GNU ld 2.40 and lld 14 are the references; glibc 2.36 ld.so applies the dynamic relocations",
                   "x86-64 only (AArch64 formula tier not implemented)"]
    quick_cases = 260
    thorough_cases = 8000

    def strategy(self, tier):
        return st.fixed_dictionaries({
            "mode": st.integers(0, len(MODES) - 1),
            "opts": st.integers(0, len(OPTSETS) - 1),
            "prog": progen.program_strategy(max_defs=10, max_sites=12),
        })

    # ---------------------------------------------------------------------------------------------
    def _program(self, case):
        if "explicit" in case:      # hand-written minimal programs (known-finding replays)
            e = case["explicit"]
            return e["mode"], progen.Program.explicit(e["ntu"], e["defs"], e["sites"], [e["mode"]]), case.get("optlist", [])
        if "matrix" in case:
            m = case["matrix"]
            return m["mode"], matrix_program(m["mode"], m["kind"], skip_known=m.get("skip_known", True)), case.get("optlist", [])
        mode = MODES[case["mode"] % len(MODES)]
        prog = progen.realise(case["prog"], [mode], allow_known=True)
        opts = OPTSETS[case["opts"] % len(OPTSETS)]
        if mode == "static-pie":
            # glibc's static-pie start-up code linked by GNU ld / lld itself crashes under --no-relax
            opts = [o for o in opts if o != "--no-relax"]
        return mode, prog, opts

    def excluded_by_construction(self, case):
        mode, prog, _ = self._program(case)
        k = prog.known_domains()
        return k[0] if k else None

    @progen.shrink_budget(45)
    def run_case(self, case, ctx):
        mode, prog, opts = self._program(case)
        return self._run(prog, mode, opts, ctx, ctx.dir)

    def _run(self, prog, mode, opts, ctx, d):
        if not prog.sites:
            raise Discard("no valid site")
        em = prog.emit(d)
        expected, exp_rc = prog.expected(), prog.expected_rc()
        o = _wl(opts, mode)
        refs = {}
        for l in ("ld", "lld"):
            s, out, rc = progen.behaviour(l, mode, em["objs"], ctx, l, opts=o, libs=em["libs"], cwd=d)
            if s != "ok":
                raise Discard(f"{l} rejects: " + _errline(out))
            refs[l] = (out, rc)
        if refs["ld"] != refs["lld"]:
            raise OracleSplit(f"GNU ld vs lld ({mode} {opts}): {_first_diff(refs['ld'][0], refs['lld'][0])}")
        if refs["ld"] != (expected, exp_rc):
            raise OracleSplit(f"model vs GNU ld+lld ({mode} {opts}): {_first_diff(refs['ld'][0], expected)} rc={refs['ld'][1]}/{exp_rc}")
        s, out, rc = progen.behaviour("wild", mode, em["objs"], ctx, "wild", opts=o, libs=em["libs"], cwd=d)
        if s == "crash":
            raise Violation("wild-crash", f"wild crashed linking ({mode} {opts}): {out[-400:]}")
        if s == "reject":
            raise Discard("wild rejects: " + _errline(out))
        runs = [(out, rc)]
        if mode in ("pie", "shared", "static-pie"):
            for _ in range(2):
                runs.append(progen.run_program("wild.out", d))
        for out, rc in runs:
            if (out, rc) != (expected, exp_rc):
                self._report(prog, mode, opts, out, rc, expected, exp_rc)
        classes = [f"mode:{mode}"] + ["opt:" + x for x in opts if x != "-z"]
        for s_ in prog.sites:
            t = prog.defs[s_["tgt"]]
            classes.append(f"{s_['ref']}/{t['kind']}")
            classes.append(f"bind:{t['bind']}")
        cross = any(prog.defs[s_["tgt"]]["tu"] != s_["tu"] for s_ in prog.sites)
        interesting = any(not (s_["ref"] in ("pc32", "call", "jmp") and prog.defs[s_["tgt"]]["kind"] == "func"
                               and prog.defs[s_["tgt"]]["bind"] == "local") for s_ in prog.sites)
        key = hashlib.sha1(json.dumps([sorted(prog.classes()), mode, opts]).encode()).hexdigest()[:16]
        cells = sorted({f"{s_['ref']}|{prog.defs[s_['tgt']]['kind']}:{prog.defs[s_['tgt']]['bind']}|{mode}" for s_ in prog.sites})
        return {"nontrivial": prog.ntu >= 2 and cross and interesting, "key": key, "classes": sorted(set(classes)),
                "counters": {"sites": len(prog.sites)}, "cells": cells}

    @staticmethod
    def _report(prog, mode, opts, out, rc, expected, exp_rc):
        exp = expected.split("\n")
        got = out.split("\n")
        if rc < 0 and not out:
            doms = prog.known_domains()
            raise Violation(doms[0] if len(doms) == 1 and len(prog.sites) == 1 else f"program-crashes/{mode}",
                            f"wild-linked program dies with signal {-rc} before printing ({mode} {opts}); GNU ld, lld and the model agree")
        for i, s in enumerate(prog.sites):
            if i >= len(got) or got[i] != exp[i]:
                t = prog.defs[s["tgt"]]
                sig = progen.known_domain(s["ref"], t, mode) or f"value:{s['ref']}/{progen.CAT[t['kind']]}"
                raise Violation(sig, f"site {s['n']} ({s['ref']} -> {t['kind']} {t['bind']} {t['name']}"
                                f"{' =' + hex(t['absval']) if t['kind'] == 'abs' else ''}, addend index {s['k']}, {mode} {opts}): "
                                f"wild-linked program observes {got[i][9:] if i < len(got) else 'nothing'}, GNU ld, lld and the model "
                                f"give {exp[i][9:]}", {"got": out[-400:], "rc": rc})
        raise Violation(f"exit-status/{mode}", f"exit status {rc}, expected {exp_rc} ({mode} {opts})")

    # ---------------------------------------------------------------------------------------------
    def extra_phases(self, tier, seed, stats):
        """Matrix-completing pass: one program per (output kind, symbol kind) holding every in-domain
        (reference kind, binding, addend class)."""
        root = os.path.join(os.environ.get("VERIF_SCRATCH", "/dev/shm"), f"verif-{os.getpid()}-m")
        shutil.rmtree(root, ignore_errors=True)
        os.makedirs(root)
        ctx = Ctx(self, tier, root)
        cells = []
        for mode in MODES:
            for kind in MATRIX_KINDS:
                if kind in ("tdata", "tbss", "ifunc", "htls") and mode == "static":
                    continue
                if kind in ("hfunc", "hdata", "htls") and mode not in progen.DYNAMIC_MODES:
                    continue
                for optlist in ([], ["--no-relax"]) if tier == "thorough" else ([],):
                    if optlist and mode == "static-pie":
                        # glibc's static-pie start-up code crashes under --no-relax when linked by GNU ld or lld
                        # themselves: no reference for these cells (same exclusion as in C28)
                        continue
                    cells.append((mode, kind, optlist))
        # shell objects are compiled once, before the pool starts
        for mode in MODES:
            progen.runtime_objs(ctx, mode)

        def one(cell):
            mode, kind, optlist = cell
            prog = matrix_program(mode, kind)
            d = os.path.join(root, f"{mode}-{kind}-{len(optlist)}")
            os.makedirs(d)
            case = {"matrix": {"mode": mode, "kind": kind}, "optlist": optlist}
            try:
                info = self._run(prog, mode, optlist, ctx, d)
                return ("ok", case, info, len(prog.sites))
            except Violation as v:
                v.case = case
                return ("violation", case, v, 0)
            except (Discard, OracleSplit) as e:
                return ("skip", case, f"{type(e).__name__}: {e}", 0)
            finally:
                shutil.rmtree(d, ignore_errors=True)

        try:
            with concurrent.futures.ThreadPoolExecutor(max_workers=max(1, min(core.NWORKERS, 8))) as ex:
                results = list(ex.map(one, cells))
        finally:
            shutil.rmtree(root, ignore_errors=True)
        done = skipped = nsites = 0
        allcells = set()
        for status, case, info, n in results:
            if status == "ok":
                done += 1
                nsites += n
                stats.evaluations += 1
                stats.keys.add("matrix:" + json.dumps(case, sort_keys=True))
                allcells.update(info["cells"])
            elif status == "skip":
                skipped += 1
                stats.extra.setdefault("matrix_skipped_samples", [])
                if len(stats.extra["matrix_skipped_samples"]) < 5:
                    stats.extra["matrix_skipped_samples"].append({"cell": case, "why": info[:200]})
            else:
                # every distinct root cause found by the matrix pass is reported (core de-duplicates by signature)
                stats.violations.append({"signature": info.signature, "message": info.message, "detail": info.detail,
                                         "case": case})
        stats.extra["matrix_cells_run"] = done
        stats.extra["matrix_cells_skipped"] = skipped
        stats.extra["matrix_sites"] = nsites
        stats.extra["matrix_distinct_ref_sym_bind_mode_triples"] = len(allcells)
        if skipped:
            raise Inconclusive(f"matrix pass: {skipped} cell(s) left the calibrated domain (reference rejects or splits): "
                               f"{stats.extra['matrix_skipped_samples'][0]}")


def _errline(err):
    for line in err.split("\n"):
        if "error" in line or "undefined" in line or "relocation" in line:
            line = re.sub(r"/\S*/", "", line)
            line = re.sub(r"0x[0-9a-f]+|\d+", "N", line)
            return line[-70:]
    return err.strip().split("\n")[-1][-70:]


def _first_diff(a, b):
    la, lb = a.split("\n"), b.split("\n")
    for i, (x, y) in enumerate(zip(la, lb)):
        if x != y:
            return f"line {i}: got {x!r} expected {y!r}"
    return f"{len(la)} vs {len(lb)} lines"


CHECK = C01()
