"""C29 — Alignment arithmetic is exact (in-process, Rust/proptest; see harness/src/c29.rs)."""
from vlib.core import RustCheck


class C29(RustCheck):
    prop = "C29"
    sub = "c29"
    level = "exploration"
    technique = "in-process proptest against a u128 reference model; boundary classes enumerated exhaustively"
    rule = ("cases = (op in new/up/down/modulo, alignment exponent 0..16, value, reference value); boundary classes "
            "(every 2^k and 2^k+-1, multiples+-1 of the alignment, u64::MAX-j, 0) enumerated exhaustively for all 17 "
            "alignments in every shard, interior sampled by proptest from a seeded ChaCha RNG; non-trivial = value not "
            "already aligned or within one alignment of a power of two / u64::MAX, or reference not aligned (modulo), or "
            "raw within +-1 of a power of two (new); distinct by exact (op, exponent, value, ref) tuple per shard")
    assumptions = ["Alignment is reached through libwild::verif::api wrappers (hook, cfg wild_verif) that add no logic",
                   "where the mathematically required result exceeds u64::MAX the case is classified unrepresentable and not judged"]
    quick_cases = 3_200_000
    thorough_cases = 400_000_000


CHECK = C29()
