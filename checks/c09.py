"""C09 — Position-independent outputs are correct at any load address.

Domain: PIE, static-PIE and shared outputs built from generated assembly whose writable data
sections hold labelled abs64 words (`site_N: .quad target+addend`) at 8-aligned, 2-mod-8, 4-mod-8
and odd addresses (odd offsets inside even-addressed input sections; align-1 input sections that
start at odd addresses), runs of up to 130 adjacent pointers (RELR bitmap territory), GOT slots of
non-preemptible symbols, local / hidden / protected / default-visibility targets in .text/.data/
.bss, with and without `-z pack-relative-relocs`, -Bsymbolic, -z now, --gc-sections.

Oracle (mini-loader, no execution): the dynamic relocations are located like the loader does
(PT_DYNAMIC: DT_RELA/DT_RELASZ/DT_RELAENT/DT_RELACOUNT, DT_JMPREL/DT_PLTRELSZ, DT_RELR/DT_RELRSZ/
DT_RELRENT) and applied at bases {0, 0x10000, 0x555555550000, 2^47-2^32}: RELATIVE = B+A, symbolic
= S+A against the image's own .dynsym, RELR by the generic-ABI decoding.  Clauses of the statement:
(a) every ground-truth place (address of a `site_N` label) is covered by exactly one dynamic
relocation and no relocation partially overlaps another; (b) image_B[g] = image_0[g] + B and
image_0[g] = address(target) + addend per .symtab; (c) every RELATIVE/RELR place is a ground-truth
place or a .got/.got.plt slot holding the address of a GOT-referenced target, lies in a writable
PT_LOAD, and RELR address entries are even; (d) DT_* sizes/entsizes are consistent with the
sections.  The same validator runs on GNU ld's and lld's outputs (complaint => Inconclusive).
PIE cases additionally execute twice under ASLR: _start compares every site with a RIP-relative
`lea` of the same target (exit status 0 expected; GNU ld's binary calibrates).

Known finding `relr-odd-section-start` (see known_findings.jsonl): excluded by construction.
"""
import struct

from hypothesis import strategies as st

from vlib import slow, tools
from vlib import elf as E
from vlib.core import Check, Discard, Inconclusive, Violation
from vlib.elf import Elf

BASES = [0, 0x10000, 0x555555550000, (1 << 47) - (1 << 32)]
M64 = (1 << 64) - 1
LIBC = "/lib/x86_64-linux-gnu/libc.so.6"
OUTSEC_NAMES = [".data", ".data.rel.ro", "vdata", "v.odd_data", ".init_array"]


# -------------------------------------------------------------------------------------------------
# Case normalisation and the layout-parity model


def piece_size(p):
    n = 0
    for it in p["items"]:
        if it[0] == "pad":
            n += it[1]
        elif it[0] == "ptr":
            n += 8
        else:
            n += 8 * it[2]
    return n


def piece_sites(p):
    """[(offset, target, addend)]"""
    out = []
    off = 0
    for it in p["items"]:
        if it[0] == "pad":
            off += it[1]
        elif it[0] == "ptr":
            out.append((off, it[1], it[2]))
            off += 8
        else:
            for _ in range(it[2]):
                out.append((off, it[1], 0))
                off += 8
    return out


def normalise(case):
    """Pure function of the case: output sections with their pieces sorted by alignment
    (descending, stable) and the first piece at least 2-aligned, so that (1) every output section
    starts at an even address and (2) wild's order of input sections inside an output section
    (grouped by alignment, descending) coincides with input order, which makes the parity of every
    input-section start address a function of the case alone."""
    secs = []
    for si, s in enumerate(case["outsecs"]):
        name = s["name"]
        pieces = [dict(p) for p in s["pieces"]]
        if name == ".init_array":
            for p in pieces:
                p["align"] = 8
                p["items"] = [it for it in p["items"] if it[0] != "pad"] or [["ptr", 0, 0]]
        pieces.sort(key=lambda p: -p["align"])
        if pieces and pieces[0]["align"] < 2:
            pieces[0]["align"] = 2
        if s.get("oddprefix") and name != ".init_array":
            # a 1-byte, 1-aligned input section: every following 1-aligned piece starts at an odd address
            k = next((i for i, p in enumerate(pieces) if p["align"] == 1), len(pieces))
            pieces.insert(k, {"align": 1, "items": [["pad", 1]]})
        secs.append({"name": name, "idx": si, "pieces": pieces})
    # The same output-section name may be drawn twice: merge them (they would be merged by the
    # linker anyway) to keep the parity model exact.
    merged = {}
    for s in secs:
        if s["name"] in merged:
            merged[s["name"]]["pieces"].extend(s["pieces"])
        else:
            merged[s["name"]] = s
    out = list(merged.values())
    for s in out:
        s["pieces"].sort(key=lambda p: -p["align"])
    return out


def gc_effective(case):
    return case["gc"] and case["kind"] != "shared"


def wild_odd_start_pieces(secs, gc=False):
    """Model of wild's layout parity: within an output section the 1-aligned input sections are laid
    out last, one after another, starting at an even address (every higher-aligned group is padded
    to its alignment; with --gc-sections, pieces without a referenced label vanish).  Returns [(sec index, piece index)] of pieces that start at an odd address."""
    odd = []
    for si, s in enumerate(secs):
        acc = 0
        for pi, p in enumerate(s["pieces"]):
            if gc and not piece_sites(p):
                continue  # unreferenced (only labelled pointers are referenced from _start): collected
            if p["align"] == 1:
                if acc & 1:
                    odd.append((si, pi))
                acc += piece_size(p)
    return odd


# -------------------------------------------------------------------------------------------------
# Mini-loader


class LoaderError(Exception):
    def __init__(self, kind, msg):
        super().__init__(f"{kind}: {msg}")
        self.kind = kind
        self.msg = msg


class MiniLoader:
    def __init__(self, elf):
        self.elf = elf
        seg = next((p for p in elf.segments if p.type == E.PT_DYNAMIC), None)
        if seg is None:
            raise LoaderError("no-pt-dynamic", "position-independent output without PT_DYNAMIC")
        self.tags = {}
        d = elf.data
        for i in range(seg.filesz // 16):
            tag, val = struct.unpack_from("<qQ", d, seg.offset + i * 16)
            if tag == E.DT_NULL:
                break
            self.tags.setdefault(tag, val)
        self.rela = []   # (offset, type, sym, addend, table)
        self.relr = []   # decoded places
        self.relr_raw = []
        self._read_tables()

    def _table(self, addr, size, what):
        try:
            return self.elf.read(addr, size)
        except E.ElfError:
            raise LoaderError("table-out-of-image", f"{what} at {addr:#x}+{size:#x} is not inside a PT_LOAD")

    def _read_tables(self):
        t = self.tags
        if E.DT_RELA in t:
            if t.get(E.DT_RELAENT) != 24:
                raise LoaderError("relaent", f"DT_RELAENT={t.get(E.DT_RELAENT)}")
            sz = t.get(E.DT_RELASZ, 0)
            raw = self._table(t[E.DT_RELA], sz, "DT_RELA")
            for i in range(sz // 24):
                off, info, add = struct.unpack_from("<QQq", raw, i * 24)
                self.rela.append((off, info & 0xffffffff, info >> 32, add, "rela"))
            cnt = t.get(E.DT_RELACOUNT, 0)
            if cnt > len(self.rela):
                raise LoaderError("relacount", f"DT_RELACOUNT={cnt} > {len(self.rela)} entries")
            for r in self.rela[:cnt]:
                if r[1] != E.R_X86_64_RELATIVE:
                    # glibc applies the first DT_RELACOUNT entries as RELATIVE without looking at the type
                    raise LoaderError("relacount-non-relative", f"entry {r} inside DT_RELACOUNT={cnt} is not RELATIVE")
        elif t.get(E.DT_RELASZ):
            raise LoaderError("relasz-without-rela", "DT_RELASZ without DT_RELA")
        if E.DT_JMPREL in t:
            sz = t.get(E.DT_PLTRELSZ, 0)
            lo, hi = t[E.DT_JMPREL], t[E.DT_JMPREL] + sz
            # glibc tolerates DT_JMPREL overlapping the tail of DT_RELA; only read the part not yet covered.
            a0 = t.get(E.DT_RELA)
            if a0 is not None and a0 <= lo < a0 + t.get(E.DT_RELASZ, 0):
                lo = min(hi, a0 + t.get(E.DT_RELASZ, 0))
            raw = self._table(lo, hi - lo, "DT_JMPREL")
            for i in range((hi - lo) // 24):
                off, info, add = struct.unpack_from("<QQq", raw, i * 24)
                self.rela.append((off, info & 0xffffffff, info >> 32, add, "jmprel"))
        if E.DT_RELR in t:
            if t.get(E.DT_RELRENT) != 8:
                raise LoaderError("relrent", f"DT_RELRENT={t.get(E.DT_RELRENT)}")
            sz = t.get(E.DT_RELRSZ, 0)
            raw = self._table(t[E.DT_RELR], sz, "DT_RELR")
            where = None
            for i in range(sz // 8):
                (e,) = struct.unpack_from("<Q", raw, i * 8)
                self.relr_raw.append(e)
                if e & 1 == 0:
                    self.relr.append(e)
                    where = e + 8
                else:
                    if where is None:
                        raise LoaderError("relr-bitmap-first", f"RELR entry {i} = {e:#x} is a bitmap with no preceding address")
                    bits = e >> 1
                    j = 0
                    while bits:
                        if bits & 1:
                            self.relr.append(where + 8 * j)
                        bits >>= 1
                        j += 1
                    where += 8 * 63
        elif t.get(E.DT_RELRSZ):
            raise LoaderError("relrsz-without-relr", "DT_RELRSZ without DT_RELR")

    def dynsym_value(self, idx):
        symtab = self.tags.get(E.DT_SYMTAB)
        raw = self.elf.read(symtab + 24 * idx, 24)
        name_off, info, other, shndx, value, size = struct.unpack("<IBBHQQ", raw)
        return shndx, value

    def apply(self, base):
        """Returns ({place: final 64-bit value}, {place: [descr]}) at load base `base`."""
        img = {}
        who = {}

        def content(place):
            try:
                return self.elf.read_u64(place)
            except E.ElfError:
                raise LoaderError("place-out-of-image", f"relocation place {place:#x} is not inside a PT_LOAD")

        # glibc: RELA/JMPREL first, then RELR (elf_dynamic_do_Rela ... ELF_DYNAMIC_DO_RELR)
        for off, typ, sym, add, tab in self.rela:
            if typ == E.R_X86_64_RELATIVE:
                v = (base + add) & M64
                d = "RELATIVE"
            elif typ in (E.R_X86_64_64, E.R_X86_64_GLOB_DAT, E.R_X86_64_JUMP_SLOT):
                shndx, value = self.dynsym_value(sym)
                if shndx == E.SHN_UNDEF:
                    v = None  # resolved elsewhere; not our subject
                else:
                    a = add if typ == E.R_X86_64_64 else 0
                    v = (value + (0 if shndx == E.SHN_ABS else base) + a) & M64
                d = f"SYM{typ}"
            elif typ == E.R_X86_64_IRELATIVE:
                v = None
                d = "IRELATIVE"
            elif typ in (E.R_X86_64_DTPMOD64, E.R_X86_64_DTPOFF64, E.R_X86_64_TPOFF64, E.R_X86_64_TLSDESC,
                         E.R_X86_64_COPY):
                v = None
                d = f"TLS/COPY{typ}"
            elif typ == 0:
                continue  # R_X86_64_NONE
            else:
                raise LoaderError("unknown-reloc-type", f"dynamic relocation type {typ}")
            who.setdefault(off, []).append(d)
            if v is not None:
                content(off)
                img[off] = v
        for place in self.relr:
            who.setdefault(place, []).append("RELR")
            img[place] = (content(place) + base) & M64 if place not in img else (img[place] + base) & M64
        return img, who


# -------------------------------------------------------------------------------------------------
# Strategy


def item_strategy(ntargets):
    t = st.integers(0, ntargets - 1)
    return st.one_of(
        st.tuples(st.just("pad"), st.sampled_from([1, 1, 2, 3, 4, 5, 6, 7, 8, 9])).map(list),
        st.tuples(st.just("ptr"), t, st.sampled_from([0, 0, 0, 1, 3, 8, -1, -8, 0x7ff, 0x12345])).map(list),
        st.tuples(st.just("ptr"), t, st.just(0)).map(list),
        st.tuples(st.just("run"), t, st.sampled_from([2, 3, 8, 62, 63, 64, 65, 100, 127, 130])).map(list),
    )


def piece_strategy(ntargets):
    return st.fixed_dictionaries({
        "align": st.sampled_from([1, 1, 1, 2, 4, 8, 8, 16]),
        "items": st.lists(item_strategy(ntargets), min_size=1, max_size=6),
    })


NT = 6


class C09(Check):
    prop = "C09"
    level = "exploration"
    technique = ("PBT with a Python mini-loader (RELA + RELR applied at 4 bases) against labelled ground-truth places; "
                 "validator calibrated on GNU ld and lld outputs of the same objects; PIE cases executed under ASLR")
    rule = ("Hypothesis draws output sections made of input-section pieces (alignment 1..16, pads of 1..9 bytes, labelled "
            "abs64 pointers, pointer runs up to 130), targets of every visibility, GOT references, output kind, "
            "-z pack-relative-relocs; non-trivial = >= 1 ground-truth place at an odd address or a run of >= 64 adjacent "
            "pointers; distinct by (kind, pack, place-residue profile, run lengths, #relocs by table)")
    assumptions = ["generic-ABI RELR decoding; glibc relocation order and DT_RELACOUNT fast path",
                   "GNU ld 2.40 and lld 14 outputs pass the same validator (checked per case)",
                   "wild's order of input sections within an output section is by descending alignment then input order "
                   "(parity model, verified against every wild output)"]
    quick_cases = 320
    thorough_cases = 10000

    def strategy(self, tier):
        return st.fixed_dictionaries({
            "kind": st.sampled_from(["pie", "pie", "static-pie", "shared", "shared"]),
            "pack": st.sampled_from([True, True, False]),
            "targets": st.lists(st.fixed_dictionaries({
                "vis": st.sampled_from(["local", "local", "hidden", "global", "global", "protected"]),
                "sec": st.sampled_from(["text", "text", "data", "bss"]),
            }), min_size=NT, max_size=NT),
            "outsecs": st.lists(st.fixed_dictionaries({
                "name": st.sampled_from(OUTSEC_NAMES),
                "pieces": st.lists(piece_strategy(NT), min_size=1, max_size=5),
                "oddprefix": st.sampled_from([False, False, True]),
            }), min_size=1, max_size=3),
            "got": st.lists(st.integers(0, NT - 1), max_size=3, unique=True),
            "nobj": st.integers(1, 2),
            "bsymbolic": st.booleans(),
            "znow": st.booleans(),
            "gc": st.booleans(),
            "norelro": st.sampled_from([False, False, True]),
            "run": st.booleans(),
        })

    # ------------------------------------------------------------------------------------------
    def excluded_by_construction(self, case):
        if not case["pack"]:
            return None
        secs = normalise(case)
        for si, pi in wild_odd_start_pieces(secs, gc_effective(case)):
            if self._relative_sites(case, secs[si]["pieces"][pi]):
                return "relr-odd-section-start"
        return None

    @staticmethod
    def _preemptible(case, t):
        return case["kind"] == "shared" and case["targets"][t]["vis"] == "global" and not case["bsymbolic"]

    def _relative_sites(self, case, piece):
        return [s for s in piece_sites(piece) if not self._preemptible(case, s[1])]

    # ------------------------------------------------------------------------------------------
    def build(self, case, d):
        secs = normalise(case)
        nobj = case["nobj"]
        tg = case["targets"]

        def tname(t, obj):
            return f"tL{t}_o{obj}" if tg[t]["vis"] == "local" else f"tg{t}"

        texts = [[] for _ in range(nobj)]
        sites = []   # (label, target symbol name, addend, sec idx, piece idx)
        pieces_meta = []  # (label, sec idx, piece idx, align)
        # flatten pieces per output section, contiguous split between objects
        for si, s in enumerate(secs):
            n = len(s["pieces"])
            for pi, p in enumerate(s["pieces"]):
                obj = pi * nobj // n
                name = s["name"]
                if name in (".data", ".data.rel.ro"):
                    hdr = f'.section {name}.p{si}_{pi},"aw",@progbits\n'
                elif name == ".init_array":
                    hdr = f'.section .init_array,"aw",@init_array,unique,{100 + si * 16 + pi}\n'
                else:
                    hdr = f'.section {name},"aw",@progbits,unique,{100 + si * 16 + pi}\n'
                body = [hdr]
                if p["align"] > 1:
                    body.append(f".balign {p['align']}\n")
                plabel = f"piece_{si}_{pi}"
                body.append(f"{plabel}:\n")
                pieces_meta.append((plabel, si, pi, p["align"]))
                for it in p["items"]:
                    if it[0] == "pad":
                        body.append(".byte " + ",".join(str((7 * k + 1) & 255) for k in range(it[1])) + "\n")
                    else:
                        cnt = 1 if it[0] == "ptr" else it[2]
                        add = it[2] if it[0] == "ptr" else 0
                        for _ in range(cnt):
                            lab = f"site_{len(sites)}"
                            tn = tname(it[1], obj)
                            expr = tn if add == 0 else (f"{tn}+{add}" if add > 0 else f"{tn}{add}")
                            body.append(f"{lab}: .quad {expr}\n")
                            sites.append((lab, tn, add, si, pi, obj))
                texts[obj].append("".join(body))
        # targets
        for obj in range(nobj):
            t_text, t_data, t_bss = [".text\n.byte 0x90\n"], ['.section tdata,"aw",@progbits\n.balign 4\n.byte 1,2,3\n'], [".bss\n.skip 5\n"]
            for t, spec in enumerate(tg):
                if spec["vis"] == "local":
                    nm = tname(t, obj)
                    decl = ""
                else:
                    if obj != t % nobj:
                        continue
                    nm = tname(t, obj)
                    decl = f".globl {nm}\n"
                    if spec["vis"] in ("hidden", "protected"):
                        decl += f".{spec['vis']} {nm}\n"
                if spec["sec"] == "text":
                    t_text.append(f"{decl}.type {nm},@function\n{nm}: ret\n.byte 0xcc,0xcc\n")
                elif spec["sec"] == "data":
                    t_data.append(f"{decl}.type {nm},@object\n{nm}: .byte {t + 1},0,0\n.size {nm},3\n")
                else:
                    t_bss.append(f"{decl}.type {nm},@object\n{nm}: .skip 3\n.size {nm},3\n")
            texts[obj].append("".join(t_text) + "".join(t_data) + "".join(t_bss))
        # code: _start self-check (exe kinds) and GOT references
        exe = case["kind"] != "shared"
        code = [".text\n.globl _start\n.type _start,@function\n_start:\n"]
        got_targets = []
        for t in case["got"]:
            nm = tname(t, 0)
            code.append(f"  pushq {nm}@GOTPCREL(%rip)\n  popq %rax\n")
            got_targets.append(nm)
        if exe:
            for i, (lab, tn, add, si, pi, obj) in enumerate(sites):
                if obj != 0:
                    continue
                expr = tn if add == 0 else (f"{tn}+{add}" if add > 0 else f"{tn}{add}")
                code.append(f"  leaq {expr}(%rip), %rax\n  cmpq {lab}(%rip), %rax\n  movl ${i % 250 + 1}, %edi\n  jne 9f\n")
            if nobj > 1:
                code.append("  call check_o1\n  movl %eax, %edi\n  testl %eax, %eax\n  jne 9f\n")
        code.append("  xorl %edi, %edi\n9:\n  movl $60, %eax\n  syscall\n")
        texts[0].append("".join(code))
        if nobj > 1:
            c1 = [".text\n.globl check_o1\n.hidden check_o1\n.type check_o1,@function\ncheck_o1:\n"]
            if exe:
                for i, (lab, tn, add, si, pi, obj) in enumerate(sites):
                    if obj != 1:
                        continue
                    expr = tn if add == 0 else (f"{tn}+{add}" if add > 0 else f"{tn}{add}")
                    c1.append(f"  leaq {expr}(%rip), %rax\n  cmpq {lab}(%rip), %rax\n  movl ${i % 250 + 1}, %eax\n  jne 8f\n")
            c1.append("  xorl %eax, %eax\n8:\n  ret\n")
            texts[1].append("".join(c1))
        objs = []
        for obj in range(nobj):
            slow.asm("".join(texts[obj]), f"o{obj}.o", cwd=d)
            objs.append(f"o{obj}.o")
        return secs, sites, pieces_meta, got_targets, objs

    def link_args(self, case, linker, objs, out, with_libc):
        a = []
        k = case["kind"]
        if k == "pie":
            a += ["-pie", "--dynamic-linker=/lib64/ld-linux-x86-64.so.2"]
        elif k == "static-pie":
            a += ["-static", "-pie"]
            if linker != "wild":
                a += ["--no-dynamic-linker"]
        else:
            a += ["-shared"]
            if case["bsymbolic"]:
                a += ["-Bsymbolic"]
        if case["pack"]:
            a += ["--pack-dyn-relocs=relr"] if linker == "lld" else ["-z", "pack-relative-relocs"]
        if case["znow"]:
            a += ["-z", "now"]
        if case["norelro"]:
            a += ["-z", "norelro"]
        a += ["--gc-sections"] if (case["gc"] and k != "shared") else ["--no-gc-sections"]
        a += objs
        if with_libc:
            a += [LIBC]
        a += ["-o", out]
        return a

    # ------------------------------------------------------------------------------------------
    def validate(self, path, case, who, sites, got_targets):
        try:
            elf = Elf(path)
        except E.ElfError as e:
            raise Violation("bad-elf", f"{who}: unreadable output: {e}")
        if elf.type != E.ET_DYN:
            raise Violation("not-et-dyn", f"{who}: position-independent output has e_type={elf.type}")
        symaddr = {}
        dup = set()
        for s in elf.symtab():
            if s.shndx == E.SHN_UNDEF or not s.name:
                continue
            if s.name in symaddr and symaddr[s.name] != s.value:
                dup.add(s.name)
            symaddr[s.name] = s.value
        try:
            ml = MiniLoader(elf)
            images = [ml.apply(b) for b in BASES]
        except LoaderError as e:
            raise Violation("loader-" + e.kind, f"{who}: {e.msg}")
        img0, who0 = images[0]
        t = ml.tags
        # (d) DT_* consistent with sections
        for secname, typ, tag_a, tag_s in ((".relr.dyn", E.SHT_RELR, E.DT_RELR, E.DT_RELRSZ),):
            sec = next((s for s in elf.sections if s.type == typ), None)
            if sec is not None and sec.size:
                if t.get(tag_a) != sec.addr or t.get(tag_s) != sec.size:
                    raise Violation("dt-relr-mismatch", f"{who}: DT_RELR/DT_RELRSZ = {t.get(tag_a)}/{t.get(tag_s)} but "
                                    f"{secname} is at {sec.addr:#x} size {sec.size:#x}")
            elif t.get(tag_s):
                raise Violation("dt-relr-mismatch", f"{who}: DT_RELRSZ={t.get(tag_s)} without a RELR section")
        rd = elf.section(".rela.dyn")
        if rd is not None and rd.size and E.DT_RELA in t:
            if t[E.DT_RELA] != rd.addr or not (rd.size <= t.get(E.DT_RELASZ, 0) <= rd.size + self._sec_size(elf, ".rela.plt")):
                raise Violation("dt-rela-mismatch", f"{who}: DT_RELA/DT_RELASZ = {t[E.DT_RELA]:#x}/{t.get(E.DT_RELASZ)} but "
                                f".rela.dyn is at {rd.addr:#x} size {rd.size:#x}")
        elif rd is not None and rd.size and E.DT_RELA not in t:
            raise Violation("dt-rela-missing", f"{who}: .rela.dyn has {rd.size} bytes but there is no DT_RELA")

        # all relocation places: pairwise disjoint 8-byte words
        places = sorted(who0)
        for a, b in zip(places, places[1:]):
            if b - a < 8:
                raise Violation("reloc-places-overlap", f"{who}: dynamic relocations at {a:#x} ({who0[a]}) and {b:#x} "
                                f"({who0[b]}) overlap")
        wl = [(p.vaddr, p.vaddr + p.memsz) for p in elf.loads() if p.flags & E.PF_W]
        textrel = E.DT_TEXTREL if hasattr(E, "DT_TEXTREL") else 22
        for p in places:
            if not any(lo <= p and p + 8 <= hi for lo, hi in wl) and textrel not in t:
                raise Violation("reloc-in-readonly-segment", f"{who}: relocation {who0[p]} at {p:#x} is not in a writable PT_LOAD")
        # RELR address entries must be even
        for e in ml.relr_raw:
            pass  # odd entries are bitmaps by definition; their decoded places are checked below
        # ground truth
        G = {}
        for lab, tn, add, si, pi, obj in sites:
            if lab not in symaddr:
                raise Violation("site-label-missing", f"{who}: label {lab} missing from .symtab")
            if tn not in symaddr or tn in dup:
                raise Inconclusive(f"target symbol {tn} missing/ambiguous in {who} output")
            G[symaddr[lab]] = (lab, tn, add)
        stats = {"relative": 0, "relr": 0, "symbolic": 0, "odd": 0, "mod8": set()}
        for g, (lab, tn, add) in sorted(G.items()):
            ds = who0.get(g, [])
            if len(ds) != 1:
                near = [(hex(p), who0[p]) for p in places if abs(p - g) < 8]
                raise Violation("place-not-covered-once" if not ds else "place-covered-twice",
                                f"{who}: {lab} at {g:#x} (-> {tn}{add:+d}) is covered by {len(ds)} dynamic relocations "
                                f"{ds}; nearby: {near}", {"place": g, "odd": g & 1})
            want0 = (symaddr[tn] + add) & M64
            if g not in img0:
                raise Violation("place-unresolved", f"{who}: {lab} at {g:#x} is relocated by {ds} against an undefined symbol")
            if img0[g] != want0:
                raise Violation("value-at-base0", f"{who}: {lab} at {g:#x}: image at base 0 holds {img0[g]:#x}, "
                                f"expected {tn}{add:+d} = {want0:#x} ({ds})", {"place": g})
            for b, (img, _) in zip(BASES[1:], images[1:]):
                if img.get(g) != (want0 + b) & M64:
                    raise Violation("value-at-base", f"{who}: {lab} at {g:#x}: image at base {b:#x} holds "
                                    f"{img.get(g, 0):#x}, expected {(want0 + b) & M64:#x} ({ds})", {"place": g})
            kind = ds[0]
            stats["relr" if kind == "RELR" else "relative" if kind == "RELATIVE" else "symbolic"] += 1
            stats["odd"] += g & 1
            stats["mod8"].add(g % 8)
        # (c) every RELATIVE / RELR place is a ground-truth place or a GOT slot of a GOT-referenced target
        got_ranges = [(s.addr, s.addr + s.size) for s in elf.sections if s.name in (".got", ".got.plt")]
        got_values = {symaddr[n] for n in got_targets if n in symaddr}
        for p in places:
            if p in G:
                continue
            ds = who0[p]
            if not any(x in ("RELATIVE", "RELR") for x in ds):
                continue
            if len(ds) != 1:
                raise Violation("place-covered-twice", f"{who}: {p:#x} is covered by {ds}")
            if any(lo <= p and p + 8 <= hi for lo, hi in got_ranges):
                if img0[p] not in got_values and not self._is_linker_symbol_value(elf, img0[p]):
                    raise Violation("got-slot-value", f"{who}: GOT slot {p:#x} relocated by {ds} holds {img0[p]:#x}, which is "
                                    f"not the address of a GOT-referenced target {sorted(map(hex, got_values))}")
                for b, (img, _) in zip(BASES[1:], images[1:]):
                    if img[p] != (img0[p] + b) & M64:
                        raise Violation("value-at-base", f"{who}: GOT slot {p:#x} at base {b:#x}")
                continue
            sec = elf.section_at(p)
            raise Violation("reloc-at-non-address-place", f"{who}: {ds} at {p:#x} (section "
                            f"{sec.name if sec else None}) is neither a labelled pointer nor a GOT slot",
                            {"place": p, "odd": p & 1})
        stats["elf"] = elf
        stats["symaddr"] = symaddr
        stats["nrelr_raw"] = len(ml.relr_raw)
        stats["bitmaps"] = sum(1 for e in ml.relr_raw if e & 1)
        return stats

    @staticmethod
    def _sec_size(elf, name):
        s = elf.section(name)
        return s.size if s else 0

    @staticmethod
    def _is_linker_symbol_value(elf, v):
        s = elf.sym("_DYNAMIC")
        return s is not None and s.value == v

    # ------------------------------------------------------------------------------------------
    def run_case(self, case, ctx):
        d = ctx.dir
        secs, sites, pieces_meta, got_targets, objs = self.build(case, d)
        runtime = case["run"] and case["kind"] == "pie"
        res = {}
        for who in ("ld", "lld", "wild"):
            out = f"out.{who}"
            r = slow.link(who, self.link_args(case, who, objs, out, runtime), cwd=d)
            if who == "wild":
                if r.timed_out:
                    raise Inconclusive("wild timed out")
                if r.rc != 0:
                    self.wild_failed(case, secs, r, res)
            elif r.rc != 0 or r.timed_out:
                if who == "ld":
                    raise Discard("GNU ld rejects: " + r.err.strip().split("\n")[-1][:60])
                res[who] = None
                continue
            try:
                res[who] = self.validate(f"{d}/{out}", case, who, sites, got_targets)
            except Violation as v:
                if who != "wild":
                    raise Inconclusive(f"oracle self-check failed: validator flags {who} output: {v}")
                if self._in_known_domain_by_layout(case, secs, pieces_meta, f"{d}/{out}"):
                    raise Violation("relr-odd-section-start", v.message, v.detail)
                raise
        w = res["wild"]
        # parity model check (harness self-check; keeps excluded_by_construction exact)
        model_odd = set(wild_odd_start_pieces(secs, gc_effective(case)))
        for plabel, si, pi, align in pieces_meta:
            actual = w["symaddr"].get(plabel)
            if actual is None:
                if case["gc"] and not piece_sites(secs[si]["pieces"][pi]):
                    continue  # unreferenced padding-only input section, legitimately collected
                raise Inconclusive(f"piece label {plabel} missing from wild's .symtab")
            if bool(actual & 1) != ((si, pi) in model_odd):
                raise Inconclusive(f"parity model mismatch for {plabel}: actual {actual:#x}, model odd={(si, pi) in model_odd}")
        classes = [f"kind:{case['kind']}", "pack" if case["pack"] else "nopack"]
        if runtime:
            self.run_time(case, d)
            classes.append("executed")
        run_max = max([it[2] for s in secs for p in s["pieces"] for it in p["items"] if it[0] == "run"] or [0])
        if w["odd"]:
            classes.append("odd-place")
        if w["mod8"] - {0, 1, 3, 5, 7}:
            classes.append("even-unaligned-place")
        if run_max >= 64:
            classes.append("run>=64")
        if model_odd:
            classes.append("odd-section-start")
        for k in ("relr", "relative", "symbolic"):
            if w[k]:
                classes.append("wild-uses:" + k)
        if res["ld"]["bitmaps"]:
            classes.append("ld-uses-bitmap")
        if got_targets:
            classes.append("got-refs")
        nontrivial = bool(w["odd"]) or run_max >= 64
        key = (f"{case['kind']}|{case['pack']}|{sorted(w['mod8'])}|{w['odd']}|{run_max}|{w['relr']}|{w['relative']}|"
               f"{w['symbolic']}|{len(got_targets)}")
        return {"nontrivial": nontrivial, "key": key, "classes": classes,
                "counters": {"places": len(sites), "relr_places": w["relr"], "rela_places": w["relative"]}}

    def _in_known_domain_by_layout(self, case, secs, pieces_meta, path):
        """Strict replays run the known finding's case: classify by the actual layout."""
        if not case["pack"]:
            return False
        try:
            elf = Elf(path)
        except E.ElfError:
            return False
        for plabel, si, pi, align in pieces_meta:
            s = elf.sym(plabel)
            if s is not None and s.value & 1 and self._relative_sites(case, secs[si]["pieces"][pi]):
                return True
        return False

    def wild_failed(self, case, secs, r, res):
        err = r.err.strip()
        if r.rc < 0 or "panicked at" in err:
            sig = "wild-crash"
        elif "Insufficient .relr.dyn allocation" in err or "Insufficient .rela.dyn (relative) allocation" in err:
            odd = [(si, pi) for si, pi in wild_odd_start_pieces(secs, gc_effective(case)) if self._relative_sites(case, secs[si]["pieces"][pi])]
            sig = "relr-odd-section-start" if (case["pack"] and odd) else "dynrel-allocation-mismatch"
        else:
            sig = "wild-rejects-valid-link"
        raise Violation(sig, f"GNU ld{' and lld' if res.get('lld') else ''} link this position-independent case, wild fails: "
                        f"rc={r.rc} {err[-400:]}")

    def run_time(self, case, d):
        for who in ("ld", "wild"):
            for rep in range(2):
                r = tools.run_exe(f"{d}/out.{who}", cwd=d, timeout=120)
                if r.timed_out:
                    raise Inconclusive(f"{who} binary did not finish within 120 s (machine load?)")
                if r.rc != 0:
                    msg = f"{who} binary: self-check of site #{r.rc - 1} (mod 250) failed / rc={r.rc} {r.err[-200:]}"
                    if who == "ld":
                        raise Inconclusive("oracle self-check failed at run time: " + msg)
                    raise Violation("runtime-pointer-mismatch", msg)


CHECK = C09()
