"""C02 — Symbol references bind to the definition the ELF rules select.

Domain: 2..4 names (data words / functions), 2..6 input files in a generated command-line order,
each an object, a one-member archive or a shared library; each file independently defines names
(strong / weak / common(size) / gnu_unique, default / hidden / protected, optionally in a COMDAT
group) and/or references them (strongly or weakly, also names it defines itself).  Options:
none / --allow-multiple-definition / -z muldefs; -pie when the link is dynamic.

Observation: every definition carries a unique ID; every reference is a registry entry that the
freestanding runtime prints at run time (`site -> ID reached`, `null` for address 0); link
success/failure.

Oracle: `model()` is a transcription of the statement (strong > largest common > first weak;
shared-library definitions never override object definitions; first in command-line order among
equals; two strong definitions outside COMDAT = error unless multiple definitions are allowed;
undefined non-weak reference in an executable = error; undefined weak = 0).  The reference linker
is GNU ld, or lld when the case contains archives (GNU ld's left-to-right archive extraction
differs by design, cf. C03).  VIOLATION only when wild != model and reference == model;
reference != model -> OracleSplit.

Excluded by construction (statement silent / linkers legitimately differ): commons competing with
archive members; mixed symbol types for one name; GNU_UNIQUE outside COMDAT or competing with
non-unique object definitions (GNU ld and lld treat it as strong there, wild as weak);
non-default visibility on references; shared outputs.
"""
from hypothesis import strategies as st

from vlib import symgen, tools
from vlib.core import Check, Discard, Inconclusive, OracleSplit, Violation
from vlib.elf import Elf

STRENGTHS = ["strong", "strong", "weak", "weak", "common", "common", "unique"]
VIS = ["default", "default", "default", "hidden", "protected"]
MULDEFS = [[], [], [], ["--allow-multiple-definition"], ["-z", "muldefs"]]


def name_of(i):
    return f"sym{i}"


def kind_of(case, i):
    return case["kinds"][i]


def def_id(fi, ni):
    return 0x1000 * (fi + 1) + ni + 1


def site_id(fi, ni):
    return fi * 16 + ni


def normalize(case):
    """Makes a raw generated case satisfy the domain restrictions (deterministic)."""
    nn = len(case["kinds"])
    files = []
    for f in case["files"]:
        defs, seen = [], set()
        for d in f["defs"]:
            ni = d[0] % nn
            if ni in seen:
                continue
            seen.add(ni)
            defs.append([ni, d[1], d[2], d[3], bool(d[4])])
        refs, seen = [], set()
        for r in f["refs"]:
            ni = r[0] % nn
            if ni in seen:
                continue
            seen.add(ni)
            refs.append([ni, bool(r[1])])
        files.append({"kind": f["kind"], "defs": sorted(defs), "refs": sorted(refs)})
    # A name that is defined nowhere and referenced from two plain objects, once strongly and once weakly, in
    # either order (constructed: the last name loses its definitions; GNU ld/lld report the strong reference
    # whatever the order).
    mix = case.get("undef_mix")
    objs_idx = [i for i, f in enumerate(files) if f["kind"] == "obj"]
    mixed_name = None
    if mix and len(objs_idx) >= 2:
        mixed_name = nn - 1
        for f in files:
            f["defs"] = [d for d in f["defs"] if d[0] != mixed_name]
            f["refs"] = [r for r in f["refs"] if r[0] != mixed_name]
        a, b = objs_idx[0], objs_idx[-1]
        first_weak = mix == "weak-then-strong"
        files[a]["refs"] = sorted(files[a]["refs"] + [[mixed_name, first_weak]])
        files[b]["refs"] = sorted(files[b]["refs"] + [[mixed_name, not first_weak]])
    # Unless the case asks for undefined names, give every referenced-but-undefined name a
    # definition (file and strength chosen by the generated `filler`).
    if not case.get("undef_ok"):
        for ni in range(nn):
            if ni != mixed_name and any(r[0] == ni for f in files for r in f["refs"]) and \
                    not any(d[0] == ni for f in files for d in f["defs"]):
                where, strength = case["filler"][ni]
                tgt = files[where % len(files)]
                tgt["defs"] = sorted(tgt["defs"] + [[ni, strength, "default", 8, False]])
    # Names that have a GNU_UNIQUE definition: every object/archive definition of that name is
    # unique + COMDAT (the only realistic use; outside it GNU ld/lld and wild differ and the
    # statement is silent).
    unique_names = {d[0] for f in files if f["kind"] != "so" for d in f["defs"]
                    if d[1] == "unique" and case["kinds"][d[0]] == "data"}
    ar_defined = {d[0] for f in files if f["kind"] == "ar" for d in f["defs"]}
    for f in files:
        out = []
        for ni, strength, vis, size, comdat in f["defs"]:
            kind = case["kinds"][ni]
            if f["kind"] == "so":
                strength = "weak" if strength == "weak" else "strong"
                vis = "protected" if vis == "protected" else "default"
                comdat = False
            elif ni in unique_names:
                strength, comdat = "unique", True
            else:
                if strength == "unique":
                    strength = "weak"
                if strength == "common" and (kind != "data" or f["kind"] == "ar" or ni in ar_defined):
                    strength = "strong"
                if strength == "common":
                    comdat = False
            out.append([ni, strength, vis, size if strength == "common" else 8, comdat])
        f["defs"] = out
        if f["kind"] == "so":
            f["refs"] = []
    has_so = any(f["kind"] == "so" for f in files)
    return {"kinds": case["kinds"], "files": files, "muldefs": case["muldefs"] % len(MULDEFS),
            "pie": bool(case["pie"]) and has_so}


def raw_strategy(max_files):
    d = st.tuples(st.integers(0, 3), st.sampled_from(STRENGTHS), st.sampled_from(VIS),
                  st.sampled_from([1, 4, 8, 16, 24, 64]), st.sampled_from([False, False, False, True])).map(list)
    r = st.tuples(st.integers(0, 3), st.sampled_from([False, False, True])).map(list)
    f = st.fixed_dictionaries({
        "kind": st.sampled_from(["obj", "obj", "obj", "ar", "so"]),
        "defs": st.lists(d, min_size=0, max_size=3),
        "refs": st.lists(r, min_size=0, max_size=3),
    })
    return st.fixed_dictionaries({
        "kinds": st.lists(st.sampled_from(["data", "data", "func"]), min_size=2, max_size=4),
        "files": st.lists(f, min_size=2, max_size=max_files),
        "muldefs": st.integers(0, len(MULDEFS) - 1),
        "pie": st.booleans(),
        "undef_ok": st.sampled_from([False, False, False, True]),
        "undef_mix": st.sampled_from([None, None, None, None, "strong-then-weak", "weak-then-strong"]),
        "filler": st.lists(st.tuples(st.integers(0, 6), st.sampled_from(STRENGTHS)).map(list), min_size=4, max_size=4),
    })


# ------------------------------------------------------------------------------------------------
# Model (transcription of the statement)


def model(case):
    """Returns {"error": None|"dup"|"undef", "loaded": [bool], "win": {ni: (fi, strength)|None},
    "sites": {site: expected value|None}, "common_size": {ni: size}}."""
    files = case["files"]
    nn = len(case["kinds"])
    allow_muldefs = bool(MULDEFS[case["muldefs"]])
    defs_of = [{d[0]: d for d in f["defs"]} for f in files]
    first_def = {}
    for fi, f in enumerate(files):
        for ni in defs_of[fi]:
            first_def.setdefault(ni, fi)
    # Archive members: loaded when they hold the first definition (command-line order) of a name
    # that a loaded file references non-weakly without defining it itself.
    loaded = [f["kind"] != "ar" for f in files]
    changed = True
    while changed:
        changed = False
        for fi, f in enumerate(files):
            if not loaded[fi]:
                continue
            for ni, weak in f["refs"]:
                if weak or ni in defs_of[fi]:
                    continue
                t = first_def.get(ni)
                if t is not None and not loaded[t]:
                    loaded[t] = True
                    changed = True
    res = {"error": None, "loaded": loaded, "win": {}, "sites": {}, "common_size": {}}
    errors = set()
    for ni in range(nn):
        comdat_seen = False
        strong, commons, weak, shared = [], [], [], []
        for fi, f in enumerate(files):
            if not loaded[fi] or ni not in defs_of[fi]:
                continue
            _, strength, _vis, size, comdat = defs_of[fi][ni]
            if f["kind"] == "so":
                shared.append(fi)
                continue
            if comdat:
                if comdat_seen:
                    continue  # group discarded: this file's definition does not exist
                comdat_seen = True
            if strength == "strong":
                strong.append((fi, comdat))
            elif strength == "common":
                commons.append((fi, size))
            else:
                weak.append(fi)
        if len(strong) >= 2 and not allow_muldefs:
            errors.add("dup")
        if strong:
            win = (strong[0][0], "strong")
        elif commons:
            best = max(s for _, s in commons)
            win = (next(fi for fi, s in commons if s == best), "common")
            res["common_size"][ni] = best
        elif weak:
            win = (weak[0], defs_of[weak[0]][ni][1])
        elif shared:
            win = (shared[0], "shared")
        else:
            win = None
        res["win"][ni] = win
        for fi, f in enumerate(files):
            if not loaded[fi] or f["kind"] == "so":
                continue
            for rni, rweak in f["refs"]:
                if rni != ni:
                    continue
                if win is None:
                    if not rweak:
                        errors.add("undef")
                    res["sites"][site_id(fi, ni)] = None
                elif win[1] == "common":
                    res["sites"][site_id(fi, ni)] = 0
                else:
                    res["sites"][site_id(fi, ni)] = def_id(win[0], ni)
    if "dup" in errors:
        res["error"] = "dup"
    elif "undef" in errors:
        res["error"] = "undef"
    res["errors"] = sorted(errors)
    return res


# ------------------------------------------------------------------------------------------------


KNOWN_WEAK_LAZY = "weak-ref-first-def-in-unloaded-member"


def weak_lazy_sites(case, m):
    """Sites in the exact domain of the known finding: a weak reference (from a loaded file that
    does not define the name) to a name whose first definition in command-line order is in an
    archive member that stays unloaded, while a loaded file (object or shared library) defines it.
    wild binds such a reference to 0; GNU ld and lld bind it to the loaded definition."""
    files = case["files"]
    out = []
    first_def = {}
    for fi, f in enumerate(files):
        for dd in f["defs"]:
            first_def.setdefault(dd[0], fi)
    for fi, f in enumerate(files):
        if not m["loaded"][fi] or f["kind"] == "so":
            continue
        mine = {dd[0] for dd in f["defs"]}
        for ni, weak in f["refs"]:
            if weak and ni not in mine and ni in first_def and not m["loaded"][first_def[ni]] \
                    and m["win"].get(ni) is not None:
                out.append(site_id(fi, ni))
    return out


KNOWN_COMDAT = "comdat-stronger-definition-in-later-group-wins"


def comdat_strength_names(case, m):
    """Exact domain of the second known finding: a name whose first COMDAT group (command-line
    order, loaded files) defines it weakly while a later COMDAT group with the same signature
    defines it strongly. ELF (and GNU ld, lld) keep the first group and discard the later one, so
    the weak definition is the only one; wild selects by strength first and binds to the strong
    definition inside the group that should have been discarded."""
    out = set()
    first_strength = {}
    for fi, f in enumerate(case["files"]):
        if not m["loaded"][fi] or f["kind"] == "so":
            continue
        for ni, strength, _vis, _size, comdat in f["defs"]:
            if not comdat:
                continue
            if ni not in first_strength:
                first_strength[ni] = strength
            elif first_strength[ni] == "weak" and strength == "strong":
                out.add(ni)
    return out


def build_inputs(case, d):
    """Writes all inputs; returns the command-line file arguments."""
    args = [symgen.runtime_obj(d)]
    for fi, f in enumerate(case["files"]):
        spec = {"defs": [], "refs": []}
        for ni, strength, vis, size, comdat in f["defs"]:
            spec["defs"].append({"name": name_of(ni), "kind": kind_of(case, ni), "strength": strength, "vis": vis,
                                 "id": def_id(fi, ni), "size": size, "comdat": comdat})
        for ni, weak in f["refs"]:
            spec["refs"].append({"name": name_of(ni), "kind": kind_of(case, ni), "weak": weak,
                                 "site": site_id(fi, ni)})
        if f["kind"] == "obj":
            symgen.build_obj(spec, f"f{fi}.o", d)
            args.append(f"f{fi}.o")
        elif f["kind"] == "ar":
            symgen.build_obj(spec, f"m{fi}.o", d)
            symgen.ar(f"liba{fi}.a", [f"m{fi}.o"], cwd=d)
            args.append(f"liba{fi}.a")
        else:
            symgen.build_shared(spec, f"libs{fi}.so", d, soname=f"libs{fi}.so")
            args.append(f"./libs{fi}.so")
    return args


def classify(case, m):
    """Witness classes and the distinctness key."""
    classes = set()
    parts = []
    nontrivial = False
    for ni in range(len(case["kinds"])):
        cands = []
        for fi, f in enumerate(case["files"]):
            for d in f["defs"]:
                if d[0] == ni:
                    cands.append((d[1] + ("G" if d[4] else ""), d[2], f["kind"], fi))
        referenced = any(r[0] == ni for f in case["files"] for r in f["refs"])
        if not referenced:
            continue
        parts.append(f"{case['kinds'][ni][0]}:" + ",".join(f"{s}/{v[0]}/{k}@{p}" for s, v, k, p in cands))
        if len(cands) >= 2 and len({(s, v, k) for s, v, k, _ in cands}) >= 2:
            nontrivial = True
            strengths = sorted({("so" if k == "so" else s.rstrip("G")) for s, _, k, _ in cands})
            classes.add("compete:" + "+".join(strengths))
        if len(cands) >= 2 and len({(s, v, k) for s, v, k, _ in cands}) == 1:
            classes.add("compete:equal-" + ("so" if cands[0][2] == "so" else cands[0][0]))
            nontrivial = True
        if not cands:
            classes.add("undefined-name")
            order = [r[1] for f in case["files"] if f["kind"] == "obj" for r in f["refs"] if r[0] == ni]
            if True in order and False in order:
                classes.add("undefined-name:" + ("weak-ref-first" if order[0] else "strong-ref-first") + "-mixed")
    if m["error"]:
        nontrivial = True
        classes.add("expect-error:" + m["error"])
    if any(f["kind"] == "ar" for f in case["files"]):
        classes.add("has-archive")
        if not all(m["loaded"]):
            classes.add("member-not-loaded")
    if any(f["kind"] == "so" for f in case["files"]):
        classes.add("has-shared")
    if case["pie"]:
        classes.add("pie")
    if MULDEFS[case["muldefs"]]:
        classes.add("muldefs")
    key = "|".join(parts) + f"|m{int(bool(MULDEFS[case['muldefs']]))}"
    return nontrivial, key, sorted(classes)


def describe_win(case, m, site, got):
    fi, ni = site // 16, site % 16
    win = m["win"].get(ni)
    exp = "undef" if win is None else ("so" if case["files"][win[0]]["kind"] == "so" else win[1])
    if got is None:
        g = "null"
    elif got == 0:
        g = "common"
    else:
        gfi = (got >> 12) - 1
        g = "?"
        if 0 <= gfi < len(case["files"]):
            gf = case["files"][gfi]
            gd = [d for d in gf["defs"] if d[0] == ni]
            g = "so" if gf["kind"] == "so" else (gd[0][1] if gd else "?")
    return exp, g


class C02(Check):
    prop = "C02"
    level = "exploration"
    technique = ("model-based + differential PBT: generated objects/archives/shared libraries whose definitions carry IDs; "
                 "run the linked program and compare each reference's ID with a model of the stated ELF rules, "
                 "confirmed by GNU ld (lld when archives are present)")
    rule = ("Hypothesis-generated symbol tables: 2-4 names x 2-6 files (object / one-member archive / shared library) "
            "with strength, visibility, COMDAT and reference choices in a generated command-line order; non-trivial = "
            "a referenced name has >=2 competing definitions, or an error is expected; distinct by the per-name tuple "
            "of (strength, visibility, file kind, position)")
    assumptions = ["GNU ld 2.40 is the reference; lld 14 for cases containing archives",
                   "ld.so binds executable references to the first DT_NEEDED library defining the symbol",
                   "GNU_UNIQUE only inside COMDAT groups; commons never compete with archive members"]
    quick_cases = 480
    thorough_cases = 30000

    def strategy(self, tier):
        return raw_strategy(6 if tier == "quick" else 7).map(normalize)

    def _link(self, linker, args, d, out):
        return symgen.link(linker, [*args, "-o", out], cwd=d)

    @symgen.memo_run_case
    def run_case(self, case, ctx):
        d = ctx.dir
        m = model(case)
        files = build_inputs(case, d)
        has_ar = any(f["kind"] == "ar" for f in case["files"])
        has_so = any(f["kind"] == "so" for f in case["files"])
        ref_linker = "lld" if has_ar else "ld"
        opts = list(MULDEFS[case["muldefs"]]) + ["--no-gc-sections"]
        if has_so:
            opts += ["-dynamic-linker", symgen.DYNLINKER]
        if case["pie"]:
            opts += ["-pie"]
        args = opts + files
        nontrivial, key, classes = classify(case, m)
        info = {"nontrivial": nontrivial, "key": key, "classes": classes, "counters": {}}

        w = self._link("wild", args, d, "w.out")
        if w.timed_out:
            raise Inconclusive("wild timed out")
        if symgen.wild_crashed(w):
            raise Violation("crash", f"wild crashed: rc={w.rc} {w.err[-400:]}", {"args": args})
        r = self._link(ref_linker, args, d, "r.out")
        if r.timed_out:
            raise Inconclusive(f"{ref_linker} timed out")

        # --- link success / failure -----------------------------------------------------------
        if m["error"]:
            if r.rc == 0:
                raise OracleSplit(f"model expects error {m['error']} but {ref_linker} accepts")
            ref_kind = self._ref_error_kind(r.err)
            if ref_kind not in m["errors"]:
                raise OracleSplit(f"model expects {m['errors']}, {ref_linker} fails differently: {r.err[:200]}")
            if w.rc == 0:
                sig = {"dup": "dup-strong-accepted", "undef": "undef-strong-accepted"}[m["error"]]
                raise Violation(sig, f"statement and {ref_linker} reject the link ({m['error']}), wild accepts it",
                                {"args": args, "ref_err": r.err[:400]})
            info["classes"].append("both-reject")
            return info
        if r.rc != 0:
            info["classes"].append("ref-rejects")
            raise Discard(f"{ref_linker} rejects a case the model accepts: " + self._short(r.err))
        if w.rc != 0:
            if symgen.wild_unsupported(w):
                raise Discard("wild: unsupported: " + self._short(w.err))
            # Reference linked it; does the reference's program agree with the model?
            rr = symgen.run_program(f"{d}/r.out", d)
            if not rr.ok or rr.values != m["sites"]:
                raise OracleSplit(f"{ref_linker} output disagrees with model (and wild rejects)")
            sig = "rejects-valid:" + ("dup" if "uplicate" in w.err else "undef" if "ndefined" in w.err else "other")
            raise Violation(sig, f"statement and {ref_linker} accept the link, wild rejects it: {w.err[-300:]}",
                            {"args": args})

        # --- bindings -------------------------------------------------------------------------
        rr = symgen.run_program(f"{d}/r.out", d)
        if not rr.ok:
            raise OracleSplit(f"{ref_linker}-linked program failed: {rr.why}")
        if rr.values != m["sites"]:
            diff = sorted(s for s in set(rr.values) | set(m["sites"]) if rr.values.get(s, "-") != m["sites"].get(s, "-"))
            exp, got = describe_win(case, m, diff[0], rr.values.get(diff[0])) if diff[0] in m["sites"] else ("?", "?")
            info["classes"].append(f"split:{exp}>{got}")
            raise OracleSplit(f"{ref_linker} != model at sites {diff}: model {exp}, {ref_linker} {got}")
        wr = symgen.run_program(f"{d}/w.out", d)
        if not wr.ok:
            raise Violation("program-fails", f"wild-linked program failed ({wr.why}); {ref_linker}-linked one prints the "
                            "model's values", {"args": args})
        if wr.values != m["sites"]:
            diff = sorted(s for s in set(wr.values) | set(m["sites"]) if wr.values.get(s, "-") != m["sites"].get(s, "-"))
            s0 = diff[0]
            if set(diff) <= set(weak_lazy_sites(case, m)) and all(wr.values.get(x, 1) is None for x in diff):
                sig = KNOWN_WEAK_LAZY
            elif {x % 16 for x in diff} <= comdat_strength_names(case, m):
                sig = KNOWN_COMDAT
            elif s0 in m["sites"] and s0 in wr.values:
                exp, got = describe_win(case, m, s0, wr.values[s0])
                sig = f"bind:{exp}>{got}"
            else:
                sig = "bind:site-set"
            raise Violation(sig, f"reference from file {s0 // 16} to {name_of(s0 % 16)}: statement and {ref_linker} bind it "
                            f"to {m['sites'].get(s0)!r}, wild to {wr.values.get(s0)!r} (sites differing: {diff})",
                            {"args": args, "model": m["sites"], "wild": wr.values})
        # Largest common: the output symbol has the largest size (calibrated on the reference).
        if m["common_size"]:
            we, re_ = Elf(f"{d}/w.out"), Elf(f"{d}/r.out")
            for ni, size in m["common_size"].items():
                if m["win"][ni][1] != "common":
                    continue
                rs, ws = re_.sym(name_of(ni)), we.sym(name_of(ni))
                if rs is None or rs.size != size:
                    info["classes"].append("split:common-size")
                    continue
                if ws is None:
                    info["classes"].append("common-sym-absent-in-wild-symtab")  # symtab content is C31's business
                    continue
                info["classes"].append("common-size-checked")
                if ws.size != size:
                    raise Violation("common-size", f"{name_of(ni)}: largest common is {size} bytes ({ref_linker} agrees), "
                                    f"wild's symbol has size {ws.size if ws else None}", {"args": args})
        return info

    # Thorough tier: exhaustive enumeration of the two-definition sub-space (finite).
    PAIR_KINDS = [("obj", "strong", False), ("obj", "weak", False), ("obj", "common", False), ("obj", "unique", True),
                  ("obj", "strong", True), ("so", "strong", False), ("so", "weak", False), ("ar", "strong", False),
                  ("ar", "weak", False)]

    def enumerate_pairs(self):
        for ka, sa, ca in self.PAIR_KINDS:
            for kb, sb, cb in self.PAIR_KINDS:
                for size_b in (4, 16):
                    if sb != "common" and size_b != 4:
                        continue
                    for ref_weak in (False, True):
                        for ref_pos in (0, 2):
                            for muldefs in (0, 3):
                                if muldefs and not (sa == sb == "strong"):
                                    continue
                                fa = {"kind": ka, "defs": [[0, sa, "default", 8, ca]], "refs": []}
                                fb = {"kind": kb, "defs": [[0, sb, "default", size_b, cb]], "refs": []}
                                fr = {"kind": "obj", "defs": [], "refs": [[0, ref_weak]]}
                                files = [fa, fb]
                                files.insert(ref_pos, fr)
                                raw = {"kinds": ["data", "data"], "files": files, "muldefs": muldefs, "pie": False,
                                       "undef_ok": True, "filler": [[0, "strong"]] * 4}
                                yield normalize(raw)

    def extra_phases(self, tier, seed, stats):
        if tier != "thorough":
            return
        import os
        import shutil
        from vlib.core import Ctx, evaluate, load_known
        scratch = os.path.join(os.environ.get("VERIF_SCRATCH", "/dev/shm"), f"verif-{os.getpid()}-x")
        os.makedirs(scratch, exist_ok=True)
        ctx = Ctx(self, tier, scratch)
        known = load_known(self.prop)
        n = 0
        try:
            for case in self.enumerate_pairs():
                n += 1
                try:
                    evaluate(self, case, ctx, stats, known)
                except Violation as v:
                    v.case = case
                    raise
        finally:
            ctx.cleanup()
            shutil.rmtree(scratch, ignore_errors=True)
            stats.extra["exhaustive_two_definition_cases"] = n
            stats.extra["exhaustive"] = True

    def excluded_by_construction(self, case):
        m = model(case)
        if not m["error"] and weak_lazy_sites(case, m):
            return KNOWN_WEAK_LAZY
        if comdat_strength_names(case, m):
            return KNOWN_COMDAT
        return None

    @staticmethod
    def _ref_error_kind(err):
        if "multiple definition" in err or "duplicate symbol" in err:
            return "dup"
        if "undefined reference" in err or "undefined symbol" in err:
            return "undef"
        return "other"

    @staticmethod
    def _short(err):
        import re
        lines = [l for l in err.strip().split("\n") if l.strip()]
        s = lines[0] if lines else ""
        return re.sub(r"[0-9]+", "N", s)[-70:]


CHECK = C02()
