"""C28 — Optional transformations don't change program behaviour.

Domain: progen site programs (2-4 assembly objects; reference kinds x symbol kinds) built for a
*family* of output kinds their code allows (non-PIC: static / static-libc / dynamic non-PIE; PIC:
static-pie / PIE / dynamic non-PIE / static; dynamic-only with a helper DSO: PIE / non-PIE) x
4-5 option vectors over {--relax/--no-relax, --no-string-merge, -z pack-relative-relocs,
--hash-style, --build-id modes, -z now/lazy, --gc-sections/--no-gc-sections, -z relro/norelro,
--eh-frame-hdr, -S/-s, --no-mmap-output-file, thread count} each with its own output kind.

Oracle (metamorphic + differential, consensus): the generator's expected stdout/exit status must
equal the program linked by GNU ld at default options (else OracleSplit; ld rejecting = Discard).
Every wild variant must then print exactly that.  A variant wild refuses with an ordinary
diagnostic is dropped (counted); a wild panic/signal or an allocation-accounting error under an
option vector is reported (the statement's "linked with ... any" presupposes a link).
"""
import hashlib
import json
import re

from hypothesis import strategies as st

from vlib import progen, tools
from vlib.core import Check, Discard, Inconclusive, OracleSplit, Violation

FAMILIES = {
    "nonpic": ["static", "static-libc", "dyn"],
    "nonpic-libc": ["static-libc", "dyn"],
    "pic": ["static-pie", "pie", "dyn", "static-libc"],
    "dynamic": ["pie", "dyn"],
}
FAMILY_NAMES = ["nonpic", "nonpic-libc", "pic", "pic", "dynamic", "dynamic"]

SWITCHES = {
    "relax": ["", "--no-relax", "--relax"],
    "merge": ["", "--no-string-merge"],
    "relr": ["", "-z pack-relative-relocs", "-z nopack-relative-relocs"],
    "hash": ["", "--hash-style=sysv", "--hash-style=gnu", "--hash-style=both"],
    "buildid": ["", "--build-id", "--build-id=none", "--build-id=md5", "--build-id=sha1", "--build-id=uuid",
                "--build-id=0xdeadbeef", "--build-id=fast"],
    "bind": ["", "-z now", "-z lazy"],
    "gc": ["", "--no-gc-sections", "--gc-sections"],
    "relro": ["", "-z norelro", "-z relro"],
    "ehhdr": ["", "--no-eh-frame-hdr", "--eh-frame-hdr"],
    "strip": ["", "-S", "-s"],
    "mmap": ["", "--no-mmap-output-file"],
    "threads": ["", "--threads=1", "--threads=4", "--no-threads"],
}
SW_NAMES = list(SWITCHES)

ALLOC_MSG = re.compile(r"nsufficient .*allocation|Allocated too much space|Failed to take .* bytes|"
                       r"verify_resolution_allocation|Offsets went backward|set_size was never called")


def variant_strategy():
    d = {"mode": st.integers(0, 3)}
    for k, vals in SWITCHES.items():
        # bias towards the non-default settings of the main switches
        d[k] = st.integers(0, len(vals) - 1)
    return st.fixed_dictionaries(d)


class C28(Check):
    prop = "C28"
    level = "exploration"
    technique = ("metamorphic PBT over wild option vectors and output kinds on executed generated programs; "
                 "reference = GNU ld at default options + generator's model (consensus)")
    rule = ("Hypothesis-generated site programs x 4-5 option vectors; non-trivial = some pair of variants that both "
            "linked differs in >= 2 switches (output kind counts) and for each of >= 2 differing switches the program "
            "contains a construct that switch acts on (relaxable GOT/TLS site; mergeable string site; relative "
            "relocation in a PIC output; run-time symbol lookup for hash style / binding mode; always for build-id, gc, "
            "output kind); distinct by hash of (normalised program, variant vectors)")
    assumptions = ["GNU ld 2.40 at default options is the behavioural reference",
                   "--no-relax is not combined with static-pie (glibc's static-pie start-up code linked by GNU ld/lld "
                   "itself crashes under --no-relax)"]
    quick_cases = 150
    thorough_cases = 5000

    def strategy(self, tier):
        nv = 4 if tier == "quick" else 6
        prog = st.fixed_dictionaries({
            "family": st.integers(0, len(FAMILY_NAMES) - 1),
            "prog": progen.program_strategy(max_defs=10, max_sites=12),
            "variants": st.lists(variant_strategy(), min_size=2, max_size=nv),
        })
        # String-table programs (C07's generator: runs of short strings, > 12 string starts per 256-byte
        # block, references into the middle of strings through section symbols and named symbols): the
        # progen programs have only a handful of long strings, which leaves most of the string-merge
        # lookup paths untouched by the "with or without string merging" clause.
        from checks import c07
        strtab = st.fixed_dictionaries({
            "flavour": st.just("strtab"),
            "c07": st.sampled_from(["small", "small", "small", "mid"]).flatmap(c07.sized_case_strategy),
            "variants": st.lists(variant_strategy(), min_size=2, max_size=nv),
        })
        return st.sampled_from([0, 0, 0, 1]).flatmap(lambda k: strtab if k else prog)

    def run_strtab(self, case, ctx):
        from checks import c07
        d = ctx.dir
        objs, refs = c07.build_model(case["c07"])
        if not refs:
            raise Discard("no non-empty string section")
        if any(s.unterminated for o in objs for s in o["secs"]):
            raise Discard("unterminated final string: C07's subject")
        for oi, o in enumerate(objs):
            c07.emit_object(oi, o, case["c07"]["cst_refs"], d)
        c07.emit_main(objs, d)
        files = ["main.o"] + [f"o{oi}.o" for oi in range(len(objs))]
        expected = b"".join(r.expect + b"\n" for o in objs for r in o["refs"]) + \
            b"".join(r.expect + b"\n" for o in objs for r in o["trefs"])
        lr = tools.link("ld", [*files, "-o", "ld.out"], cwd=d, timeout=600)
        if lr.timed_out:
            raise Inconclusive("GNU ld timed out")
        if lr.rc != 0:
            raise Discard("GNU ld rejects: " + _errline(lr.err))
        if c07.C07._run(f"{d}/ld.out", d) != expected:
            raise OracleSplit("model vs GNU ld (string-table program)")
        classes = ["flavour:strtab", "family:nonpic", "mode:static"]
        linked = []
        for i, v in enumerate(case["variants"]):
            opts = self._opts(v, "static")
            r = tools.link("wild", [*opts, *files, "-o", f"w{i}.out"], cwd=d, timeout=300)
            if r.timed_out:
                raise Inconclusive("wild timed out")
            if r.rc < 0 or r.rc == 101 or "panicked at" in r.err or (r.rc != 0 and ALLOC_MSG.search(r.err)):
                raise Violation("link-fails-under-options",
                                f"wild crashed or failed its size accounting with {opts} (static, string tables); GNU ld "
                                f"links the program: {r.err[-400:]}", {"mode": "static", "opts": opts})
            if r.rc != 0:
                classes.append("variant_rejected:" + _errline(r.err)[:40])
                continue
            got = c07.C07._run(f"{d}/w{i}.out", d)
            if got != expected:
                at = next((j for j, (a, b) in enumerate(zip(got, expected)) if a != b), min(len(got), len(expected)))
                raise Violation("behaviour-differs:strtab",
                                f"wild static {opts}: stdout of the string-table program differs from GNU ld's and the "
                                f"model's ({len(got)} vs {len(expected)} bytes, first difference at byte {at})",
                                {"mode": "static", "opts": opts})
            linked.append(("static", v, opts))
            for o in opts:
                if o != "-z":
                    classes.append("opt:" + o.split("=0x")[0])
        if not linked:
            raise Discard("wild rejected every variant")
        mid = any(r.mid for r in refs)
        if mid:
            classes.append("feat:mid-string-ref")
        merges = {SWITCHES["merge"][v["merge"] % 2] for _, v, _ in linked}
        key = hashlib.sha1(json.dumps([case["c07"]["objs"], case["c07"]["refs"], [o for _, _, o in linked]],
                                      sort_keys=True).encode()).hexdigest()[:16]
        return {"nontrivial": len(merges) == 2 and mid, "key": key, "classes": sorted(set(classes)),
                "counters": {"variants_linked": len(linked), "sites": len(refs)}}

    @staticmethod
    def _opts(v, mode):
        out = []
        for k in SW_NAMES:
            o = SWITCHES[k][v[k] % len(SWITCHES[k])]
            if not o:
                continue
            if k == "relax" and o == "--no-relax" and mode == "static-pie":
                continue
            out += o.split(" ")
        return out

    @staticmethod
    def _wl(opts, mode):
        """-z X must travel as one -Wl, group through the compiler driver."""
        if mode == "static":
            return opts
        out, it = [], iter(opts)
        for o in it:
            out.append(o + "," + next(it) if o == "-z" else o)
        return out

    @progen.shrink_budget(45)
    def run_case(self, case, ctx):
        if case.get("flavour") == "strtab":
            return self.run_strtab(case, ctx)
        d = ctx.dir
        fam = FAMILY_NAMES[case["family"] % len(FAMILY_NAMES)]
        modes = FAMILIES[fam]
        prog = progen.realise(case["prog"], modes)
        if not prog.sites:
            raise Discard("no valid site")
        em = prog.emit(d)
        expected, exp_rc = prog.expected(), prog.expected_rc()
        ref_mode = modes[0]
        s, out, rc = progen.behaviour("ld", ref_mode, em["objs"], ctx, "ref", libs=em["libs"])
        if s != "ok":
            raise Discard("GNU ld rejects: " + _errline(out))
        if (out, rc) != (expected, exp_rc):
            raise OracleSplit(f"model vs GNU ld ({ref_mode}): {_first_diff(out, expected)} rc={rc}/{exp_rc}")
        feats = self._features(prog)
        ref_checked = set()
        linked = []
        classes = [f"family:{fam}"]
        for i, v in enumerate(case["variants"]):
            mode = modes[v["mode"] % len(modes)]
            opts = self._opts(v, mode)
            s, out, rc = progen.behaviour("wild", mode, em["objs"], ctx, f"w{i}", opts=self._wl(opts, mode), libs=em["libs"])
            if s == "crash" or (s == "reject" and ALLOC_MSG.search(out)):
                raise Violation("link-fails-under-options",
                                f"wild crashed or failed its size accounting with {opts} ({mode}); GNU ld links the program: {out[-400:]}",
                                {"mode": mode, "opts": opts})
            if s == "reject":
                classes.append("variant_rejected:" + _errline(out)[:40])
                continue
            if (out, rc) != (expected, exp_rc):
                if mode != ref_mode and mode not in ref_checked:
                    # The reference was taken in another output kind: before judging wild, GNU ld at default options
                    # must produce the expected behaviour in *this* kind too (a broken start-up file or library for
                    # one kind would otherwise be blamed on wild).
                    s2, out2, rc2 = progen.behaviour("ld", mode, em["objs"], ctx, f"ref_{mode}", libs=em["libs"])
                    if s2 != "ok" or (out2, rc2) != (expected, exp_rc):
                        raise OracleSplit(f"GNU ld at default options does not give the model's behaviour in kind {mode} "
                                          f"({s2}, rc={rc2}): no reference for this variant")
                    ref_checked.add(mode)
                site = "program-crashes" if (rc < 0 and not out) else self._first_bad_site(prog, out)
                raise Violation(f"behaviour-differs:{site}",
                                f"wild {mode} {opts}: {_first_diff(out, expected)} (rc {rc}, expected {exp_rc}); GNU ld default and "
                                f"the model agree on the expected output", {"mode": mode, "opts": opts, "got": out[-500:]})
            linked.append((mode, v, opts))
            classes.append("mode:" + mode)
            for o in opts:
                if o != "-z":
                    classes.append("opt:" + o.split("=0x")[0])
        if not linked:
            raise Discard("wild rejected every variant")
        nontrivial = False
        for a in range(len(linked)):
            for b in range(a + 1, len(linked)):
                acting = self._acting_diffs(linked[a], linked[b], feats)
                if len(acting) >= 2:
                    nontrivial = True
                    classes.append("pair_differs_in:" + "+".join(sorted(acting)[:3]))
        key = hashlib.sha1(json.dumps([prog.classes(), [(m, o) for m, _, o in linked]], sort_keys=True).encode()).hexdigest()[:16]
        classes += ["feat:" + f for f in sorted(feats)]
        return {"nontrivial": nontrivial, "key": key, "classes": sorted(set(classes)),
                "counters": {"variants_linked": len(linked), "sites": len(prog.sites)}}

    @staticmethod
    def _features(prog):
        f = set()
        for s in prog.sites:
            t = prog.defs[s["tgt"]]
            if s["ref"] in progen.GOT_FAMILY or s["ref"] in ("tlsgd", "tlsld", "tlsdesc", "gottpoff", "gottpoff_add"):
                f.add("relaxable")
            if t["kind"] == "str":
                f.add("string")
            if s["ref"] == "abs64d" and t["kind"] not in ("abs", "wundef"):
                f.add("relative")
            if t["kind"] in ("hfunc", "hdata", "htls") or s["ref"] == "viahelper":
                f.add("dynlookup")
            if t["kind"] == "hfunc" and s["ref"] in ("call", "jmp"):
                f.add("plt")
        return f

    @staticmethod
    def _acting_diffs(a, b, feats):
        (ma, va, _), (mb, vb, _) = a, b
        acting = set()
        if ma != mb:
            acting.add("mode")

        def val(v, k):
            return SWITCHES[k][v[k] % len(SWITCHES[k])]
        for k in SW_NAMES:
            if val(va, k) == val(vb, k):
                continue
            if k == "relax" and "relaxable" in feats:
                acting.add(k)
            elif k == "merge" and "string" in feats:
                acting.add(k)
            elif k == "relr" and "relative" in feats and (ma in progen.PIC_MODES or mb in progen.PIC_MODES):
                acting.add(k)
            elif k == "hash" and "dynlookup" in feats:
                acting.add(k)
            elif k == "bind" and "plt" in feats:
                acting.add(k)
            elif k in ("buildid", "gc", "relro", "strip"):
                acting.add(k)
        return acting

    @staticmethod
    def _first_bad_site(prog, out):
        exp = prog.expected().split("\n")
        got = out.split("\n")
        for i, s in enumerate(prog.sites):
            if i >= len(got) or got[i] != exp[i]:
                t = prog.defs[s["tgt"]]
                return f"{s['ref']}/{t['kind']}"
        return "exit-status"


def _errline(err):
    for line in err.split("\n"):
        if "error" in line or "undefined" in line or "relocation" in line:
            line = re.sub(r"/\S*/", "", line)
            line = re.sub(r"0x[0-9a-f]+|\d+", "N", line)
            return line[-70:]
    return err.strip().split("\n")[-1][-70:]


def _first_diff(a, b):
    la, lb = a.split("\n"), b.split("\n")
    for i, (x, y) in enumerate(zip(la, lb)):
        if x != y:
            return f"line {i}: got {x!r} expected {y!r}"
    return f"{len(la)} vs {len(lb)} lines"


CHECK = C28()
