"""C04 — Output ELF files are structurally well-formed.

Domain: generated layouts.  1..8 input sections with alignments 2^0..2^16, sizes 0..200 KiB, flags
(a, aw, ax, awT tdata, tbss, nobits, merge, merge-strings, retain, note), standard and custom names
(with and without a leading dot, C-identifier or not), spread over 1..2 objects; output kinds
static, static-pie, pie, dynamic, shared, -r; `-z max-page-size` (4K/16K/64K/2M), `-z norelro`,
`-z now`, `--section-start` (aligned/unaligned, ascending/out of order), `--no-eh-frame-hdr`,
`--build-id` styles, `--hash-style`, `-z stack-size`, --gc-sections, and simple linker scripts in
wild's supported subset (SECTIONS with output sections, `. = 0x…`, `. = ALIGN(n)`, per-section
ALIGN, `name ADDR :`, KEEP).

Oracle: a hand-written validator over the independent reader (vlib/elf.py) that checks exactly the
clauses of the statement (see `Validator`).  Every rule is also evaluated on GNU ld's and lld's
output of the same case; a complaint about a reference output is a harness error (Inconclusive).
Links wild does not accept are outside the quantifier ("all accepted links") and are discarded.
"""
import struct

from hypothesis import strategies as st

from vlib import elf as E
from vlib import slow, tools
from vlib.core import Check, Discard, Inconclusive, OracleSplit, Violation
from vlib.elf import Elf

PAGE = 4096
DT_TEXTREL = 22


def pow2(x):
    return x != 0 and x & (x - 1) == 0


class Bad(Exception):
    def __init__(self, sig, msg):
        super().__init__(f"{sig}: {msg}")
        self.sig = sig
        self.msg = msg


class Validator:
    """One method per clause of the statement. `info`: kind, relro (bool), gen_rw (names of generated
    plain writable output sections), script (bool)."""

    def __init__(self, path, who, info):
        self.who = who
        self.info = info
        try:
            self.elf = Elf(path)
        except E.ElfError as e:
            raise Bad("invalid-elf", f"not a valid ELF image: {e}")
        self.data = self.elf.data

    def run(self):
        e = self.elf
        self.header()
        self.section_table()
        if self.info["kind"] == "reloc":
            self.relocatable()
            return
        self.loads()
        self.sections_vs_segments()
        self.special_segments()
        if self.who == "wild" or not self.info["script"]:
            # (under -T GNU ld emits no RELRO at all and lld's is not page-separated: no reference there)
            self.relro()

    # -- "Every output file is a valid ELF image" ------------------------------------------------
    def header(self):
        e = self.elf
        n = len(self.data)
        if e.machine != E.EM_X86_64:
            raise Bad("header", f"e_machine={e.machine}")
        want = {"reloc": E.ET_REL, "static": E.ET_EXEC, "dynamic": E.ET_EXEC}.get(self.info["kind"], E.ET_DYN)
        if e.type != want:
            raise Bad("header-type", f"e_type={e.type}, expected {want} for kind {self.info['kind']}")
        if e.ehsize != 64 or (e.phnum and e.phentsize != 56) or (e.shnum and e.shentsize != 64):
            raise Bad("header", f"ehsize/phentsize/shentsize = {e.ehsize}/{e.phentsize}/{e.shentsize}")
        if e.phnum and not (64 <= e.phoff and e.phoff + e.phnum * 56 <= n):
            raise Bad("header", "program header table outside the file")
        if e.shoff % 8 or (e.phnum and e.phoff % 8):
            raise Bad("header-align", f"e_shoff={e.shoff:#x} / e_phoff={e.phoff:#x} not 8-aligned")
        if self.info["kind"] == "reloc":
            if e.phnum:
                raise Bad("reloc-has-phdrs", f"relocatable output has {e.phnum} program headers")
            return
        if e.phnum == 0:
            raise Bad("no-phdrs", "executable/shared output without program headers")
        if e.entry:
            if not any(p.type == E.PT_LOAD and p.flags & E.PF_X and p.vaddr <= e.entry < p.vaddr + p.memsz for p in e.segments):
                raise Bad("entry-not-executable", f"e_entry={e.entry:#x} is not inside an executable PT_LOAD")

    def section_table(self):
        e = self.elf
        n = len(self.data)
        secs = e.sections
        if not secs or secs[0].type != E.SHT_NULL:
            raise Bad("section-table", "section 0 is not SHT_NULL")
        spans = []
        for s in secs[1:]:
            if s.addralign and not pow2(s.addralign):
                raise Bad("sh-addralign", f"{s.name}: sh_addralign={s.addralign} is not a power of two")
            if s.type != E.SHT_NOBITS:
                if s.offset + s.size > n:
                    raise Bad("section-outside-file", f"{s.name}: [{s.offset:#x},+{s.size:#x}) exceeds file size {n:#x}")
                if s.size:
                    spans.append((s.offset, s.offset + s.size, s.name))
            if s.link >= len(secs):
                raise Bad("sh-link", f"{s.name}: sh_link={s.link} out of range")
            if s.type in (E.SHT_SYMTAB, E.SHT_DYNSYM):
                if secs[s.link].type != E.SHT_STRTAB:
                    raise Bad("sh-link", f"{s.name}: sh_link does not name a string table")
                if s.entsize != 24 or s.size % 24 or s.info > s.size // 24:
                    raise Bad("symtab-shape", f"{s.name}: entsize={s.entsize} size={s.size} info={s.info}")
            if s.type == E.SHT_RELA:
                if s.entsize != 24 or s.size % 24:
                    raise Bad("rela-shape", f"{s.name}: entsize={s.entsize} size={s.size}")
                if s.link and secs[s.link].type not in (E.SHT_SYMTAB, E.SHT_DYNSYM):
                    raise Bad("sh-link", f"{s.name}: sh_link={s.link} is not a symbol table")
                if s.flags & E.SHF_INFO_LINK and s.info >= len(secs):
                    raise Bad("sh-info", f"{s.name}: sh_info={s.info} out of range")
            if s.type in (E.SHT_HASH, E.SHT_GNU_HASH, E.SHT_GNU_VERSYM):
                if secs[s.link].type != E.SHT_DYNSYM:
                    raise Bad("sh-link", f"{s.name}: sh_link does not name .dynsym")
            if s.type == E.SHT_DYNAMIC and secs[s.link].type != E.SHT_STRTAB:
                raise Bad("sh-link", f"{s.name}: sh_link does not name a string table")
        # "never overlap ... in the file" (all sections that occupy file space)
        spans.sort()
        for (a0, a1, an), (b0, b1, bn) in zip(spans, spans[1:]):
            if b0 < a1:
                raise Bad("file-overlap", f"{an} [{a0:#x},{a1:#x}) and {bn} [{b0:#x},{b1:#x}) overlap in the file")
        # tables vs sections
        tabs = [(e.shoff, e.shoff + 64 * len(secs), "section header table")]
        if e.phnum:
            tabs.append((e.phoff, e.phoff + 56 * e.phnum, "program header table"))
        tabs.append((0, 64, "ELF header"))
        for t0, t1, tn in tabs:
            for a0, a1, an in spans:
                if a0 < t1 and t0 < a1:
                    raise Bad("file-overlap", f"{an} [{a0:#x},{a1:#x}) overlaps the {tn} [{t0:#x},{t1:#x})")

    # -- relocatable output ------------------------------------------------------------------------
    def relocatable(self):
        e = self.elf
        symtab = next((s for s in e.sections if s.type == E.SHT_SYMTAB), None)
        nsyms = symtab.size // 24 if symtab else 0
        for s in e.sections:
            if s.type == E.SHT_RELA:
                if symtab is None or s.link != symtab.index:
                    raise Bad("reloc-rela-link", f"{s.name}: sh_link={s.link} is not the symbol table")
                if not (0 < s.info < len(e.sections)):
                    raise Bad("reloc-rela-info", f"{s.name}: sh_info={s.info} is not a section")
                tgt = e.sections[s.info]
                for r in e.relas(s):
                    if r.sym >= nsyms:
                        raise Bad("reloc-rela-sym", f"{s.name}: symbol index {r.sym} >= {nsyms}")
                    if r.offset >= max(tgt.size, 1) and tgt.size:
                        raise Bad("reloc-rela-offset", f"{s.name}: offset {r.offset:#x} outside {tgt.name} (size {tgt.size:#x})")
        for sym in e.symtab():
            if sym.shndx not in (E.SHN_UNDEF, E.SHN_ABS, E.SHN_COMMON, E.SHN_XINDEX) and sym.shndx >= len(e.sections):
                raise Bad("reloc-sym-shndx", f"symbol {sym.name}: st_shndx={sym.shndx} out of range")

    # -- loadable segments ---------------------------------------------------------------------------
    def loads(self):
        e = self.elf
        n = len(self.data)
        prev = None
        for p in e.segments:
            if p.type != E.PT_LOAD:
                continue
            if p.align > 1:
                if not pow2(p.align):
                    raise Bad("load-align-pow2", f"{p}: p_align is not a power of two")
                if (p.offset - p.vaddr) % p.align:
                    raise Bad("load-offset-congruence", f"{p}: p_offset {p.offset:#x} is not congruent to p_vaddr "
                              f"{p.vaddr:#x} modulo p_align {p.align:#x}")
            if (p.offset - p.vaddr) % PAGE:
                raise Bad("load-offset-congruence", f"{p}: p_offset and p_vaddr differ modulo the 4 KiB page size")
            if p.filesz > p.memsz:
                raise Bad("load-filesz", f"{p}: p_filesz > p_memsz")
            if p.offset + p.filesz > n:
                raise Bad("load-outside-file", f"{p}: file range exceeds file size {n:#x}")
            if p.flags & E.PF_W and p.flags & E.PF_X and not (self.who != "wild" and self.info["script"]):
                # (GNU ld/lld merge everything into one RWX segment for a script without alignment between
                # sections and warn about it; they are no reference for this clause under -T)
                raise Bad("load-wx", f"{p}: loadable segment is both writable and executable")
            if prev is not None:
                if p.vaddr < prev.vaddr + prev.memsz:
                    raise Bad("load-order", f"{p} overlaps or precedes {prev} (PT_LOADs must ascend and not overlap)")
                # two segments sharing a page frame must map the same file page
                if (prev.vaddr + prev.memsz - 1) // PAGE == p.vaddr // PAGE and prev.memsz and p.memsz:
                    pass
            if p.memsz:
                prev = p

    def sections_vs_segments(self):
        e = self.elf
        loads = e.loads()
        alloc = [s for s in e.sections if s.flags & E.SHF_ALLOC]
        mem = []
        for s in alloc:
            if s.addralign > 1 and s.addr % s.addralign:
                raise Bad("section-misaligned", f"{s.name}: sh_addr={s.addr:#x} is not a multiple of sh_addralign={s.addralign:#x}")
            tbss = s.flags & E.SHF_TLS and s.type == E.SHT_NOBITS
            if s.size == 0:
                continue
            if not tbss:
                mem.append((s.addr, s.addr + s.size, s.name))
                need = E.PF_R | (E.PF_W if s.flags & E.SHF_WRITE else 0) | (E.PF_X if s.flags & E.SHF_EXECINSTR else 0)
                host = [p for p in loads if p.vaddr <= s.addr and s.addr + s.size <= p.vaddr + p.memsz]
                if not host:
                    raise Bad("section-not-in-load", f"{s.name} [{s.addr:#x},+{s.size:#x}) is not inside any PT_LOAD")
                p = host[0]
                if p.flags & need != need:
                    raise Bad("section-permissions", f"{s.name} (flags {s.flags:#x}) lies in {p} whose permissions do not "
                              "include what the section needs")
                if s.type != E.SHT_NOBITS:
                    if s.offset - p.offset != s.addr - p.vaddr:
                        raise Bad("section-offset-vs-address", f"{s.name}: sh_offset-p_offset={s.offset - p.offset:#x} but "
                                  f"sh_addr-p_vaddr={s.addr - p.vaddr:#x} in {p}")
                    if s.addr + s.size > p.vaddr + p.filesz:
                        raise Bad("section-beyond-filesz", f"{s.name} has file contents beyond p_filesz of {p}")
                else:
                    lo = s.addr - p.vaddr
                    if lo < p.filesz:
                        hi = min(lo + s.size, p.filesz)
                        if any(self.data[p.offset + lo:p.offset + hi]):
                            raise Bad("nobits-backed-by-nonzero-bytes", f"{s.name} (NOBITS) overlaps file-backed bytes of {p} "
                                      "that are not zero")
        mem.sort()
        for (a0, a1, an), (b0, b1, bn) in zip(mem, mem[1:]):
            if b0 < a1:
                raise Bad("memory-overlap", f"{an} [{a0:#x},{a1:#x}) and {bn} [{b0:#x},{b1:#x}) overlap in memory")

    # -- TLS, dynamic, interp, phdr, eh_frame_hdr, notes ------------------------------------------------
    def _one(self, ptype, name):
        segs = [p for p in self.elf.segments if p.type == ptype]
        if len(segs) > 1:
            raise Bad("duplicate-segment", f"{len(segs)} {name} segments")
        return segs[0] if segs else None

    def _exact(self, ptype, pname, secname):
        p = self._one(ptype, pname)
        s = self.elf.section(secname)
        if s is not None and not s.flags & E.SHF_ALLOC:
            s = None
        if p is None and s is None:
            return
        if p is None:
            raise Bad(f"{pname}-missing", f"{secname} exists but there is no {pname} segment")
        if s is None:
            raise Bad(f"{pname}-without-section", f"{pname} segment {p} but no {secname} section")
        if (p.offset, p.vaddr, p.filesz, p.memsz) != (s.offset, s.addr, s.size, s.size):
            raise Bad(f"{pname}-mismatch", f"{pname} {p} does not cover exactly {s}")
        self._inside_load(p, pname)

    def _inside_load(self, p, pname):
        for l in self.elf.loads():
            if l.vaddr <= p.vaddr and p.vaddr + p.memsz <= l.vaddr + l.memsz:
                if p.filesz and (p.offset - l.offset != p.vaddr - l.vaddr or p.vaddr + p.filesz > l.vaddr + l.filesz):
                    raise Bad(f"{pname}-not-mapped", f"{pname} {p}: file range is not the image of its address range in {l}")
                return l
        raise Bad(f"{pname}-not-in-load", f"{pname} {p} is not inside any PT_LOAD")

    def special_segments(self):
        e = self.elf
        self._exact(E.PT_DYNAMIC, "PT_DYNAMIC", ".dynamic")
        self._exact(E.PT_INTERP, "PT_INTERP", ".interp")
        self._exact(E.PT_GNU_EH_FRAME, "PT_GNU_EH_FRAME", ".eh_frame_hdr")
        p = self._one(E.PT_INTERP, "PT_INTERP")
        if p is not None:
            raw = self.data[p.offset:p.offset + p.filesz]
            if not raw.endswith(b"\0") or b"\0" in raw[:-1]:
                raise Bad("PT_INTERP-string", "PT_INTERP does not hold exactly one NUL-terminated string")
        # PT_PHDR
        ph = self._one(E.PT_PHDR, "PT_PHDR")
        if ph is not None:
            exact = ph.filesz == e.phnum * 56
            if self.who == "lld" and ph.filesz > e.phnum * 56 and ph.filesz % 56 == 0:
                exact = True  # lld 14 sizes PT_PHDR before it drops empty segments (reference quirk)
            if ph.offset != e.phoff or not exact or ph.memsz != ph.filesz:
                raise Bad("PT_PHDR-mismatch", f"PT_PHDR {ph} does not cover exactly the program header table "
                          f"(e_phoff={e.phoff:#x}, {e.phnum} entries)")
            self._inside_load(ph, "PT_PHDR")
            first_load = next(p.index for p in e.segments if p.type == E.PT_LOAD)
            if ph.index > first_load:
                raise Bad("PT_PHDR-order", "PT_PHDR follows a PT_LOAD entry")
        # PT_TLS
        tls = self._one(E.PT_TLS, "PT_TLS")
        tsecs = [s for s in e.sections if s.flags & E.SHF_TLS and s.flags & E.SHF_ALLOC and s.size]
        if tsecs and tls is None:
            raise Bad("PT_TLS-missing", f"TLS sections {[s.name for s in tsecs]} but no PT_TLS")
        if tls is not None:
            if not tsecs:
                # (lld emits a PT_TLS with rounded-up memsz for empty TLS sections)
                if tls.memsz and not any(s.flags & E.SHF_TLS for s in e.sections):
                    raise Bad("PT_TLS-without-section", f"PT_TLS {tls} but no TLS section")
            else:
                lo = min(s.addr for s in tsecs)
                hi = max(s.addr + s.size for s in tsecs)
                al = max(max(s.addralign for s in tsecs), 1)
                if al > 1 and tls.vaddr % min(al, PAGE) and tls.vaddr == lo and (self.who == "wild" or not self.info["script"]):
                    # (judged on non-empty sections only: lld 14 itself leaves p_vaddr unaligned when the strict
                    # alignment comes from an *empty* TLS section or the segment starts with an empty .tdata, and does not
                    # align TLS under -T at all: no reference there)
                    # The x86-64 TLS ABI computes TP offsets as if the template started p_align-aligned and glibc's
                    # static start-up (csu/libc-tls.c) places it so; GNU ld and lld always align the first TLS section
                    # to the segment's alignment.
                    raise Bad("PT_TLS-vaddr-misaligned", f"PT_TLS p_vaddr={tls.vaddr:#x} is not a multiple of {min(al, PAGE):#x} , the smaller of the page size and the "
                              f"strictest alignment of the non-empty TLS sections it holds; p_align={tls.align:#x}; TLS sections: "
                              f"{[(s.name, hex(s.addr), s.size, s.addralign) for s in e.sections if s.flags & E.SHF_TLS]})")
                lo_all = min(s.addr for s in e.sections if s.flags & E.SHF_TLS and s.flags & E.SHF_ALLOC)
                if tls.vaddr not in (lo, lo_all):
                    raise Bad("PT_TLS-start", f"PT_TLS starts at {tls.vaddr:#x}, TLS sections start at {lo:#x}")
                lo = tls.vaddr
                up = (hi - lo + max(tls.align, 1) - 1) // max(tls.align, 1) * max(tls.align, 1)
                if not (hi - lo <= tls.memsz <= max(up, hi - lo)):
                    raise Bad("PT_TLS-memsz", f"PT_TLS memsz={tls.memsz:#x}, TLS sections span {hi - lo:#x}")
                if tls.align < al:
                    raise Bad("PT_TLS-align", f"PT_TLS p_align={tls.align:#x} < TLS section alignment {al:#x}")
                if tls.align > 1 and (not pow2(tls.align) or (tls.filesz and (tls.offset - tls.vaddr) % min(tls.align, PAGE))):
                    raise Bad("PT_TLS-congruence", f"PT_TLS {tls}: offset/vaddr not congruent modulo alignment")
                data = [s for s in tsecs if s.type != E.SHT_NOBITS]
                fhi = max((s.addr + s.size for s in data), default=lo)
                if tls.filesz < fhi - lo or tls.filesz > tls.memsz:
                    raise Bad("PT_TLS-filesz", f"PT_TLS filesz={tls.filesz:#x}, initialised TLS data spans {fhi - lo:#x}")
                if tls.filesz > fhi - lo:
                    # A linker may give .tbss real (zero) file bytes and address space and count them in p_filesz:
                    # same initial image.  The extra bytes must be zero and must belong to TLS sections only.
                    x0, x1 = tls.vaddr + (fhi - lo), tls.vaddr + tls.filesz
                    if any(self.data[tls.offset + (fhi - lo):tls.offset + tls.filesz]):
                        raise Bad("PT_TLS-filesz-nonzero", f"PT_TLS filesz={tls.filesz:#x} exceeds the initialised TLS data "
                                  f"({fhi - lo:#x}) and the extra file bytes are not zero: .tbss would start non-zero")
                    for o in e.sections:
                        if o.flags & E.SHF_ALLOC and not o.flags & E.SHF_TLS and o.size and o.addr < x1 and x0 < o.addr + o.size:
                            raise Bad("PT_TLS-filesz-overlaps-section", f"PT_TLS initial image {tls} extends over {o.name}")
                if data and tls.offset != min(s.offset for s in data):
                    raise Bad("PT_TLS-offset", f"PT_TLS offset={tls.offset:#x}, .tdata at {min(s.offset for s in data):#x}")
                for s in tsecs:
                    if s.type == E.SHT_NOBITS and any(d.addr >= s.addr for d in data):
                        raise Bad("PT_TLS-order", "TLS NOBITS section precedes initialised TLS data")
        # PT_NOTE
        notes = [s for s in e.sections if s.type == E.SHT_NOTE and s.flags & E.SHF_ALLOC and s.size]
        covered = set()
        for p in e.segments:
            if p.type != E.PT_NOTE:
                continue
            inside = [s for s in notes if p.offset <= s.offset and s.offset + s.size <= p.offset + p.filesz]
            if not inside:
                raise Bad("PT_NOTE-empty", f"PT_NOTE {p} contains no note section")
            inside.sort(key=lambda s: s.offset)
            if inside[0].offset != p.offset or inside[0].addr != p.vaddr:
                raise Bad("PT_NOTE-start", f"PT_NOTE {p} does not start at a note section")
            if inside[-1].offset + inside[-1].size != p.offset + p.filesz:
                raise Bad("PT_NOTE-end", f"PT_NOTE {p} does not end at the end of a note section")
            pos = p.offset
            for s in inside:
                if s.offset - pos >= 8:
                    raise Bad("PT_NOTE-gap", f"PT_NOTE {p} has a gap before {s.name}")
                pos = s.offset + s.size
                covered.add(s.index)
            self._parse_notes(self.data[p.offset:p.offset + p.filesz], 8 if p.align == 8 else 4, str(p))
            self._inside_load(p, "PT_NOTE")
        for s in notes:
            if s.index not in covered:
                raise Bad("note-section-not-in-PT_NOTE", f"{s.name} is an allocated note section outside every PT_NOTE")
        gp = self._one(E.PT_GNU_PROPERTY, "PT_GNU_PROPERTY")
        if gp is not None:
            s = e.section(".note.gnu.property")
            if s is None or (gp.offset, gp.vaddr, gp.filesz) != (s.offset, s.addr, s.size):
                raise Bad("PT_GNU_PROPERTY-mismatch", f"PT_GNU_PROPERTY {gp} does not cover .note.gnu.property")

    @staticmethod
    def _parse_notes(d, align, what):
        off = 0
        while off < len(d):
            if off + 12 > len(d):
                if any(d[off:]):
                    raise Bad("note-malformed", f"{what}: trailing bytes after the last note")
                return
            namesz, descsz, ntype = struct.unpack_from("<III", d, off)
            off += 12
            off += (namesz + 3) & ~3
            off += (descsz + 3) & ~3
            if off > len(d):
                raise Bad("note-malformed", f"{what}: note (namesz={namesz}, descsz={descsz}) overruns the segment")
            if align == 8:
                off = (off + 7) & ~7
                if off > len(d):
                    off = len(d)

    # -- RELRO ---------------------------------------------------------------------------------------
    MUST_RELRO = (".dynamic", ".data.rel.ro", ".init_array", ".fini_array", ".preinit_array")

    def relro(self):
        e = self.elf
        r = self._one(E.PT_GNU_RELRO, "PT_GNU_RELRO")
        if not self.info["relro"]:
            if r is not None and r.memsz:
                raise Bad("relro-despite-norelro", f"-z norelro but PT_GNU_RELRO {r} present")
            return
        if r is None or r.memsz == 0:
            return  # nothing to protect is legitimate; which sections are relro is the linker's call
        if not any(s.flags & E.SHF_ALLOC and s.size and r.vaddr <= s.addr < r.vaddr + r.memsz for s in e.sections) \
                and not any(s.name in self.MUST_RELRO and s.size and s.flags & E.SHF_ALLOC for s in e.sections):
            return  # covers no section and there is nothing it should cover (lld emits this for an empty .tdata)
        host = None
        for l in e.loads():
            # the loader protects whole pages, so the segment may run up to the end of the load's last page
            # and GNU ld counts a trailing .tbss (which takes no room in the PT_LOAD) in p_memsz: the segment may
            # run past the load's end as long as it stays clear of the next PT_LOAD
            pg = max(l.align, PAGE)
            nxt = min((o.vaddr for o in e.loads() if o.vaddr > l.vaddr and o.memsz), default=1 << 64)
            lim = max((l.vaddr + l.memsz + pg - 1) // pg * pg, nxt)
            if l.vaddr <= r.vaddr < l.vaddr + max(l.memsz, 1) and r.vaddr + r.memsz <= lim:
                host = l
        if host is None:
            raise Bad("relro-not-in-load", f"PT_GNU_RELRO {r} is not inside one PT_LOAD")
        if not host.flags & E.PF_W:
            raise Bad("relro-in-readonly-load", f"PT_GNU_RELRO {r} lies in non-writable {host}")
        end = r.vaddr + r.memsz
        later_rw = [s.name for s in e.sections if s.flags & E.SHF_ALLOC and s.flags & E.SHF_WRITE and s.size
                    and s.addr >= end and not (s.flags & E.SHF_TLS and s.type == E.SHT_NOBITS)]
        if end % PAGE and later_rw:
            # (lld 14 does not pad when RELRO is the last writable thing in the image)
            raise Bad("relro-end-not-page-aligned", f"PT_GNU_RELRO ends at {end:#x}: the loader protects whole pages only, "
                      "so the tail of the RELRO area stays writable")
        plo = r.vaddr // PAGE * PAGE
        phi = end // PAGE * PAGE
        for s in e.sections:
            if not (s.flags & E.SHF_ALLOC and s.flags & E.SHF_WRITE) or s.size == 0:
                continue
            if s.flags & E.SHF_TLS and s.type == E.SHT_NOBITS:
                continue
            inside = r.vaddr <= s.addr and s.addr + s.size <= end
            outside = s.addr + s.size <= r.vaddr or s.addr >= end
            if not inside and not outside and s.name != ".got.plt":  # GNU ld protects only .got.plt's reserved head
                raise Bad("relro-splits-section", f"PT_GNU_RELRO [{r.vaddr:#x},{end:#x}) covers only part of {s.name} "
                          f"[{s.addr:#x},{s.addr + s.size:#x})")
            if s.name in self.MUST_RELRO and not inside:
                raise Bad("relro-misses-section", f"{s.name} [{s.addr:#x},+{s.size:#x}) is outside PT_GNU_RELRO [{r.vaddr:#x},{end:#x})")
            if (s.name in (".data", ".bss") or s.name in self.info["gen_rw"]) and s.addr < phi and s.addr + s.size > plo:
                raise Bad("relro-covers-writable-data", f"{s.name} [{s.addr:#x},+{s.size:#x}) shares a page with the "
                          f"region the loader makes read-only [{plo:#x},{phi:#x})")


# -------------------------------------------------------------------------------------------------
# Generator

FLAGS = ["a", "aw", "ax", "tdata", "tbss", "nobits", "merge", "mergestr", "retain", "note", "relro"]
SIZES = st.one_of(st.integers(0, 64), st.integers(0, 64), st.integers(0, 5000), st.integers(0, 204800),
                  st.sampled_from([0, 1, 4095, 4096, 4097, 65536, 204800]))


def section_strategy():
    return st.fixed_dictionaries({
        "flags": st.sampled_from(FLAGS + ["a", "aw", "ax", "aw"]),
        "align": st.one_of(st.integers(0, 6), st.integers(0, 6), st.integers(7, 12), st.integers(12, 16)),
        "size": SIZES,
        "name": st.sampled_from(["std", "dot", "cident", "odd"]),
        "obj": st.integers(0, 1),
    })


SIG_NOTE_MIX = "note-segment-mixes-alignments"


class C04(Check):
    prop = "C04"
    level = "exploration"
    technique = ("PBT over generated layouts with a hand-written ELF structural validator (one rule per clause of the "
                 "statement), every rule calibrated on GNU ld and lld outputs of the same case")
    rule = ("Hypothesis draws 1..8 input sections (flags, alignment 1..2^16, size 0..200 KiB, names), output kind "
            "(static/static-pie/pie/dynamic/shared/-r), -z max-page-size, norelro, now, --section-start, eh-frame-hdr, "
            "build-id, hash-style, stack-size, gc, or a simple linker script; non-trivial = (>= 3 PT_LOADs or -r) and "
            "(a non-default layout option or an alignment >= 4096); distinct by (kind, option set, alignment multiset, flags)")
    assumptions = ["GNU ld 2.40 and lld 14 outputs pass every rule (checked per case)",
                   "'permissions match' is read as: segment permissions include the section's needs, plus W^X",
                   "the loader's page size is 4 KiB (RELRO page rules, offset/address congruence)"]
    quick_cases = 420
    thorough_cases = 20000

    def strategy(self, tier):
        return st.fixed_dictionaries({
            "kind": st.sampled_from(["static", "static-pie", "pie", "dynamic", "shared", "reloc", "static", "pie"]),
            "sections": st.lists(section_strategy(), min_size=1, max_size=8),
            "maxpage": st.sampled_from([None, None, 0x1000, 0x4000, 0x10000, 0x200000]),
            "norelro": st.sampled_from([False, False, True]),
            "now": st.booleans(),
            "section_start": st.lists(st.tuples(st.integers(0, 7), st.sampled_from(
                [0x1000000, 0x2000000, 0x1234560, 0x3000008, 0x800000, 0x40001001, 0x7000000])).map(list),
                min_size=1, max_size=2, unique_by=lambda t: t[0]),
            "use_section_start": st.sampled_from([False, True]),
            "ehhdr": st.sampled_from([None, True, False]),
            "build_id": st.sampled_from([None, None, "fast", "md5", "sha1", "uuid", "0x0123456789abcdef", "none"]),
            "hash_style": st.sampled_from([None, "gnu", "sysv", "both"]),
            "stack_size": st.sampled_from([None, None, 0x100000]),
            "gc": st.booleans(),
            "script": st.sampled_from([None, None, "basic", "addr", "align"]),
            "script_base": st.sampled_from([0x10000, 0x400000, 0x600000, 0x1000000]),
            "ptrs": st.booleans(),
            "threads": st.sampled_from([0, 0, 1]),
        })

    # ------------------------------------------------------------------------------------------
    @staticmethod
    def plan(case):
        kind = case["kind"]
        secs = []
        for i, s in enumerate(case["sections"]):
            f = s["flags"]
            size = s["size"]
            al = 1 << s["align"]
            base = {"a": ".rodata", "aw": ".data", "ax": ".text", "tdata": ".tdata", "tbss": ".tbss", "nobits": ".bss",
                    "merge": ".rodata", "mergestr": ".rodata", "retain": ".data", "note": ".note", "relro": ".data.rel.ro"}[f]
            nm = s["name"]
            if f in ("tdata", "tbss", "relro") or nm == "std":
                name = f"{base}.v{i}"
                outname = base if f != "note" else f".note.v{i}"
            elif nm == "dot":
                name = outname = f".vsec{i}"
            elif nm == "cident":
                name = outname = f"vsec{i}"
            else:
                name = outname = f"v.sec-{i}"
            if f == "note":
                name = outname = f".note.v{i}"
                al = 4 if s["align"] % 2 else 8
            secs.append({"i": i, "flags": f, "size": size, "align": al, "name": name, "out": outname,
                         "obj": s["obj"], "label": f"vlab{i}"})
        script = case["script"] if kind == "static" else None
        return secs, script

    @staticmethod
    def _mixed_note_alignments(secs):
        return {4, 8} <= {s["align"] for s in secs if s["flags"] == "note"}

    def excluded_by_construction(self, case):
        secs, script = self.plan(case)
        if self._mixed_note_alignments(secs) and case["kind"] != "reloc":
            return SIG_NOTE_MIX
        if not script:
            return None
        if not case["gc"]:
            return "script-nogc/sh-link"
        if case["script_base"] == 0x400000:
            return "script/load-order"
        if not case["norelro"] and (case["ptrs"] or any(s["flags"] == "relro" and s["size"] for s in secs)):
            return "script/relro-misses-section"
        return None

    def build(self, case, d):
        secs, script = self.plan(case)
        kind = case["kind"]
        pic = kind in ("static-pie", "pie", "shared")
        srcs = [[], []]
        for s in secs:
            f, nm, size, al, lab = s["flags"], s["name"], s["size"], s["align"], s["label"]
            q = '"' + nm + '"'
            if f == "a":
                hdr = f'.section {q},"a",@progbits\n'
                body = f".skip {size}, 0x5a\n"
            elif f in ("aw", "relro"):
                hdr = f'.section {q},"aw",@progbits\n'
                body = f".skip {size}, 0x33\n"
                if case["ptrs"] and size >= 8 and al >= 8:
                    body = f".quad {lab}\n.skip {size - 8}, 0x33\n"
            elif f == "ax":
                hdr = f'.section {q},"ax",@progbits\n'
                body = f".skip {size}, 0x90\n"
            elif f == "tdata":
                hdr = f'.section {q},"awT",@progbits\n'
                body = f".skip {size}, 0x11\n"
            elif f == "tbss":
                hdr = f'.section {q},"awT",@nobits\n'
                body = f".skip {size}\n"
            elif f == "nobits":
                hdr = f'.section {q},"aw",@nobits\n'
                body = f".skip {size}\n"
            elif f == "merge":
                ent = 8 if s["i"] % 2 else 4
                hdr = f'.section {q},"aM",@progbits,{ent}\n'
                n = min(size // ent, 4000)
                body = "".join(f".{'quad' if ent == 8 else 'long'} {(k * 7) % 97}\n" for k in range(n))
                al = max(al, ent)
            elif f == "mergestr":
                hdr = f'.section {q},"aMS",@progbits,1\n'
                n = min(size // 8, 3000)
                body = "".join(f'.string "s{(k * 5) % 61:05d}"\n' for k in range(n))
            elif f == "retain":
                hdr = f'.section {q},"awR",@progbits\n'
                body = f".skip {size}, 0x44\n"
            else:  # note
                hdr = f'.section {q},"a",@note\n'
                desc = (min(size, 256) + 3) & ~3
                body = f".long 4, {desc}, {0x100 + s['i']}\n.asciz \"VRF\"\n.skip {desc}, 0x7e\n"
            text = hdr + (f".balign {al}\n" if al > 1 else "") + f"{lab}:\n" + body
            srcs[s["obj"]].append(text)
        # _start referencing every non-TLS generated section
        code = ['.section .text,"ax",@progbits\n.globl _start\n.type _start,@function\n_start:\n']
        for s in secs:
            if s["obj"] != 0 or s["flags"] in ("tdata", "tbss", "note"):
                continue
            code.append(f"  leaq {s['label']}(%rip), %rax\n")
        if kind not in ("shared", "reloc"):
            for s in secs:
                if s["obj"] == 0 and s["flags"] in ("tdata", "tbss"):
                    code.append(f"  movq %fs:0, %rax\n  leaq {s['label']}@tpoff(%rax), %rax\n")
        if kind in ("pie", "dynamic", "shared"):
            code.append("  call hfunc@PLT\n  movq hdata@GOTPCREL(%rip), %rax\n")
        if len([s for s in secs if s["obj"] == 1]):
            code.append("  call vother\n")
        code.append("  movl $60, %eax\n  xorl %edi, %edi\n  syscall\n")
        # .eh_frame content so that --eh-frame-hdr has something to describe
        code.append('.section .text.vf,"ax",@progbits\n.globl vfn\n.type vfn,@function\nvfn:\n.cfi_startproc\nret\n.cfi_endproc\n')
        if case["ptrs"]:
            code.append('.section .init_array,"aw",@init_array\n.quad vfn\n')
        srcs[0].append("".join(code))
        objs = []
        slow.asm("".join(srcs[0]), "o0.o", cwd=d)
        objs.append("o0.o")
        if any(s["obj"] == 1 for s in secs):
            c1 = ['.section .text.vother,"ax",@progbits\n.globl vother\n.type vother,@function\nvother:\n']
            for s in secs:
                if s["obj"] == 1 and s["flags"] not in ("tdata", "tbss", "note"):
                    c1.append(f"  leaq {s['label']}(%rip), %rax\n")
            c1.append("  ret\n")
            srcs[1].append("".join(c1))
            slow.asm("".join(srcs[1]), "o1.o", cwd=d)
            objs.append("o1.o")
        helper = None
        if kind in ("pie", "dynamic", "shared"):
            slow.asm('.text\n.globl hfunc\n.type hfunc,@function\nhfunc: ret\n.data\n.globl hdata\n.type hdata,@object\n'
                      '.size hdata,8\nhdata: .quad 1\n', "h.o", cwd=d)
            tools.must(slow.link("ld", ["-shared", "-soname", "libh.so", "-o", "libh.so", "h.o"], cwd=d), "helper library")
            helper = "libh.so"
        if script:
            tools.write(f"{d}/s.ld", self.script_text(case, secs, script))
        return secs, script, objs, helper

    @staticmethod
    def script_text(case, secs, style):
        base = case["script_base"]
        custom = []
        for s in secs:
            if s["out"] not in (".rodata", ".data", ".text", ".tdata", ".tbss", ".bss", ".data.rel.ro") and s["out"] not in custom:
                custom.append(s["out"])
        L = ["ENTRY(_start)\nSECTIONS\n{\n", f"  . = {base:#x};\n", "  .text : { *(.text .text.*) }\n"]
        if style == "align":
            L.append("  . = ALIGN(0x1000);\n")
        L.append("  .rodata : { *(.rodata .rodata.*) }\n")
        L.append("  .eh_frame : { KEEP(*(.eh_frame)) }\n")
        for k, c in enumerate(custom):
            q = c if c.replace(".", "").replace("_", "").isalnum() else f'"{c}"'
            if style == "addr" and k == 0:
                L.append(f"  {q} {base + 0x800000:#x} : {{ KEEP(*({q})) }}\n")
            elif style == "align":
                L.append(f"  {q} : ALIGN({64 << (k % 3)}) {{ KEEP(*({q})) }}\n")
            else:
                L.append(f"  {q} : {{ KEEP(*({q})) }}\n")
        if style == "align":
            L.append("  . = ALIGN(0x1000);\n")
        L.append("  .tdata : { *(.tdata .tdata.*) }\n  .tbss : { *(.tbss .tbss.*) }\n")
        L.append("  .init_array : { KEEP(*(.init_array)) }\n")
        L.append("  .data.rel.ro : { *(.data.rel.ro .data.rel.ro.*) }\n")
        L.append("  .data : { *(.data .data.*) }\n  .bss : { *(.bss .bss.*) }\n}\n")
        return "".join(L)

    def link_args(self, case, who, secs, script, objs, helper, out):
        kind = case["kind"]
        a = []
        if kind == "reloc":
            return ["-r"] + objs + ["-o", out]
        if kind == "static-pie":
            a += ["-static", "-pie"] + ([] if who == "wild" else ["--no-dynamic-linker"])
        elif kind == "pie":
            a += ["-pie", "--dynamic-linker=/lib64/ld-linux-x86-64.so.2"]
        elif kind == "dynamic":
            a += ["--dynamic-linker=/lib64/ld-linux-x86-64.so.2"]
        elif kind == "shared":
            a += ["-shared"]
        if case["maxpage"]:
            a += ["-z", f"max-page-size={case['maxpage']:#x}"]
        if case["norelro"]:
            a += ["-z", "norelro"]
        if case["now"]:
            a += ["-z", "now"]
        if case["use_section_start"] and not script:
            used = set()
            for idx, addr in case["section_start"]:
                s = secs[idx % len(secs)]
                if addr in used or s["out"] in used:
                    continue  # two sections at one address is not a meaningful request (see report)
                used.update((addr, s["out"]))
                if s["flags"] in ("tdata", "tbss", "note") or s["out"] in (".rodata", ".data", ".text", ".bss", ".data.rel.ro"):
                    continue
                a.append(f"--section-start={s['out']}={addr:#x}")
        if case["ehhdr"] is True:
            a.append("--eh-frame-hdr")
        elif case["ehhdr"] is False:
            a.append("--no-eh-frame-hdr")
        if case["build_id"]:
            a.append("--build-id=" + case["build_id"] if case["build_id"] != "fast" or who != "ld" else "--build-id")
        if case["hash_style"]:
            a.append("--hash-style=" + case["hash_style"])
        if case["stack_size"]:
            a += ["-z", f"stack-size={case['stack_size']:#x}"]
        a.append("--gc-sections" if case["gc"] and kind != "shared" else "--no-gc-sections")
        if script:
            a += ["-T", "s.ld"]
        if who == "wild" and case["threads"]:
            a.append(f"--threads={case['threads']}")
        a += objs
        if helper:
            a.append(helper)
        return a + ["-o", out]

    def run_case(self, case, ctx):
        d = ctx.dir
        secs, script, objs, helper = self.build(case, d)
        kind = case["kind"]
        gen_rw = {s["out"] for s in secs if s["flags"] in ("aw", "retain", "nobits") and s["out"] not in (".data.rel.ro",)}
        info = {"kind": kind, "relro": not case["norelro"], "gen_rw": gen_rw, "script": bool(script)}
        if script:
            info["relro"] = info["relro"]
        verdicts = {}
        ref_bad = {}
        for who in ("ld", "lld", "wild"):
            if who == "wild" and ref_bad:
                # Both references evaluated.  A rule that flags both (or the only one available) is a harness bug;
                # a rule on which the two references disagree is an oracle split (e.g. GNU ld extends PT_GNU_RELRO
                # over a 64 KiB-aligned .tbss into the next PT_LOAD's first page; lld does not).
                w0, b0 = sorted(ref_bad.items())[0]
                if len(ref_bad) == 2 or any(v is None and k not in ref_bad for k, v in verdicts.items()):
                    raise Inconclusive(f"oracle self-check failed: rule {b0.sig} flags {w0} output: {b0.msg}")
                raise OracleSplit(f"rule {b0.sig} flags {w0} output but not the other reference's: {b0.msg}"[:280])
            out = f"out.{who}"
            r = slow.link(who, self.link_args(case, who, secs, script, objs, helper, out), cwd=d)
            if who == "wild":
                if r.timed_out:
                    raise Inconclusive("wild timed out")
                if r.rc < 0 or "panicked at" in r.err:
                    raise Inconclusive(f"wild crashed (not C04's subject): {r.err[-300:]}")
                if r.rc != 0:
                    raise Discard("wild does not accept the link: " + r.err.strip().split("\n")[0][:70])
            elif r.rc != 0 or r.timed_out:
                if who == "ld":
                    raise Discard("GNU ld rejects the case: " + r.err.strip().split("\n")[-1][-60:])
                verdicts[who] = None
                continue
            try:
                v = Validator(f"{d}/{out}", who, info)
                v.run()
                verdicts[who] = v
            except Bad as b:
                if who == "wild":
                    pre = ("script-nogc/" if not (case["gc"]) else "script/") if script else ""
                    if b.sig == "PT_TLS-vaddr-misaligned":
                        pre = ""  # same root cause with or without a script (known finding)
                    if b.sig == "note-malformed" and self._mixed_note_alignments(secs):
                        # one PT_NOTE (p_align 8) over note sections of alignment 4 and 8: the 4-aligned notes cannot
                        # be parsed with the segment's alignment (GNU ld emits one PT_NOTE per alignment)
                        raise Violation(SIG_NOTE_MIX, f"wild ({kind}{', -T script' if script else ''}): {b.msg}",
                                        {"args": self.link_args(case, who, secs, script, objs, helper, out)})
                    raise Violation(pre + b.sig, f"wild ({kind}{', -T script' if script else ''}): {b.msg}", {"args": self.link_args(case, who, secs, script, objs, helper, out)})
                ref_bad[who] = b
                verdicts[who] = None
        w = verdicts["wild"].elf
        nload = len(w.loads())
        opts = []
        for k in ("maxpage", "norelro", "ehhdr", "build_id", "hash_style", "stack_size"):
            if case[k] not in (None, False):
                opts.append(k)
        if case["use_section_start"] and any(a.startswith("--section-start") for a in
                                             self.link_args(case, "wild", secs, script, objs, helper, "x")):
            opts.append("section_start")
        if script:
            opts.append("script:" + script)
        big_align = any(s["align"] >= 4096 for s in secs)
        classes = [f"kind:{kind}", f"loads:{min(nload, 5)}"] + [f"opt:{o}" for o in opts] + \
                  sorted({f"flags:{s['flags']}" for s in secs})
        if big_align:
            classes.append("align>=4096")
        if any(p.type == E.PT_TLS for p in w.segments):
            classes.append("has-PT_TLS")
        if any(p.type == E.PT_GNU_RELRO for p in w.segments):
            classes.append("has-RELRO")
        if verdicts.get("lld") is None:
            classes.append("lld-rejected")
        nontrivial = (nload >= 3 or kind == "reloc") and (bool(opts) or big_align)
        key = f"{kind}|{sorted(opts)}|{sorted(s['align'] for s in secs)}|{sorted(s['flags'] for s in secs)}"
        return {"nontrivial": nontrivial, "key": key, "classes": classes,
                "counters": {"sections_checked": len(w.sections), "segments_checked": len(w.segments)}}


CHECK = C04()
