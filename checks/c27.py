"""C27 — Partial links are transparent.

Domain: progen site programs (3-5 assembly objects + driver; reference kinds x symbol kinds incl.
weak/common/hidden/protected symbols, section-symbol addends, equal local names in different
objects, TLS, mergeable strings, ifuncs, weak duplicates) x a generated partition of the objects
into 1-3 `-r` groups plus leftovers x optional nesting (`-r` of `-r` outputs) x `-r` options x final
output kind (static freestanding, static libc, PIE, dynamic non-PIE, shared).

Oracle (metamorphic + differential, consensus): model's expected stdout/exit status == the direct
GNU ld link (else OracleSplit / Discard).  The program linked via wild `-r` groups and a final wild
link must print exactly that, given that the direct wild link does (a direct wild link that already
differs is outside this property and only counted).  On a failure the `-r` step is redone with GNU
ld (final step still wild) to name the faulty step in the signature.
"""
import hashlib
import json
import re

from hypothesis import strategies as st

from vlib import progen, tools
from vlib.core import Check, Discard, Inconclusive, OracleSplit, Violation

MODES = ["static", "static", "static-libc", "pie", "pie", "dyn", "shared"]
R_OPTS = [[], [], ["-S"], ["--no-gc-sections"], ["--no-string-merge"], ["--threads=1"]]


# C27 draws commons rarely: every common that passes through wild -r is in a known finding's domain.
DEF_KINDS = [k for k in progen.DEF_KINDS if k != "common"] * 3 + ["common"]


def _partition(case, prog):
    """(gidx per object incl. driver, groups dict)."""
    n = prog.ntu
    gidx = [case["groups"][i] for i in range(n)] + [case["groups"][6]]
    groups = {}
    for i, g in enumerate(gidx):
        if g >= 0:
            groups.setdefault(g, []).append(i)
    if not groups:
        gidx[0] = gidx[1] = 0
        groups = {0: [0, 1]}
    return gidx, groups


GOT_BASE_REFS = {"gotoff64", "got64", "pltoff64"}     # their code references _GLOBAL_OFFSET_TABLE_


def _realise(case):
    mode = MODES[case["mode"] % len(MODES)]
    return mode, progen.realise(case["prog"], [mode], rare_refs=GOT_BASE_REFS)


def nested_secsym_sites(case, prog, gidx, groups):
    """Known finding `nested-r-section-symbol-double-offset`: `wild -r` over an input that is itself a
    `wild -r` output both re-targets a section-symbol relocation at a copied STT_SECTION symbol whose
    st_value is the section's offset in the merged output section *and* adds that offset to the addend.
    Affected here: nesting on, the site's object is in the second nested group, the target is a local
    symbol reached through a section-symbol relocation (not a GOT/TLS form, which keep the symbol) and
    the first nested group also contributes to the target's section (non-zero offset). Returns the
    affected site numbers."""
    if not (case["nest"] and len(groups) >= 2):
        return []
    gs = sorted(groups)
    first, second = gs[0], gs[1]
    first_secs = set()
    for dd in prog.defs:
        for tu in (dd["tu"], dd["dup_tu"]):
            if tu is not None and tu >= 0 and gidx[tu] == first:
                sec = prog.def_section(dd)
                if sec:
                    first_secs.add(sec)
    out = []
    for st_ in prog.sites:
        t = prog.defs[st_["tgt"]]
        if gidx[st_["tu"]] != second or t["bind"] != "local":
            continue
        if progen.REFS[st_["ref"]][0] in ("got", "tls"):
            continue
        if prog.def_section(t) in first_secs:
            out.append(st_["n"])
    return out


def known_r_domain(case):
    """Exact domains of the two known `wild -r` findings.
    r-drops-common-symbols: a COMMON symbol is referenced from an object that goes through `wild -r`
      (the owning TU's init function always references it).
    r-drops-linker-defined-symbols: an object going through `wild -r` references a linker-defined
      symbol (here: _GLOBAL_OFFSET_TABLE_, via the GOTOFF64/GOT64/PLTOFF64 sequences)."""
    mode, prog = _realise(case)
    gidx, _ = _partition(case, prog)
    for dd in prog.defs:
        if dd["kind"] == "common" and gidx[dd["tu"]] >= 0:
            return "r-drops-common-symbols"
    for st_ in prog.sites:
        if prog.defs[st_["tgt"]]["kind"] == "common" and gidx[st_["tu"]] >= 0:
            return "r-drops-common-symbols"
    for st_ in prog.sites:
        if st_["ref"] in GOT_BASE_REFS and gidx[st_["tu"]] >= 0:
            return "r-drops-linker-defined-symbols"
    gidx, groups = _partition(case, prog)
    if nested_secsym_sites(case, prog, gidx, groups):
        return "nested-r-section-symbol-double-offset"
    return None


class C27(Check):
    prop = "C27"
    level = "exploration"
    technique = ("metamorphic PBT: wild -r groups + final wild link vs direct wild link vs direct GNU ld link + model, "
                 "executed; GNU-ld -r + wild final as step isolator")
    rule = ("Hypothesis-generated site programs with a generated partition into -r groups; non-trivial = >= 1 reference "
            "between different objects becomes intra-object after the partial link, >= 1 reference still crosses a "
            "partial-link boundary and the program prints >= 5 observations; distinct by hash of (normalised program, "
            "partition, nesting, mode)")
    assumptions = ["GNU ld 2.40 direct link is the behavioural reference"]
    quick_cases = 200
    thorough_cases = 6000

    def strategy(self, tier):
        return st.fixed_dictionaries({
            "mode": st.integers(0, len(MODES) - 1),
            "prog": progen.program_strategy(max_defs=12, max_sites=14, ntu=(3, 5), def_kinds=DEF_KINDS,
                                            binds=progen.BINDS + ["local", "local"]),
            "groups": st.lists(st.integers(-1, 2), min_size=7, max_size=7),   # per object (t0..t5, drv)
            "nest": st.booleans(),
            "ropt": st.integers(0, len(R_OPTS) - 1),
        })

    def excluded_by_construction(self, case):
        return known_r_domain(case)

    @progen.shrink_budget(45)
    def run_case(self, case, ctx):
        d = ctx.dir
        mode, prog = _realise(case)
        if not prog.sites:
            raise Discard("no valid site")
        em = prog.emit(d)
        objs = em["objs"]                      # t0..tN-1, drv.o
        expected, exp_rc = prog.expected(), prog.expected_rc()
        s, out, rc = progen.behaviour("ld", mode, objs, ctx, "ld", libs=em["libs"])
        if s != "ok":
            raise Discard("GNU ld rejects: " + _errline(out))
        if (out, rc) != (expected, exp_rc):
            raise OracleSplit(f"model vs GNU ld direct ({mode}): {_first_diff(out, expected)} rc={rc}/{exp_rc}")
        s, out, rc = progen.behaviour("wild", mode, objs, ctx, "wdirect", libs=em["libs"])
        if s == "reject":
            raise Discard("wild rejects the direct link: " + _errline(out))
        if s == "crash":
            return {"nontrivial": False, "classes": ["wild_direct_crash"]}
        if (out, rc) != (expected, exp_rc):
            return {"nontrivial": False, "classes": ["wild_direct_differs_from_reference"]}
        # partition
        gidx, groups_i = _partition(case, prog)
        groups = {g: [objs[i] for i in m] for g, m in groups_i.items()}
        known = known_r_domain(case)
        ropt = R_OPTS[case["ropt"] % len(R_OPTS)]
        nest = case["nest"] and len(groups) >= 2

        def partial(linker, tag):
            """Returns (final object list, None) or (None, Result) if a -r step failed."""
            names = {}
            for g, members in sorted(groups.items()):
                name = f"{tag}_g{g}.o"
                r = tools.link(linker, ["-r", "-o", name, *(ropt if linker == "wild" else []), *members], cwd=d)
                if r.rc != 0 or r.timed_out:
                    return None, r
                names[g] = name
            if nest:
                gs = sorted(names)
                name = f"{tag}_nest.o"
                r = tools.link(linker, ["-r", "-o", name, names[gs[0]], names[gs[1]]], cwd=d)
                if r.rc != 0 or r.timed_out:
                    return None, r
                names[gs[1]] = None
                names[gs[0]] = name
            final, seen = [], set()
            for o, g in zip(objs, gidx):
                if g < 0:
                    final.append(o)
                elif g not in seen:
                    seen.add(g)
                    if names[g]:
                        final.append(names[g])
            return final, None

        final, fail = partial("wild", "w")
        if fail is not None:
            if fail.timed_out:
                raise Inconclusive("wild -r timed out")
            if progen.wild_crashed(fail):
                raise Violation("wild-r-crash", f"wild -r crashed: {fail.err[-400:]}", {"groups": groups})
            raise Discard("wild -r rejects: " + _errline(fail.err))
        s, out, rc = progen.behaviour("wild", mode, final, ctx, "wpart", libs=em["libs"])
        if s != "ok" or (out, rc) != (expected, exp_rc):
            # isolate the step: -r by GNU ld, final by wild
            step = "unknown-step"
            lfinal, lfail = partial("ld", "l")
            if lfail is None:
                s2, out2, rc2 = progen.behaviour("wild", mode, lfinal, ctx, "lpart", libs=em["libs"])
                step = "r-step" if (s2 == "ok" and (out2, rc2) == (expected, exp_rc)) else "final-step"
            if known and step == "r-step":
                raise Violation(known,
                                f"known wild -r defect ({known}); final link {'fails' if s != 'ok' else 'misbehaves'}: "
                                f"{out[-300:] if s != 'ok' else _first_diff(out, expected)}", {"groups": groups, "mode": mode})
            if s != "ok":
                raise Violation(f"partial-link-then-link-fails:{step}",
                                f"direct wild link works, but linking wild's -r outputs fails ({mode}, groups {groups}, nest {nest}): {out[-400:]}",
                                {"groups": groups, "mode": mode})
            site = "program-crashes" if (rc < 0 and not out) else _first_bad_site(prog, out)
            raise Violation(f"partial-link-changes-behaviour:{step}:{site}",
                            f"{mode}, groups {groups}, nest {nest}, -r opts {ropt}: {_first_diff(out, expected)} (rc {rc}/{exp_rc}); direct wild link, "
                            f"GNU ld and the model agree", {"groups": groups, "mode": mode, "got": out[-500:]})
        # non-triviality
        tu_group = {i: gidx[i] for i in range(prog.ntu)}
        if nest:
            gs = sorted(groups)
            for i in tu_group:
                if tu_group[i] == gs[1]:
                    tu_group[i] = gs[0]
        intra = cross = 0
        for st_ in prog.sites:
            t = prog.defs[st_["tgt"]]
            if t["tu"] < 0 or t["tu"] == st_["tu"]:
                continue
            ga, gb = tu_group[st_["tu"]], tu_group[t["tu"]]
            if ga >= 0 and ga == gb:
                intra += 1
            else:
                cross += 1
        drv_g = gidx[-1]
        for st_ in prog.sites:        # the driver references every site function
            if drv_g >= 0 and tu_group[st_["tu"]] == (sorted(groups)[0] if nest and drv_g == sorted(groups)[1] else drv_g):
                intra += 1
            else:
                cross += 1
        classes = [f"mode:{mode}", f"ngroups:{len(groups)}", "nest" if nest else "flat"] + ["ropt:" + o for o in ropt]
        classes += ["site:" + c for c in prog.classes()]
        key = hashlib.sha1(json.dumps([prog.classes(), gidx, nest, mode], sort_keys=True).encode()).hexdigest()[:16]
        return {"nontrivial": intra >= 1 and cross >= 1 and len(prog.sites) >= 5, "key": key,
                "classes": sorted(set(classes)), "counters": {"intra_refs": intra, "cross_refs": cross, "sites": len(prog.sites)}}


def _first_bad_site(prog, out):
    exp = prog.expected().split("\n")
    got = out.split("\n")
    for i, s in enumerate(prog.sites):
        if i >= len(got) or got[i] != exp[i]:
            t = prog.defs[s["tgt"]]
            return f"{s['ref']}/{t['kind']}:{t['bind']}"
    return "exit-status"


def _errline(err):
    for line in err.split("\n"):
        if "error" in line or "undefined" in line or "relocation" in line:
            line = re.sub(r"/\S*/", "", line)
            line = re.sub(r"0x[0-9a-f]+|\d+", "N", line)
            return line[-70:]
    return err.strip().split("\n")[-1][-70:]


def _first_diff(a, b):
    la, lb = a.split("\n"), b.split("\n")
    for i, (x, y) in enumerate(zip(la, lb)):
        if x != y:
            return f"line {i}: got {x!r} expected {y!r}"
    return f"{len(la)} vs {len(lb)} lines"


CHECK = C27()
