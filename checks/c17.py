"""C17 — The exit status reflects whether the output was written.

Domain (fault enumeration): generated small programs × {fork, --no-fork} × threads {1, 8} ×
the complete matrix of named link points × fault kinds {error, panic, abort, segv, kill} (hook
`WILD_VERIF_CRASH`), per-input `opened=<file>` points (panics on rayon workers), external signals
sent to the forked worker while it is paused at a point (`WILD_VERIF_PAUSE`), and natural
failures (undefined symbol, unwritable output directory, output path is a directory).
Oracle (from the statement): after wild and all its descendants have exited, status 0 implies
the output file exists, is byte-identical to the fault-free reference link of the same command
and is executable; a fault injected before the worker reported completion must give a non-zero
status.
"""
import os
import signal
import stat
import time

from hypothesis import strategies as st

from vlib import core, faults, miniprog, tools
from vlib.core import Check, Discard, Inconclusive, Violation

KINDS = ["error", "panic", "abort", "segv", "kill"]
NOERR_POINTS = ("before-verify-inputs", "after-verify-inputs", "after-inform-parent")
# Only signals whose default action the Rust runtime does not intercept (it installs SIGSEGV/SIGBUS
# handlers that swallow one asynchronous delivery).
EXT_SIGNALS = {"SIGKILL": signal.SIGKILL, "SIGTERM": signal.SIGTERM, "SIGINT": signal.SIGINT,
               "SIGHUP": signal.SIGHUP}


class C17(Check):
    prop = "C17"
    level = "fault_enumeration"
    technique = "fault-injection PBT: full (point x kind x fork-mode) matrix per generated program, status-0-implies-complete-output oracle against a fault-free reference link"
    rule = ("a case is a generated program (1-5 objects, static/PIE/shared, optional archive) plus thread count; for it the "
            "whole matrix (named points x {error,panic,abort,segv,kill} x {fork,no-fork}) + per-input open points + external "
            "signals at a sampled pause point + natural failures is executed; every (program, cell) execution is one evaluation; "
            "non-trivial = fault lands after the output file was created, or is a signal in fork mode; distinct by "
            "(program hash, mode, point, kind)")
    assumptions = ["fault points are the hook points of libwild/src/verif.rs (cfg wild_verif); faults inside phases are reached "
                   "only through the per-input open points and external signals",
                   "byte-equality with the fault-free link relies on deterministic output (C06)"]
    quick_cases = 16
    thorough_cases = 400
    max_workers = 8

    def strategy(self, tier):
        return st.fixed_dictionaries({
            "prog": miniprog.spec_strategy(max_objs=4),
            "threads": st.sampled_from([1, 8]),
            "ext_point": st.sampled_from(faults.POINTS_BEFORE_DONE + ["before-inform-parent", "after-inform-parent"]),
            "ext_signal": st.sampled_from(sorted(EXT_SIGNALS)),
            # Inherited signal disposition: a launcher that ignores SIGCHLD makes the kernel auto-reap
            # the forked worker, so the parent's waitpid fails with ECHILD.
            "sigchld_ignored": st.booleans(),
        })

    def setup(self, tier):
        self.known = core.load_known(self.prop)

    def _tolerated(self, ctx, sig, counters):
        if ctx.strict:
            return False
        for e in self.known:
            if e.get("status") == "known" and core.sig_matches(e["signature"], sig):
                counters["excluded_known"] = counters.get("excluded_known", 0) + 1
                return True
        return False

    def run_case(self, case, ctx):
        d = ctx.dir
        inputs, args = miniprog.build(case["prog"], d)
        base = [tools.linker_path("wild"), *args, f"--threads={case['threads']}"]
        pre = (lambda: signal.signal(signal.SIGCHLD, signal.SIG_IGN)) if case.get("sigchld_ignored") else None
        _rr = faults.run_and_reap

        def run_and_reap(*a, **kw):
            kw.setdefault("preexec_fn", pre)
            return _rr(*a, **kw)
        ref = run_and_reap(base + ["-o", "ref.out"], d)
        if ref.rc != 0 or not os.path.exists(f"{d}/ref.out"):
            raise Inconclusive(f"fault-free reference link failed: {ref}")
        refbytes = open(f"{d}/ref.out", "rb").read()
        counters = {}
        keys = []
        classes = []
        n_exec = 0

        def judge(run, label, fork, before_done, out="out"):
            """Applies the oracle to one faulted run."""
            nonlocal n_exec
            n_exec += 1
            path = f"{d}/{out}"
            if run.timed_out or not run.descendants_gone:
                raise Inconclusive(f"{label}: wild or a descendant did not exit: {run}")
            if run.rc == 0:
                complete = os.path.isfile(path) and open(path, "rb").read() == refbytes
                executable = os.path.isfile(path) and bool(os.stat(path).st_mode & stat.S_IXUSR)
                if before_done:
                    sig = f"status0-after-fault:{'fork' if fork else 'nofork'}:{label.split('@')[0]}"
                    if not self._tolerated(ctx, sig, counters):
                        raise Violation(sig, f"{label}: fault injected before the link was reported done, yet exit status 0 "
                                        f"(output complete={complete})", {"stderr": run.err[-400:]})
                elif not (complete and executable):
                    sig = f"status0-incomplete-output:{'fork' if fork else 'nofork'}:{label.split('@')[0]}"
                    if not self._tolerated(ctx, sig, counters):
                        raise Violation(sig, f"{label}: exit status 0 but output complete={complete} executable={executable}",
                                        {"stderr": run.err[-400:]})
            if os.path.lexists(path):
                try:
                    os.unlink(path)
                except OSError:
                    pass

        progkey = core.case_hash(case["prog"])
        for fork in (True, False):
            mode = [] if fork else ["--no-fork"]
            pts = faults.points_for(fork) + [f"opened={i}" for i in inputs]
            for point in pts:
                for kind in KINDS:
                    if kind == "error" and point in NOERR_POINTS:
                        continue  # these call sites cannot propagate an injected error
                    run = run_and_reap(base + mode + ["-o", "out"], d,
                                              env={"WILD_VERIF_CRASH": f"{point}:{kind}"})
                    judge(run, f"{kind}@{point}", fork, before_done=True)
                    nontrivial = faults.output_created_at(point) or (fork and kind in ("abort", "segv", "kill"))
                    if nontrivial:
                        keys.append(f"{progkey}/{fork}/{point}/{kind}")
                    classes.append(f"{'fork' if fork else 'nofork'}/{kind}/{'post-create' if faults.output_created_at(point) else 'pre-create'}")
            # A fault after the parent was informed may legitimately give 0 — then the output must be complete.
            if fork:
                for kind in KINDS:
                    if kind == "error":
                        continue
                    run = run_and_reap(base + ["-o", "out"], d, env={"WILD_VERIF_CRASH": f"after-inform-parent:{kind}"})
                    judge(run, f"{kind}@after-inform-parent", fork, before_done=False)
                    keys.append(f"{progkey}/fork/after-inform/{kind}")
                    classes.append("fork/after-inform")

        # External signal delivered to the forked worker while it is paused at a point.
        point, signame = case["ext_point"], case["ext_signal"]
        pz = faults.Pause(d, point)
        try:
            state = {}

            def on_started(p):
                alive = lambda: p.poll() is None
                if not pz.wait_paused(timeout=30, alive=alive):
                    state["reached"] = False
                    return
                state["reached"] = True
                kids = faults.children_of(p.pid)
                state["kids"] = kids
                for k in kids:
                    try:
                        os.kill(k, EXT_SIGNALS[signame])
                    except ProcessLookupError:
                        pass
                if not kids:
                    pz.release()

            run = run_and_reap(base + ["-o", "out"], d, env=pz.env(), on_started=on_started, timeout=60)
        finally:
            pz.close()
        if state.get("reached") and state.get("kids"):
            before_done = point != "after-inform-parent"
            judge(run, f"ext-{signame}@{point}", True, before_done=before_done)
            keys.append(f"{progkey}/ext/{point}/{signame}")
            classes.append(f"fork/ext-signal/{'post-create' if faults.output_created_at(point) else 'pre-create'}")
        else:
            counters["ext_point_not_reached"] = 1

        # Natural failures.
        for fork in (True, False):
            mode = [] if fork else ["--no-fork"]
            run = run_and_reap(base + mode + ["--undefined=verif_missing_sym", "--no-gc-sections", "--require-defined=verif_missing_sym", "-o", "out"], d)
            if run.rc == 0:
                # wild accepted (option semantics may differ): then the output must be complete w.r.t. itself; skip.
                n_exec += 1
                if os.path.exists(f"{d}/out"):
                    os.unlink(f"{d}/out")
            else:
                judge(run, "natural-undefined@link", fork, before_done=True)
            # Output path is a directory: wild may fail, or (shared objects: rename-and-replace mode) move the
            # directory aside and write the file; either way status 0 requires a complete output file.
            import shutil
            for p_ in (f"{d}/isdir", f"{d}/isdir.delete"):
                if os.path.isdir(p_) and not os.path.islink(p_):
                    shutil.rmtree(p_, ignore_errors=True)
                elif os.path.lexists(p_):
                    os.unlink(p_)
            os.makedirs(f"{d}/isdir")
            run = run_and_reap(base + mode + ["-o", "isdir"], d)
            if os.path.isdir(f"{d}/isdir"):
                n_exec += 1
                if run.rc == 0:
                    sig = f"status0-output-is-directory:{'fork' if fork else 'nofork'}"
                    if not self._tolerated(ctx, sig, counters):
                        raise Violation(sig, "output path is still a directory (nothing written), yet exit status 0",
                                        {"stderr": run.err[-300:]})
            else:
                judge(run, "natural-output-was-directory@link", fork, before_done=False, out="isdir")
            os.makedirs(f"{d}/ro", exist_ok=True)
            os.chmod(f"{d}/ro", 0o555)
            if os.geteuid() != 0:
                run = run_and_reap(base + mode + ["-o", "ro/out"], d)
                n_exec += 1
                if run.rc == 0 and not os.path.exists(f"{d}/ro/out"):
                    raise Violation("status0-unwritable-dir", "unwritable output directory, yet exit status 0")
            os.chmod(f"{d}/ro", 0o755)
            classes.append(f"{'fork' if fork else 'nofork'}/natural")
        classes.append("sigchld-ignored" if case.get("sigchld_ignored") else "sigchld-default")

        counters["executions"] = n_exec
        counters["matrix_cells"] = len(keys)
        return {"nontrivial": False, "keys": keys, "evaluations": n_exec, "classes": classes, "counters": counters,
                "cells": len(keys)}


CHECK = C17()
