"""C36 — Stack and GNU property notes are merged as in GNU ld.

Domain: 1-5 relocatable inputs (objects; archive members, referenced or not) each with
.note.GNU-stack in {absent, non-exec, "x"} and .note.gnu.property in {absent, one or two notes
holding x86 properties: FEATURE_1_AND (AND class), ISA_1_NEEDED / FEATURE_2_NEEDED (OR class),
ISA_1_USED / FEATURE_2_USED (OR-AND class), unknown types in each x86 class range}; a shared
library on the link line (must not contribute); -z execstack / -z noexecstack / -z x86-64-vN;
output kinds executable / PIE / shared.
Oracle: GNU ld 2.40 on the same inputs AND a model of the statement (stack executable iff
-z execstack, or no -z noexecstack and some loaded input asks for it or lacks the note; AND of
AND-class bits over all loaded inputs with a missing property counting as 0, OR of OR-class bits,
OR-AND = OR if present in all inputs else dropped).  VIOLATION iff wild differs from GNU ld and
GNU ld equals the model; model != GNU ld is an oracle split; links wild refuses with its
"requires executable stack" diagnostic are discarded (counted).
"""
import struct

from hypothesis import strategies as st

from vlib import patient, tools
from vlib import elf as E
from vlib.core import Check, Discard, Inconclusive, OracleSplit, Violation
from vlib.elf import Elf

F1_AND, ISA_NEEDED, F2_NEEDED, ISA_USED, F2_USED = 0xc0000002, 0xc0008002, 0xc0008001, 0xc0010002, 0xc0010001
UNK_AND, UNK_OR, UNK_ORAND = 0xc0000005, 0xc0008005, 0xc0010005
TYPES = {"f1and": F1_AND, "isa_needed": ISA_NEEDED, "f2_needed": F2_NEEDED, "isa_used": ISA_USED, "f2_used": F2_USED,
         "unk_and": UNK_AND, "unk_or": UNK_OR, "unk_orand": UNK_ORAND}
KNOWN_STACK = "stack-missing-note-ignored"
ISA_BITS = {"x86-64-baseline": 1, "x86-64-v2": 2, "x86-64-v3": 4, "x86-64-v4": 8}


def prop_class(t):
    if 0xc0000002 <= t <= 0xc0007fff:
        return "and"
    if 0xc0008000 <= t <= 0xc000ffff:
        return "or"
    if 0xc0010000 <= t <= 0xc0017fff:
        return "orand"
    return None


def props_strategy():
    val = {"f1and": st.sampled_from([0, 1, 2, 3, 3, 3, 7, 0x13]), "isa_needed": st.sampled_from([0, 1, 1, 3, 4, 8, 0xf]),
           "f2_needed": st.sampled_from([0, 1, 2, 0x21]), "isa_used": st.sampled_from([0, 1, 3, 7, 0xf]),
           "f2_used": st.sampled_from([0, 1, 3, 0x7f]), "unk_and": st.sampled_from([0, 1, 6]),
           "unk_or": st.sampled_from([0, 1, 6]), "unk_orand": st.sampled_from([0, 1, 6])}
    keys = ["f1and"] * 5 + ["isa_needed"] * 3 + ["isa_used"] * 3 + ["f2_used", "f2_needed", "unk_and", "unk_or", "unk_orand"]
    one = st.sampled_from(keys).flatmap(lambda k: st.tuples(st.just(k), val[k]).map(list))
    return st.lists(one, min_size=0, max_size=4)


def obj_strategy():
    return st.fixed_dictionaries({
        "stack": st.sampled_from(["n", "n", "n", "n", "x", "-"]),
        "where": st.sampled_from(["obj", "obj", "ar"]),
        "ref": st.sampled_from([True, True, False]),
        "props": props_strategy(),
        # "dup": the same properties are carried by two notes of the object (e.g. a compiler-emitted note plus a
        # hand-written one): repeated entries of one type must count once per input.
        "note": st.sampled_from(["one", "one", "one", "two", "dup", "none"]),
    })


def case_strategy():
    return st.fixed_dictionaries({
        "out": st.sampled_from(["exe", "pie", "shared"]),
        "objs": st.lists(obj_strategy(), min_size=1, max_size=5),
        "z": st.sampled_from([None, None, None, "execstack", "noexecstack"]),
        "zfix": st.sampled_from(["execstack"] * 7 + [None]),
        # (-z x86-64-baseline makes GNU ld 2.40 abort in _bfd_x86_elf_merge_gnu_properties with >= 2 inputs: rare)
        "isa": st.sampled_from([None] * 8 + ["x86-64-v2"] * 3 + ["x86-64-v3"] * 3 + ["x86-64-v4"] * 3 + ["x86-64-baseline"]),
        "dep": st.booleans(),
        # False (usual): every input gets a .note.GNU-stack (outside the known finding's domain)
        "raw": st.sampled_from([False] * 9 + [True]),
    })


def normalise(case):
    """Loaded inputs with their (deduplicated) properties, and the effective -z stack option."""
    objs = []
    for i, o in enumerate(case["objs"]):
        where = "obj" if i == 0 else o["where"]
        props = {}
        for k, v in o["props"]:
            props.setdefault(TYPES[k], v)
        if o["note"] == "none":
            props = {}
        stack = o["stack"]
        if stack == "-" and not case["raw"]:
            stack = "n"
        objs.append({"i": i, "where": where, "loaded": where == "obj" or o["ref"], "ref": o["ref"], "stack": stack,
                     "props": props, "two": o["note"] == "two", "dup": o["note"] == "dup",
                     "has_note": o["note"] != "none" and bool(props)})
    z = case["z"]
    if z != "execstack" and any(o["stack"] == "x" and o["loaded"] for o in objs) and case["zfix"]:
        # wild refuses an exec-stack request without -z execstack (discarded): mostly avoided
        z = case["zfix"]
    return objs, z


def in_stack_domain(case):
    """Known finding's exact domain: no -z execstack/noexecstack and a loaded input without
    .note.GNU-stack (GNU ld: executable stack, or no PT_GNU_STACK at all when no input has the note;
    wild: always a non-executable PT_GNU_STACK)."""
    objs, z = normalise(case)
    return z is None and any(o["loaded"] and o["stack"] == "-" for o in objs)


def note_bytes(props):
    desc = b"".join(struct.pack("<IIII", t, 4, v, 0) for t, v in props)
    return struct.pack("<III", 4, len(desc), 5) + b"GNU\0" + desc


def asm_of(o, nobjs, refs):
    out = [".text", f".globl f{o['i']}", f".type f{o['i']},@function", f"f{o['i']}:"]
    if o["i"] == 0:
        out += [".globl _start", "_start:"]
        out += [f"  call f{j}@PLT" for j in refs]
    out.append("  ret")
    if o["stack"] == "n":
        out.append(".section .note.GNU-stack,\"\",@progbits")
    elif o["stack"] == "x":
        out.append(".section .note.GNU-stack,\"x\",@progbits")
    if o["has_note"]:
        items = sorted(o["props"].items())
        groups = [items]
        if o["two"] and len(items) >= 2:
            groups = [items[:1], items[1:]]
        elif o.get("dup"):
            groups = [items, items]
        out += [".section .note.gnu.property,\"a\",@note", ".p2align 3"]
        for g in groups:
            out.append("  .byte " + ",".join(str(b) for b in note_bytes(g)))
            out.append("  .p2align 3")
    return "\n".join(out) + "\n"


def model(objs, z, isa):
    loaded = [o for o in objs if o["loaded"]]
    if z == "execstack":
        stack = "RWE"
    elif z == "noexecstack":
        stack = "RW"
    elif not any(o["stack"] != "-" for o in loaded):
        stack = None                     # GNU ld emits no PT_GNU_STACK when no input carries the note
    elif any(o["stack"] in ("x", "-") for o in loaded):
        stack = "RWE"
    else:
        stack = "RW"
    types = sorted({t for o in loaded for t in o["props"]})
    out = {}
    for t in types:
        c = prop_class(t)
        vals = [o["props"].get(t) for o in loaded]
        if c == "and":
            v = 0xffffffff
            for x in vals:
                v &= (x or 0)
            if v:
                out[t] = v
        elif c == "or":
            v = 0
            for x in vals:
                v |= (x or 0)
            if v:
                out[t] = v
        else:
            if all(x is not None for x in vals):
                v = 0
                for x in vals:
                    v |= x
                out[t] = v
    if isa:
        out[ISA_NEEDED] = out.get(ISA_NEEDED, 0) | ISA_BITS[isa]
    return stack, out


def observe(path):
    """(stack flags string or None, {type: value}, problems) of a linked output."""
    elf = Elf(path)
    problems = []
    st_seg = [p for p in elf.segments if p.type == E.PT_GNU_STACK]
    if len(st_seg) > 1:
        problems.append("two PT_GNU_STACK")
    stack = None
    if st_seg:
        f = st_seg[0].flags
        stack = ("R" if f & E.PF_R else "") + ("W" if f & E.PF_W else "") + ("E" if f & E.PF_X else "")
    props = {}
    secs = [s for s in elf.sections if s.name == ".note.gnu.property"]
    segs = [p for p in elf.segments if p.type == E.PT_GNU_PROPERTY]
    if len(secs) > 1:
        problems.append("two .note.gnu.property sections")
    if secs:
        sec = secs[0]
        if sec.addralign != 8:
            problems.append(f".note.gnu.property sh_addralign={sec.addralign}")
        if not segs:
            problems.append("no PT_GNU_PROPERTY although .note.gnu.property exists")
        elif (segs[0].offset, segs[0].filesz, segs[0].vaddr) != (sec.offset, sec.size, sec.addr):
            problems.append("PT_GNU_PROPERTY does not cover .note.gnu.property")
        if not any(p.type == E.PT_NOTE and p.offset <= sec.offset and sec.offset + sec.size <= p.offset + p.filesz
                   for p in elf.segments):
            problems.append("no PT_NOTE covers .note.gnu.property")
        for name, ntype, desc in elf.notes(sec):
            if name != "GNU" or ntype != 5:
                problems.append(f"foreign note {name}/{ntype} in .note.gnu.property")
                continue
            off = 0
            while off + 8 <= len(desc):
                t, sz = struct.unpack_from("<II", desc, off)
                off += 8
                data = desc[off:off + sz]
                off += (sz + 7) & ~7
                if sz != 4:
                    problems.append(f"property {t:#x} with pr_datasz={sz}")
                    continue
                if t in props:
                    problems.append(f"property {t:#x} twice")
                props[t] = struct.unpack("<I", data)[0]
    elif segs:
        problems.append("PT_GNU_PROPERTY without .note.gnu.property")
    return stack, props, problems


def fmt(props):
    return {f"{t:#x}": f"{v:#x}" for t, v in sorted(props.items())}


class C36(Check):
    prop = "C36"
    level = "exploration"
    technique = ("differential PBT vs GNU ld 2.40 plus an AND/OR/OR-AND model of the statement on generated .note.GNU-stack / "
                 ".note.gnu.property input combinations; output notes decoded by an independent reader")
    rule = ("Hypothesis-generated sets of 1-5 inputs (objects, referenced/unreferenced archive members) with stack notes in "
            "{absent, non-exec, exec} and 0-4 x86 properties each, x -z execstack/noexecstack/x86-64-vN x output kind; "
            "non-trivial = >=2 loaded inputs that disagree on the stack note or on >=1 property bit, or a loaded input without "
            "the property note; distinct by the multiset of per-input (stack, properties) plus options")
    assumptions = ["GNU ld 2.40 (Debian, default-execstack) is the reference", "x86-64 property class ranges per the x86-64 psABI"]
    quick_cases = 480
    thorough_cases = 10000

    def strategy(self, tier):
        return case_strategy()

    def excluded_by_construction(self, case):
        return KNOWN_STACK if in_stack_domain(case) else None

    def run_case(self, case, ctx):
        d = ctx.dir
        objs, z = normalise(case)
        refs = [o["i"] for o in objs if o["i"] != 0 and (o["where"] == "obj" or o["ref"])]
        members = []
        inputs = []
        for o in objs:
            patient.asm(asm_of(o, len(objs), refs), f"o{o['i']}.o", cwd=d)
            if o["where"] == "ar":
                members.append(f"o{o['i']}.o")
            else:
                inputs.append(f"o{o['i']}.o")
        if members:
            patient.ar("libm.a", members, cwd=d)
            inputs.append("libm.a")
        if case["dep"]:
            dep = {"i": 99, "stack": "x", "props": {F1_AND: 0, ISA_NEEDED: 8, ISA_USED: 8}, "two": False, "has_note": True}
            patient.asm(asm_of(dep, 0, []), "dep.o", cwd=d)
            tools.must(patient.link("ld", ["-shared", "-o", "libdep.so", "dep.o", "-z", "noexecstack"], cwd=d), "building libdep.so")
            inputs.append("libdep.so")
        args = {"exe": [], "pie": ["-pie"], "shared": ["-shared"]}[case["out"]] + ["--no-gc-sections", "-e", "_start"]
        if z:
            args += ["-z", z]
        if case["isa"]:
            args += ["-z", case["isa"]]
        rl = patient.link("ld", [*args, *inputs, "-o", "ld.out"], cwd=d)
        if rl.rc != 0:
            raise Discard("GNU ld rejects: " + rl.err.strip().split("\n")[-1].split(": ", 1)[-1][:40])
        rw = patient.link("wild", [*args, *inputs, "-o", "wild.out"], cwd=d)
        if rw.timed_out:
            raise Inconclusive("wild timed out")
        if rw.rc != 0:
            if "panicked at" in rw.err or rw.rc < 0:
                raise Violation("crash", f"wild crashed: {rw.err[-300:]}")
            if "requires executable stack" in rw.err:
                raise Discard("wild: requires executable stack")
            raise Discard("wild rejects: " + rw.err.strip().split("\n")[-1][:50])
        sl, pl, problems_l = observe(f"{d}/ld.out")
        sw, pw, problems_w = observe(f"{d}/wild.out")
        ms, mp = model(objs, z, case["isa"])
        desc = [(o["stack"], fmt(o["props"]) if o["has_note"] else None, "loaded" if o["loaded"] else "unloaded") for o in objs]
        if sl != ms:
            raise OracleSplit(f"stack: model {ms}, GNU ld {sl}; inputs {desc} z={z}")
        if pl != mp:
            raise OracleSplit(f"properties: model {fmt(mp)}, GNU ld {fmt(pl)}; inputs {desc} isa={case['isa']}")
        if sw != sl:
            sig = KNOWN_STACK if in_stack_domain(case) else "stack-flags"
            raise Violation(sig, f"PT_GNU_STACK: GNU ld and the model give {sl}, wild {sw}; inputs {desc} z={z}")
        if pw != pl:
            diff = sorted(set(pw.items()) ^ set(pl.items()))
            cls = prop_class(diff[0][0]) or "other"
            raise Violation(f"property-merge:{cls}", f".note.gnu.property: GNU ld and the model give {fmt(pl)}, wild {fmt(pw)}; "
                            f"inputs {desc} isa={case['isa']}")
        for p in problems_w:
            if p not in problems_l:
                raise Violation("note-structure:" + p.split(" ")[0][:20], f"wild's output: {p} (GNU ld's output passes this rule)")
        loaded = [o for o in objs if o["loaded"]]
        classes = [f"out:{case['out']}", f"z:{z}", f"stack:{ms}"]
        nontrivial = False
        if len({o["stack"] for o in loaded}) > 1:
            nontrivial = True
            classes.append("stack-disagree")
        types = {t for o in loaded for t in o["props"]}
        for t in sorted(types):
            vals = {o["props"].get(t) for o in loaded}
            if len(vals) > 1:
                nontrivial = True
                classes.append("disagree:" + prop_class(t))
                if None in vals:
                    classes.append("missing-in-some:" + prop_class(t))
        if any(not o["has_note"] or not o["props"] for o in loaded) and types:
            nontrivial = True
            classes.append("input-without-properties")
        if any(not o["loaded"] for o in objs):
            classes.append("unloaded-member")
        if case["isa"]:
            classes.append("isa-flag")
        if any(o.get("dup") for o in loaded):
            classes.append("dup-notes")
        if any(o["two"] and len(o["props"]) >= 2 for o in loaded):
            classes.append("two-notes")
        if not mp:
            classes.append("no-output-note")
        key = repr(sorted((o["stack"], tuple(sorted(o["props"].items())), o["loaded"]) for o in objs)) + f"{z}{case['isa']}{case['out']}"
        return {"nontrivial": nontrivial, "key": key, "classes": classes, "counters": {"inputs": len(loaded)}}


CHECK = C36()
