#!/bin/bash
# Rebuilds the two toolchain files that were destroyed on the build machine on 2026-09-22 (see DESIGN.md 8.9).
# Not run by any check; kept so that the state of /usr/lib on this machine is reproducible.
#   crt1.o       = ld -r Scrt1.o static-reloc.o   (this glibc is built default-PIE: crt1.o's _start is the PIC one;
#                  gcrt1.o = crt1.o + gmon-start.o confirms the layout)
#   libgcc_eh.a  = LLVM libunwind (from the rust-src component) + __gcc_personality_v0 + __register_frame_info & co.
set -eu
HERE=$(cd "$(dirname "$0")" && pwd)
L=/root/.rustup/toolchains/nightly-x86_64-unknown-linux-gnu/lib/rustlib/src/rust/src/llvm-project/libunwind
W=$(mktemp -d)
cd "$W"
as --64 "$HERE/static-reloc.s" -o static-reloc.o
ld.bfd -r -o crt1.o /usr/lib/x86_64-linux-gnu/Scrt1.o static-reloc.o
CF="-O2 -fPIC -funwind-tables -fno-exceptions -fvisibility=hidden -D_LIBUNWIND_IS_NATIVE_ONLY -D_LIBUNWIND_USE_DLADDR=0 -DNDEBUG -I$L/include -I$L/src"
for f in UnwindLevel1.c UnwindLevel1-gcc-ext.c; do gcc $CF -std=c11 -c $L/src/$f -o ${f%.c}.o; done
g++ $CF -std=c++17 -fno-rtti -nostdinc++ -include "$HERE/fix.h" -c $L/src/libunwind.cpp -o libunwind.o
for f in UnwindRegistersRestore.S UnwindRegistersSave.S; do gcc $CF -c $L/src/$f -o ${f%.S}.o; done
gcc -O2 -fPIC -funwind-tables -c "$HERE/frame-info.c" -o unwind-dw2-fde.o
gcc -O2 -fPIC -funwind-tables -c "$HERE/gcc_personality_v0.c" -o unwind-c.o
ld.bfd -r -o unwind-dw2-all.o UnwindLevel1.o UnwindLevel1-gcc-ext.o libunwind.o UnwindRegistersRestore.o UnwindRegistersSave.o unwind-dw2-fde.o
ar rcs libgcc_eh.a unwind-dw2-all.o unwind-c.o
echo "built: $W/crt1.o $W/libgcc_eh.a (install by hand: install -m644 <file> <dest>)"
