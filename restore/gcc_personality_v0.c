/* Minimal C personality routine (cleanups only), after compiler-rt's gcc_personality_v0.c.
   Replacement for the copy in libgcc_eh.a that was destroyed on this machine. */
#include <stdint.h>
#include <unwind.h>

#define DW_EH_PE_omit 0xff
#define DW_EH_PE_absptr 0x00
#define DW_EH_PE_uleb128 0x01
#define DW_EH_PE_udata2 0x02
#define DW_EH_PE_udata4 0x03
#define DW_EH_PE_udata8 0x04
#define DW_EH_PE_sleb128 0x09
#define DW_EH_PE_sdata2 0x0A
#define DW_EH_PE_sdata4 0x0B
#define DW_EH_PE_sdata8 0x0C
#define DW_EH_PE_pcrel 0x10
#define DW_EH_PE_indirect 0x80

static uintptr_t read_uleb128(const uint8_t **data) {
  uintptr_t result = 0, shift = 0;
  unsigned char byte;
  const uint8_t *p = *data;
  do {
    byte = *p++;
    result |= (uintptr_t)(byte & 0x7f) << shift;
    shift += 7;
  } while (byte & 0x80);
  *data = p;
  return result;
}

static uintptr_t read_encoded(const uint8_t **data, uint8_t encoding) {
  const uint8_t *p = *data;
  uintptr_t result = 0;
  if (encoding == DW_EH_PE_omit)
    return 0;
  switch (encoding & 0x0f) {
  case DW_EH_PE_absptr: result = *(const uintptr_t *)p; p += sizeof(uintptr_t); break;
  case DW_EH_PE_uleb128: result = read_uleb128(&p); break;
  case DW_EH_PE_udata2: result = *(const uint16_t *)p; p += 2; break;
  case DW_EH_PE_udata4: result = *(const uint32_t *)p; p += 4; break;
  case DW_EH_PE_udata8: result = *(const uint64_t *)p; p += 8; break;
  case DW_EH_PE_sdata2: result = (uintptr_t)(intptr_t)*(const int16_t *)p; p += 2; break;
  case DW_EH_PE_sdata4: result = (uintptr_t)(intptr_t)*(const int32_t *)p; p += 4; break;
  case DW_EH_PE_sdata8: result = (uintptr_t)*(const int64_t *)p; p += 8; break;
  case DW_EH_PE_sleb128:
  default: __builtin_abort();
  }
  if ((encoding & 0x70) == DW_EH_PE_pcrel)
    result += (uintptr_t)(*data);
  else if (encoding & 0x70)
    __builtin_abort();
  if (encoding & DW_EH_PE_indirect)
    result = *(const uintptr_t *)result;
  *data = p;
  return result;
}

_Unwind_Reason_Code __gcc_personality_v0(int version, _Unwind_Action actions, _Unwind_Exception_Class exception_class,
                                         struct _Unwind_Exception *exception_object, struct _Unwind_Context *context) {
  (void)version; (void)exception_class;
  if (actions & _UA_SEARCH_PHASE)
    return _URC_CONTINUE_UNWIND;
  const uint8_t *lsda = (const uint8_t *)_Unwind_GetLanguageSpecificData(context);
  if (!lsda)
    return _URC_CONTINUE_UNWIND;
  uintptr_t pc = (uintptr_t)_Unwind_GetIP(context) - 1;
  uintptr_t func_start = (uintptr_t)_Unwind_GetRegionStart(context);
  uintptr_t pc_offset = pc - func_start;
  uint8_t lp_start_encoding = *lsda++;
  if (lp_start_encoding != DW_EH_PE_omit)
    read_encoded(&lsda, lp_start_encoding);
  uint8_t ttype_encoding = *lsda++;
  if (ttype_encoding != DW_EH_PE_omit)
    read_uleb128(&lsda);
  uint8_t call_site_encoding = *lsda++;
  uintptr_t call_site_table_length = read_uleb128(&lsda);
  const uint8_t *p = lsda, *end = lsda + call_site_table_length;
  while (p < end) {
    uintptr_t start = read_encoded(&p, call_site_encoding);
    uintptr_t length = read_encoded(&p, call_site_encoding);
    uintptr_t landing_pad = read_encoded(&p, call_site_encoding);
    read_uleb128(&p); /* action: ignored, C has only cleanups */
    if (landing_pad == 0)
      continue;
    if (start <= pc_offset && pc_offset < start + length) {
      _Unwind_SetGR(context, __builtin_eh_return_data_regno(0), (uintptr_t)exception_object);
      _Unwind_SetGR(context, __builtin_eh_return_data_regno(1), 0);
      _Unwind_SetIP(context, func_start + landing_pad);
      return _URC_INSTALL_CONTEXT;
    }
  }
  return _URC_CONTINUE_UNWIND;
}
