	.text
	.p2align 4
	.globl	_dl_relocate_static_pie
	.type	_dl_relocate_static_pie, @function
_dl_relocate_static_pie:
	.cfi_startproc
	ret
	.cfi_endproc
	.size	_dl_relocate_static_pie, .-_dl_relocate_static_pie
	.section	.note.GNU-stack,"",@progbits
	.section	.note.gnu.property,"a"
	.align 8
	.long 4
	.long 16
	.long 5
	.asciz "GNU"
	.long 0xc0008002
	.long 4
	.long 1
	.long 0
