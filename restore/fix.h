#include <link.h>
#include <dlfcn.h>
#undef DLFO_STRUCT_HAS_EH_DBASE
