/* __register_frame_info & co. on top of LLVM libunwind's dynamic eh_frame registration.
   crtbeginT.o (static, non-PIE links: gcc does not pass --eh-frame-hdr there) registers the
   program's .eh_frame through these entry points. */
#include <stdint.h>
#include <stddef.h>
extern void __unw_add_dynamic_fde(uintptr_t fde);
extern void __unw_remove_dynamic_fde(uintptr_t fde);

/* Calls fn for every FDE of the .eh_frame data starting at begin (up to the zero terminator).
   GNU ld merges CIEs across input files, so an FDE's CIE may lie before `begin`; each FDE is
   therefore handed over individually (libunwind then locates the CIE through the FDE). */
static void for_each_fde(const void *begin, void (*fn)(uintptr_t)) {
  const uint8_t *p = (const uint8_t *)begin;
  for (;;) {
    uint64_t len = *(const uint32_t *)p;
    const uint8_t *body = p + 4;
    if (len == 0)
      return;
    if (len == 0xffffffffu) {
      len = *(const uint64_t *)body;
      body += 8;
    }
    if (*(const uint32_t *)body != 0)
      fn((uintptr_t)p);
    p = body + len;
  }
}

#define MAX_OBJECTS 64
static struct { const void *begin; void *ob; } objects[MAX_OBJECTS];

static void remember(const void *begin, void *ob) {
  for (int i = 0; i < MAX_OBJECTS; i++)
    if (!objects[i].begin) { objects[i].begin = begin; objects[i].ob = ob; return; }
}

void __register_frame_info_bases(const void *begin, void *ob, void *tbase, void *dbase) {
  (void)tbase; (void)dbase;
  if (begin == NULL || *(const uint32_t *)begin == 0)
    return;
  remember(begin, ob);
  for_each_fde(begin, __unw_add_dynamic_fde);
}

void __register_frame_info(const void *begin, void *ob) { __register_frame_info_bases(begin, ob, 0, 0); }

void __register_frame_info_table_bases(void *begin, void *ob, void *tbase, void *dbase) {
  (void)tbase; (void)dbase; (void)ob;
  for (void **p = (void **)begin; p && *p; p++)
    __unw_add_dynamic_fde((uintptr_t)*p);
}

void __register_frame_info_table(void *begin, void *ob) { __register_frame_info_table_bases(begin, ob, 0, 0); }
void __register_frame_table(void *begin) { __register_frame_info_table_bases(begin, 0, 0, 0); }

void *__deregister_frame_info_bases(const void *begin) {
  if (begin == NULL || *(const uint32_t *)begin == 0)
    return NULL;
  for (int i = 0; i < MAX_OBJECTS; i++)
    if (objects[i].begin == begin) {
      void *ob = objects[i].ob;
      objects[i].begin = NULL;
      for_each_fde(begin, __unw_remove_dynamic_fde);
      return ob;
    }
  return NULL;
}

void *__deregister_frame_info(const void *begin) { return __deregister_frame_info_bases(begin); }
