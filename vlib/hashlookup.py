"""Dynamic-symbol lookups the way glibc's loader performs them (elf/dl-lookup.c: do_lookup_x,
dl_new_hash, _dl_elf_hash; elf/dl-setup_hash.c), driven from the dynamic section of an image.

The tables are located exactly like the loader does: DT_GNU_HASH / DT_HASH / DT_SYMTAB / DT_STRTAB
are virtual addresses resolved through PT_LOAD.  The walks are bounded by the *file image* so that
a chain that does not terminate is reported (`HashError`) instead of hanging or reading garbage.
"""
import struct

from . import elf as E


class HashError(Exception):
    """Malformed table: the loader would read outside the table / not terminate."""

    def __init__(self, kind, msg):
        super().__init__(f"{kind}: {msg}")
        self.kind = kind
        self.msg = msg


def dl_new_hash(name: bytes) -> int:
    h = 5381
    for c in name:
        h = (h * 33 + c) & 0xffffffff
    return h


def dl_elf_hash(name: bytes) -> int:
    h = 0
    for c in name:
        h = ((h << 4) + c) & 0xffffffff
        g = h & 0xf0000000
        h ^= g >> 24
        h &= ~g & 0xffffffff
    return h


class DynView:
    """What the loader sees of an object: dynamic tags, dynsym/dynstr through PT_LOAD mappings."""

    def __init__(self, elf):
        self.elf = elf
        self.tags = {}
        for t, v in self._dynamic_via_phdr():
            self.tags.setdefault(t, v)
        self.symtab = self.tags.get(E.DT_SYMTAB)
        self.strtab = self.tags.get(E.DT_STRTAB)
        self.gnu = self.tags.get(E.DT_GNU_HASH)
        self.sysv = self.tags.get(E.DT_HASH)
        self._gnu_hdr = None
        self._sysv_hdr = None

    def _dynamic_via_phdr(self):
        seg = next((p for p in self.elf.segments if p.type == E.PT_DYNAMIC), None)
        if seg is None:
            return []
        out = []
        d = self.elf.data
        for i in range(seg.filesz // 16):
            tag, val = struct.unpack_from("<qQ", d, seg.offset + i * 16)
            if tag == E.DT_NULL:
                break
            out.append((tag, val))
        return out

    # -- raw accessors (bounded by the mapped file image) -------------------------------------
    def _u32(self, vaddr, what):
        try:
            return struct.unpack("<I", self.elf.read(vaddr, 4))[0]
        except E.ElfError:
            raise HashError("out-of-image", f"{what}: address {vaddr:#x} is not mapped")

    def _u64(self, vaddr, what):
        try:
            return struct.unpack("<Q", self.elf.read(vaddr, 8))[0]
        except E.ElfError:
            raise HashError("out-of-image", f"{what}: address {vaddr:#x} is not mapped")

    def sym_at(self, idx):
        """(name bytes, shndx, value, info) of dynamic symbol idx read through DT_SYMTAB."""
        try:
            raw = self.elf.read(self.symtab + 24 * idx, 24)
        except E.ElfError:
            raise HashError("sym-out-of-image", f"dynamic symbol index {idx} is outside the image")
        name_off, info, other, shndx, value, size = struct.unpack("<IBBHQQ", raw)
        name = self._cstr(self.strtab + name_off, idx)
        return name, shndx, value, info

    def _cstr(self, vaddr, idx):
        for p in self.elf.loads():
            if p.vaddr <= vaddr < p.vaddr + p.filesz:
                off = p.offset + vaddr - p.vaddr
                lim = p.offset + p.filesz
                end = self.elf.data.find(b"\0", off, lim)
                if end < 0:
                    break
                return self.elf.data[off:end]
            if p.vaddr <= vaddr < p.vaddr + p.memsz:
                return b""
        raise HashError("str-out-of-image", f"name of dynamic symbol {idx} is outside the image")

    # -- GNU hash --------------------------------------------------------------------------------
    def gnu_header(self):
        if self._gnu_hdr is None:
            a = self.gnu
            nbuckets = self._u32(a, "gnu nbuckets")
            symoffset = self._u32(a + 4, "gnu symoffset")
            bloom_size = self._u32(a + 8, "gnu bloom size")
            bloom_shift = self._u32(a + 12, "gnu bloom shift")
            if bloom_size == 0 or bloom_size & (bloom_size - 1):
                # glibc asserts (bitmask_nwords & (bitmask_nwords - 1)) == 0
                raise HashError("gnu-bloom-size", f"bloom word count {bloom_size} is not a power of two")
            bloom = a + 16
            buckets = bloom + 8 * bloom_size
            chain0 = buckets + 4 * nbuckets - 4 * symoffset  # glibc: l_gnu_chain_zero
            self._gnu_hdr = (nbuckets, symoffset, bloom_size, bloom_shift, bloom, buckets, chain0)
        return self._gnu_hdr

    def gnu_candidates(self, name: bytes, nsyms: int):
        """Yields dynamic symbol indices whose chain hash matches `name`, in walk order, exactly as
        do_lookup_x visits them. `nsyms` bounds the walk (number of .dynsym entries)."""
        nbuckets, symoffset, bloom_size, bloom_shift, bloom, buckets, chain0 = self.gnu_header()
        h = dl_new_hash(name)
        word = self._u64(bloom + 8 * ((h // 64) & (bloom_size - 1)), "gnu bloom word")
        bit1 = h & 63
        bit2 = (h >> bloom_shift) & 63
        if not ((word >> bit1) & (word >> bit2) & 1):
            return
        if nbuckets == 0:  # glibc: "if (map->l_nbuckets == 0) continue;"
            return
        b = self._u32(buckets + 4 * (h % nbuckets), "gnu bucket")
        if b == 0:
            return
        if b < symoffset:
            raise HashError("gnu-bucket-below-symoffset", f"bucket value {b} < symoffset {symoffset}")
        i = b
        while True:
            if i >= nsyms:
                raise HashError("gnu-chain-unterminated",
                                f"chain of bucket {h % nbuckets} runs past the last dynamic symbol ({nsyms})")
            hv = self._u32(chain0 + 4 * i, "gnu chain")
            if ((hv ^ h) >> 1) == 0:
                yield i
            if hv & 1:
                return
            i += 1

    def gnu_lookup_all(self, name: bytes, nsyms: int):
        """All defined dynamic symbols named `name` that a GNU-hash walk reaches."""
        out = []
        for i in self.gnu_candidates(name, nsyms):
            n, shndx, value, info = self.sym_at(i)
            if n == name and shndx != E.SHN_UNDEF:
                out.append(i)
        return out

    # -- SysV hash -------------------------------------------------------------------------------
    def sysv_header(self):
        if self._sysv_hdr is None:
            a = self.sysv
            nbucket = self._u32(a, "sysv nbucket")
            nchain = self._u32(a + 4, "sysv nchain")
            self._sysv_hdr = (nbucket, nchain, a + 8, a + 8 + 4 * nbucket)
        return self._sysv_hdr

    def sysv_candidates(self, name: bytes):
        nbucket, nchain, buckets, chain = self.sysv_header()
        if nbucket == 0:  # glibc: "if (map->l_nbuckets == 0) continue;"
            return
        h = dl_elf_hash(name)
        i = self._u32(buckets + 4 * (h % nbucket), "sysv bucket")
        steps = 0
        while i != 0:  # STN_UNDEF
            if i >= nchain:
                raise HashError("sysv-index-out-of-range", f"chain/bucket value {i} >= nchain {nchain}")
            steps += 1
            if steps > nchain:
                raise HashError("sysv-chain-cycle", f"chain of bucket {h % nbucket} does not terminate")
            yield i
            i = self._u32(chain + 4 * i, "sysv chain")

    def sysv_lookup_all(self, name: bytes):
        out = []
        for i in self.sysv_candidates(name):
            n, shndx, value, info = self.sym_at(i)
            if n == name and shndx != E.SHN_UNDEF:
                out.append(i)
        return out

    # -- whole-table walks (termination for every bucket, i.e. for every absent name) -------------
    def gnu_walk_all(self, nsyms: int):
        """Walks every bucket's chain. Returns {sym index: bucket}. Raises HashError if any chain
        fails to terminate inside the table."""
        nbuckets, symoffset, bloom_size, bloom_shift, bloom, buckets, chain0 = self.gnu_header()
        reached = {}
        for bi in range(nbuckets):
            b = self._u32(buckets + 4 * bi, "gnu bucket")
            if b == 0:
                continue
            if b < symoffset:
                raise HashError("gnu-bucket-below-symoffset", f"bucket {bi} value {b} < symoffset {symoffset}")
            i = b
            while True:
                if i >= nsyms:
                    raise HashError("gnu-chain-unterminated",
                                    f"chain of bucket {bi} runs past the last dynamic symbol ({nsyms})")
                hv = self._u32(chain0 + 4 * i, "gnu chain")
                reached[i] = bi
                if hv & 1:
                    break
                i += 1
        return reached

    def sysv_walk_all(self):
        nbucket, nchain, buckets, chain = self.sysv_header()
        reached = {}
        for bi in range(nbucket):
            i = self._u32(buckets + 4 * bi, "sysv bucket")
            steps = 0
            while i != 0:
                if i >= nchain:
                    raise HashError("sysv-index-out-of-range", f"chain/bucket value {i} >= nchain {nchain}")
                steps += 1
                if steps > nchain:
                    raise HashError("sysv-chain-cycle", f"chain of bucket {bi} does not terminate")
                reached[i] = bi
                i = self._u32(chain + 4 * i, "sysv chain")
        return reached
