"""Core of the /verif property-based checking framework.

A check is a subclass of `Check` (Python/Hypothesis, process-level) or `RustCheck` (delegates to
the in-process Rust/proptest harness).  `run_check` owns: rebuilding wild from the repository's
working tree with hooks on, the replay tier (committed regressions + known findings), the
generation tier (16 worker processes, each a seeded Hypothesis run), shrinking, replay files,
evidence and exit codes (0 held / 1 VIOLATION / 2 inconclusive).
"""
import fcntl
import hashlib
import json
import multiprocessing as mp
import os
import shutil
import subprocess
import sys
import time
import traceback
from collections import Counter

VERIF = os.path.dirname(os.path.dirname(os.path.abspath(__file__)))
REPO = os.environ.get("VERIF_REPO", "/repo")
TARGET = os.environ.get("VERIF_TARGET", os.path.join(VERIF, "target"))
EVIDENCE_DIR = os.environ.get("VERIF_EVIDENCE_DIR", os.path.join(VERIF, "evidence"))
FAIL_DIR = os.environ.get("VERIF_FAIL_DIR", os.path.join(VERIF, "failures"))
NWORKERS = int(os.environ.get("VERIF_WORKERS", "16"))
WILD = os.path.join(TARGET, "wild", "debug", "wild")
LINKER_DIFF = os.path.join(TARGET, "wild", "debug", "linker-diff")
LD = "/usr/bin/ld.bfd"
LLD = "/usr/bin/ld.lld"
# Panics of the tested binary are judged by status/stderr; symbolised backtraces only cost time.
os.environ["RUST_BACKTRACE"] = "0"


class Violation(Exception):
    """The property is violated on this case. `signature` is a short stable root-cause key."""

    def __init__(self, signature, message="", detail=None):
        super().__init__(f"{signature}: {message}")
        self.signature = signature
        self.message = message
        self.detail = detail


class Discard(Exception):
    """Case is outside the domain (e.g. reference linker rejects it). Counted, never a failure."""


class OracleSplit(Exception):
    """References disagree among themselves; counted and recorded, never reported."""


class Inconclusive(Exception):
    """Harness-level problem (tool failure, timeout without confirmed deadlock)."""


def log(*a):
    print(*a, file=sys.stderr, flush=True)


# ------------------------------------------------------------------------------------------------
# Build


def _flock(path):
    os.makedirs(os.path.dirname(path), exist_ok=True)
    f = open(path, "w")
    fcntl.flock(f, fcntl.LOCK_EX)
    return f


def build_wild():
    """Rebuilds wild + linker-diff (dev profile, hooks on) from REPO's working tree."""
    if os.environ.get("VERIF_SKIP_BUILD") == "1" and os.path.exists(WILD):
        return
    lock = _flock(os.path.join(TARGET, ".build.lock"))
    try:
        env = dict(os.environ)
        env["RUSTFLAGS"] = "--cfg wild_verif"
        env["CARGO_NET_OFFLINE"] = "true"
        env["CARGO_TARGET_DIR"] = os.path.join(TARGET, "wild")
        t0 = time.time()
        p = subprocess.run(
            ["cargo", "build", "--offline", "-q", "--manifest-path", os.path.join(REPO, "Cargo.toml"),
             "-p", "wild-linker", "-p", "linker-diff"],
            env=env, stdout=subprocess.PIPE, stderr=subprocess.STDOUT, text=True)
        if p.returncode != 0:
            log(p.stdout[-4000:])
            raise Inconclusive("build of wild (hooks on) failed")
        # `ld` symlink so compilers can drive wild via -B<dir>.
        for name, tgt in (("wild", WILD), ("ld.bfd", LD), ("lld", LLD)):
            d = os.path.join(TARGET, "bdir", name)
            os.makedirs(d, exist_ok=True)
            link = os.path.join(d, "ld")
            if os.path.islink(link) and os.readlink(link) == tgt:
                continue
            if os.path.lexists(link):
                os.unlink(link)
            os.symlink(tgt, link)
        dt = time.time() - t0
        if dt > 5:
            log(f"[build] wild rebuilt in {dt:.1f}s")
    finally:
        lock.close()


def build_harness():
    """Builds the in-process Rust harness against REPO's libwild/linker-utils. Returns binary path."""
    src = os.path.join(VERIF, "harness")
    gen = os.path.join(TARGET, "hsrc")
    binpath = os.path.join(TARGET, "harness", "release", "vcheck")
    if os.environ.get("VERIF_SKIP_BUILD") == "1" and os.path.exists(binpath):
        return binpath
    lock = _flock(os.path.join(TARGET, ".hbuild.lock"))
    try:
        os.makedirs(gen, exist_ok=True)
        tmpl = open(os.path.join(src, "Cargo.toml.in")).read().replace("@REPO@", REPO)
        _write_if_changed(os.path.join(gen, "Cargo.toml"), tmpl)
        lockfile = os.path.join(gen, "Cargo.lock")
        if not os.path.exists(lockfile):
            shutil.copy(os.path.join(src, "Cargo.lock"), lockfile)
        link = os.path.join(gen, "src")
        if not os.path.islink(link) or os.readlink(link) != os.path.join(src, "src"):
            if os.path.lexists(link):
                os.unlink(link)
            os.symlink(os.path.join(src, "src"), link)
        env = dict(os.environ)
        env["RUSTFLAGS"] = "--cfg wild_verif"
        env["CARGO_NET_OFFLINE"] = "true"
        env["CARGO_TARGET_DIR"] = os.path.join(TARGET, "harness")
        p = subprocess.run(["cargo", "build", "--offline", "-q", "--release",
                            "--manifest-path", os.path.join(gen, "Cargo.toml")],
                           env=env, stdout=subprocess.PIPE, stderr=subprocess.STDOUT, text=True)
        if p.returncode != 0:
            log(p.stdout[-6000:])
            raise Inconclusive("build of in-process harness failed")
        return binpath
    finally:
        lock.close()


def _write_if_changed(path, text):
    try:
        if open(path).read() == text:
            return
    except OSError:
        pass
    with open(path, "w") as f:
        f.write(text)


# ------------------------------------------------------------------------------------------------
# Known findings


def load_known(prop):
    """Entries of /verif/known_findings.jsonl for this property.
    {"status": "known"|"fixed", "property": id, "signature": s, "what": text, "case": {...}|null,
     "commit": sha (fixed only)}"""
    path = os.path.join(VERIF, "known_findings.jsonl")
    out = []
    if os.path.exists(path):
        for line in open(path):
            line = line.strip()
            if not line or line.startswith("#"):
                continue
            e = json.loads(line)
            if e.get("property") == prop:
                out.append(e)
    return out


_KNOWN_CACHE = {}


def still_known(prop, signature):
    """True while known_findings.jsonl lists `signature` for `prop` with status `known`. Checks use it
    so that the domain of a finding that has been repaired (`fixed`) is searched again."""
    if prop not in _KNOWN_CACHE:
        _KNOWN_CACHE[prop] = {e["signature"] for e in load_known(prop) if e.get("status") == "known"}
    return signature in _KNOWN_CACHE[prop]


def sig_matches(entry_sig, sig):
    """Exact match, or prefix match when the entry ends with '*'."""
    if entry_sig.endswith("*"):
        return sig.startswith(entry_sig[:-1])
    return entry_sig == sig


# ------------------------------------------------------------------------------------------------
# Check base class


class Ctx:
    """Per-case context: scratch dir and configuration."""

    def __init__(self, check, tier, scratch_root, strict=False):
        self.check = check
        self.tier = tier
        self.root = scratch_root
        self.n = 0
        self.dir = None
        self.strict = strict  # replay mode: known findings are not tolerated in-line

    def fresh_dir(self):
        self.cleanup()
        self.n += 1
        self.dir = os.path.join(self.root, f"c{self.n}")
        os.makedirs(self.dir)
        return self.dir

    def cleanup(self):
        if self.dir and os.path.exists(self.dir) and os.environ.get("VERIF_KEEP") != "1":
            subprocess.run(["chmod", "-R", "u+rwx", self.dir], stderr=subprocess.DEVNULL)
            shutil.rmtree(self.dir, ignore_errors=True)
        self.dir = None


class Check:
    prop = None
    level = "exploration"
    rule = ""
    technique = ""
    assumptions = []
    quick_cases = 200
    thorough_cases = 5000
    needs_harness = False
    # Upper bound on worker processes (some checks are themselves multi-threaded).
    max_workers = 16
    case_timeout = 120

    def strategy(self, tier):
        raise NotImplementedError

    def run_case(self, case, ctx):
        """Runs one case. Returns an info dict:
           {"nontrivial": bool, "key": str (distinctness key), "classes": [str...], ...}
        Raises Violation / Discard / OracleSplit / Inconclusive."""
        raise NotImplementedError

    def excluded_by_construction(self, case):
        """Return a known-finding signature if this case lies in a known finding's exact domain
        (so it is skipped and counted), else None."""
        return None

    def setup(self, tier):
        """Once per run in the parent, after the build (e.g. compile shared corpora)."""

    def extra_phases(self, tier, seed, stats):
        """Optional additional deterministic phases (exhaustive enumerations...). May raise
        Violation. `stats` is the merged Stats to add to."""


class Stats:
    def __init__(self):
        self.evaluations = 0
        self.keys = set()
        self.classes = Counter()
        self.discarded = 0
        self.discard_reasons = Counter()
        self.oracle_split = 0
        self.excluded_known = Counter()
        self.samples = []
        self.split_samples = []
        self.violations = []  # list of dicts
        self.inconclusive = []
        self.inconclusive_samples = []
        self.extra = {}

    def merge(self, o):
        self.evaluations += o.evaluations
        self.keys |= o.keys
        self.classes.update(o.classes)
        self.discarded += o.discarded
        self.discard_reasons.update(o.discard_reasons)
        self.oracle_split += o.oracle_split
        self.excluded_known.update(o.excluded_known)
        self.samples.extend(o.samples)
        self.split_samples.extend(o.split_samples)
        self.violations.extend(o.violations)
        self.inconclusive.extend(o.inconclusive)
        self.inconclusive_samples.extend(o.inconclusive_samples)
        for k, v in o.extra.items():
            if isinstance(v, (int, float)):
                self.extra[k] = self.extra.get(k, 0) + v
            else:
                self.extra.setdefault(k, v)


def case_hash(case):
    return hashlib.sha1(json.dumps(case, sort_keys=True, default=str).encode()).hexdigest()[:16]


def _abbrev(case, limit=1500):
    s = json.dumps(case, sort_keys=True, default=str)
    if len(s) <= limit:
        return case
    return {"abbreviated_json": s[:limit] + "...", "len": len(s)}


def evaluate(check, case, ctx, stats, known, counting=True):
    """Runs one case through run_case with all the bookkeeping. Re-raises Violation unless it
    matches a known finding (and ctx is not strict)."""
    pre = check.excluded_by_construction(case)
    # A domain is only excluded while its finding is still listed as `known`: once a finding is
    # marked `fixed`, its domain is searched again and a regression alarms.
    if pre is not None and not ctx.strict and any(
            e.get("status") == "known" and sig_matches(e["signature"], pre) for e in known):
        if counting:
            stats.excluded_known[pre] += 1
        return None
    ctx.fresh_dir()
    try:
        info = check.run_case(case, ctx) or {}
    except Discard as d:
        if counting:
            stats.evaluations += 1
            stats.discarded += 1
            stats.discard_reasons[str(d)[:80]] += 1
        return None
    except OracleSplit as d:
        if counting:
            stats.evaluations += 1
            stats.oracle_split += 1
            if len(stats.split_samples) < 3:
                stats.split_samples.append({"why": str(d)[:300], "case": _abbrev(case, 600)})
        return None
    except Violation as v:
        if not ctx.strict:
            for e in known:
                if e.get("status") == "known" and sig_matches(e["signature"], v.signature):
                    if counting:
                        stats.evaluations += 1
                        stats.excluded_known[e["signature"]] += 1
                    return None
        raise
    finally:
        ctx.cleanup()
    if counting:
        # A case may stand for many executions (e.g. a whole fault matrix): it can report its own
        # evaluation count and a list of distinct non-trivial keys.
        stats.evaluations += int(info.get("evaluations", 1))
        if info.get("nontrivial"):
            stats.keys.add(str(info.get("key", case_hash(case))))
        for k in info.get("keys", ()):
            stats.keys.add(str(k))
        for c in info.get("classes", []):
            stats.classes[c] += 1
        for k, v in info.get("counters", {}).items():
            stats.extra[k] = stats.extra.get(k, 0) + v
        if len(stats.samples) < 2:
            stats.samples.append({"case": _abbrev(case), "info": {k: v for k, v in info.items()
                                                                  if k not in ("counters", "keys", "classes")}})
    return info


def _worker(check, tier, seed, n_cases, idx, known, q):
    """One Hypothesis run in a child process."""
    import hypothesis
    from hypothesis import HealthCheck, Phase, given, settings

    stats = Stats()
    scratch = os.path.join(os.environ.get("VERIF_SCRATCH", "/dev/shm"), f"verif-{os.getpid()}")
    os.makedirs(scratch, exist_ok=True)
    ctx = Ctx(check, tier, scratch)
    state = {"failed": False, "last_fail": None, "fail_cache": {}, "shrink_deadline": 0.0}
    wseed = int.from_bytes(hashlib.sha256(f"{check.prop}/{seed}/{idx}".encode()).digest()[:8], "big")

    @hypothesis.seed(wseed)
    @settings(max_examples=n_cases, database=None, deadline=None, derandomize=False,
              suppress_health_check=[HealthCheck.too_slow, HealthCheck.data_too_large,
                                     HealthCheck.large_base_example],
              phases=[Phase.generate, Phase.shrink], report_multiple_bugs=False)
    @given(check.strategy(tier))
    def prop(case):
        # Shrinking is bounded by a wall-clock budget after the first failure: past it, cases already
        # known to fail fail again from the cache and unseen candidates are not explored further.
        h = case_hash(case)
        if state["failed"]:
            if h in state["fail_cache"]:
                state["last_fail"] = (case, state["fail_cache"][h])
                raise state["fail_cache"][h]
            if time.time() > state["shrink_deadline"]:
                return
        try:
            evaluate(check, case, ctx, stats, known, counting=not state["failed"])
        except Inconclusive as e:
            # One undecided case (a timeout on a loaded machine, a helper tool that failed) is recorded and
            # skipped; the run as a whole is inconclusive only if such cases are frequent (see run_check).
            stats.extra["inconclusive_cases"] = stats.extra.get("inconclusive_cases", 0) + 1
            if len(stats.inconclusive_samples) < 3:
                stats.inconclusive_samples.append(str(e)[:600])
            return
        except Violation as v:
            if not state["failed"]:
                state["shrink_deadline"] = time.time() + float(os.environ.get("VERIF_SHRINK_S", "90"))
            state["failed"] = True
            state["fail_cache"][h] = v
            state["last_fail"] = (case, v)
            raise

    try:
        try:
            prop()
        except Violation:
            case, v = state["last_fail"]
            stats.violations.append({"signature": v.signature, "message": v.message,
                                     "detail": v.detail, "case": case, "worker_seed": wseed})
        except Inconclusive as e:
            stats.inconclusive.append(str(e))
        except Exception as e:  # harness bug / hypothesis health check
            if state["last_fail"] is not None:
                case, v = state["last_fail"]
                stats.violations.append({"signature": v.signature, "message": v.message,
                                         "detail": v.detail, "case": case, "worker_seed": wseed})
            else:
                stats.inconclusive.append("harness exception: " + "".join(
                    traceback.format_exception(type(e), e, e.__traceback__))[-3000:])
    finally:
        ctx.cleanup()
        shutil.rmtree(scratch, ignore_errors=True)
        q.put(stats)


def write_failure(prop, v):
    d = os.path.join(FAIL_DIR, prop)
    os.makedirs(d, exist_ok=True)
    h = case_hash(v["case"])
    path = os.path.join(d, f"{h}.json")
    with open(path, "w") as f:
        json.dump({"property": prop, "signature": v["signature"], "message": v["message"],
                   "detail": v.get("detail"), "case": v["case"]}, f, indent=1, default=str)
    return path


def replay_tier(check, tier, stats, known):
    """Committed regression cases and known findings. Returns list of violations (dicts)."""
    out = []
    scratch = os.path.join(os.environ.get("VERIF_SCRATCH", "/dev/shm"), f"verif-{os.getpid()}-r")
    os.makedirs(scratch, exist_ok=True)
    ctx = Ctx(check, tier, scratch, strict=True)
    try:
        rdir = os.path.join(VERIF, "replays", check.prop)
        files = sorted(os.listdir(rdir)) if os.path.isdir(rdir) else []
        entries = []
        for fn in files:
            if fn.endswith(".json"):
                rec = json.load(open(os.path.join(rdir, fn)))
                entries.append((os.path.join(rdir, fn), rec["case"], None))
        for e in known:
            if e.get("case") is not None:
                entries.append((None, e["case"], e))
        n_replayed = 0
        for path, case, e in entries:
            n_replayed += 1
            try:
                evaluate(check, case, ctx, Stats(), known, counting=False)
                if e is not None and e["status"] == "known":
                    log(f"note: known finding '{e['signature']}' did not reproduce on this tree")
            except Violation as v:
                # The entry being replayed, or (a stored case of a repaired finding can still run into another,
                # listed one) any entry with status "known" whose exact signature the violation carries.
                hit = e if (e is not None and e["status"] == "known" and sig_matches(e["signature"], v.signature)) else \
                    next((k for k in known if k.get("status") == "known" and sig_matches(k["signature"], v.signature)), None)
                if hit is not None:
                    if hit is e:
                        print(f"KNOWN-FINDING: property={check.prop} {e['what']}", flush=True)
                    stats.extra["known_findings_reproduced"] = stats.extra.get(
                        "known_findings_reproduced", 0) + 1
                else:
                    out.append({"signature": v.signature, "message": v.message, "detail": v.detail,
                                "case": case, "replay_of": path or ("fixed:" + e["signature"])})
        stats.extra["replayed"] = n_replayed
    finally:
        ctx.cleanup()
        shutil.rmtree(scratch, ignore_errors=True)
    return out


def run_check(check, tier, seed, replay_path=None, cases_override=None):
    t0 = time.time()
    os.makedirs(EVIDENCE_DIR, exist_ok=True)
    ev_path = os.path.join(EVIDENCE_DIR, f"{check.prop}.json")
    try:
        build_wild()
        if check.needs_harness:
            check.harness_bin = build_harness()
        check.setup(tier)
    except Inconclusive as e:
        log(f"INCONCLUSIVE property={check.prop}: {e}")
        return 2
    known = load_known(check.prop)

    if replay_path:
        rec = json.load(open(replay_path))
        scratch = os.path.join(os.environ.get("VERIF_SCRATCH", "/dev/shm"), f"verif-{os.getpid()}-r")
        os.makedirs(scratch, exist_ok=True)
        ctx = Ctx(check, tier, scratch, strict=True)
        try:
            info = evaluate(check, rec["case"], ctx, Stats(), known, counting=False)
            print(f"replay passed: {info}")
            return 0
        except Violation as v:
            print(f"VIOLATION property={check.prop} replay={replay_path}")
            print(f"  {v.signature}: {v.message}")
            if v.detail:
                print("  " + str(v.detail)[:3000])
            return 1
        finally:
            ctx.cleanup()
            shutil.rmtree(scratch, ignore_errors=True)

    stats = Stats()
    violations = replay_tier(check, tier, stats, known)

    n_cases = cases_override or (check.quick_cases if tier == "quick" else check.thorough_cases)
    # Hypothesis tries the simplest example first, so a worker needs several examples to leave the
    # minimal corner of the domain: at least 4 examples per worker.
    nworkers = max(1, min(NWORKERS, check.max_workers, max(1, n_cases // 4)))
    if n_cases > 0:
        per = [n_cases // nworkers + (1 if i < n_cases % nworkers else 0) for i in range(nworkers)]
        q = mp.Queue()
        procs = []
        for i in range(nworkers):
            p = mp.Process(target=_worker, args=(check, tier, seed, per[i], i, known, q))
            p.start()
            procs.append(p)
        got = 0
        while got < nworkers:
            try:
                s = q.get(timeout=5)
                stats.merge(s)
                got += 1
            except Exception:
                if not any(p.is_alive() for p in procs) and q.empty():
                    stats.inconclusive.append("a worker died without reporting")
                    break
        for p in procs:
            p.join(timeout=10)
    try:
        check.extra_phases(tier, seed, stats)
    except Violation as v:
        stats.violations.append({"signature": v.signature, "message": v.message,
                                 "detail": v.detail, "case": getattr(v, "case", {"extra_phase": True})})
    except Inconclusive as e:
        stats.inconclusive.append(str(e))
    violations.extend(stats.violations)

    # De-duplicate by signature (root cause).
    by_sig = {}
    for v in violations:
        by_sig.setdefault(v["signature"], v)
    rc = 0
    lines = []
    for sig, v in by_sig.items():
        path = write_failure(check.prop, v)
        lines.append(f"VIOLATION property={check.prop} replay={path}")
        lines.append(f"  signature: {sig}")
        lines.append(f"  {v['message'][:2000]}")
        rc = 1
    wall = time.time() - t0
    coverage = {
        "evaluations": stats.evaluations,
        "distinct_nontrivial": len(stats.keys),
        "rule": check.rule,
        "samples": stats.samples[:6] or [{"note": "no generated case completed"}],
        "classes": dict(stats.classes.most_common(60)),
        "discarded": stats.discarded,
        "discard_reasons": dict(stats.discard_reasons.most_common(10)),
        "oracle_split": stats.oracle_split,
        "oracle_split_samples": stats.split_samples[:3],
        "excluded_known": dict(stats.excluded_known),
        "workers": nworkers,
        "technique": check.technique,
    }
    coverage.update(stats.extra)
    n_inc = int(stats.extra.get("inconclusive_cases", 0))
    if n_inc:
        coverage["inconclusive_case_samples"] = stats.inconclusive_samples[:3]
        # Undecided cases are tolerated while they are rare: more than 3 and more than 5 % of the decided ones
        # (or nothing decided at all) makes the whole run inconclusive.
        if n_inc > max(3, 0.05 * stats.evaluations) or stats.evaluations == 0:
            stats.inconclusive.append(f"{n_inc} undecided case(s) against {stats.evaluations} decided: "
                                      f"{stats.inconclusive_samples[0] if stats.inconclusive_samples else ''}")
    if stats.inconclusive:
        coverage["inconclusive"] = stats.inconclusive[:5]
    evidence = {
        "property_id": check.prop, "tier": tier, "seed": seed, "level": check.level,
        "coverage": coverage, "assumptions": list(check.assumptions),
        "wall_s": round(wall, 2), "violations": len(by_sig),
    }
    with open(ev_path, "w") as f:
        json.dump(evidence, f, indent=1, default=str)
    for line in lines:
        print(line, flush=True)
    if rc == 0 and stats.inconclusive:
        log(f"INCONCLUSIVE property={check.prop}: {stats.inconclusive[0][:3000]}")
        rc = 2
    if rc == 0 and stats.evaluations > 20 and stats.discarded > 0.5 * stats.evaluations:
        log(f"INCONCLUSIVE property={check.prop}: generator unhealthy, "
            f"{stats.discarded}/{stats.evaluations} discarded: {dict(stats.discard_reasons.most_common(5))}")
        rc = 2
    log(f"[{check.prop}] tier={tier} seed={seed} evaluations={stats.evaluations} "
        f"nontrivial_distinct={len(stats.keys)} discarded={stats.discarded} split={stats.oracle_split} "
        f"excluded_known={sum(stats.excluded_known.values())} violations={len(by_sig)} wall={wall:.1f}s rc={rc}")
    return rc


# ------------------------------------------------------------------------------------------------
# In-process (Rust/proptest) checks


class RustCheck(Check):
    """A check whose generation, oracle and shrinking run inside the Rust harness (`vcheck <sub>`),
    linked against the repository's libwild / linker-utils built with hooks on."""
    needs_harness = True
    sub = None  # vcheck subcommand
    shards = 16

    def strategy(self, tier):  # not used
        raise NotImplementedError

    def run_replay_case(self, case):
        p = subprocess.run([self.harness_bin, self.sub, "--replay", json.dumps(case)],
                           stdout=subprocess.PIPE, stderr=subprocess.PIPE, text=True, timeout=600)
        if p.returncode != 0:
            raise Inconclusive(f"vcheck {self.sub} --replay failed: {p.stderr[-2000:]}")
        out = json.loads(p.stdout)
        if out["violations"]:
            v = out["violations"][0]
            raise Violation(v["signature"], v["message"], None)
        return {"nontrivial": True}

    def run_case(self, case, ctx):
        return self.run_replay_case(case)


def run_rust_check(check, tier, seed, replay_path=None, cases_override=None):
    t0 = time.time()
    os.makedirs(EVIDENCE_DIR, exist_ok=True)
    ev_path = os.path.join(EVIDENCE_DIR, f"{check.prop}.json")
    try:
        if getattr(check, "needs_wild", False):
            build_wild()
        check.harness_bin = build_harness()
    except Inconclusive as e:
        log(f"INCONCLUSIVE property={check.prop}: {e}")
        return 2
    known = load_known(check.prop)
    if replay_path:
        rec = json.load(open(replay_path))
        try:
            check.run_replay_case(rec["case"])
            print("replay passed")
            return 0
        except Violation as v:
            print(f"VIOLATION property={check.prop} replay={replay_path}\n  {v.signature}: {v.message}")
            return 1
    stats = Stats()
    violations = []
    # Replay tier.
    rdir = os.path.join(VERIF, "replays", check.prop)
    entries = []
    if os.path.isdir(rdir):
        for fn in sorted(os.listdir(rdir)):
            if fn.endswith(".json"):
                entries.append((os.path.join(rdir, fn), json.load(open(os.path.join(rdir, fn)))["case"], None))
    for e in known:
        if e.get("case") is not None:
            entries.append((None, e["case"], e))
    for path, case, e in entries:
        try:
            check.run_replay_case(case)
            if e is not None and e["status"] == "known":
                log(f"note: known finding '{e['signature']}' did not reproduce on this tree")
        except Violation as v:
            if e is not None and e["status"] == "known" and sig_matches(e["signature"], v.signature):
                print(f"KNOWN-FINDING: property={check.prop} {e['what']}", flush=True)
            else:
                violations.append({"signature": v.signature, "message": v.message, "detail": None, "case": case})
    stats.extra["replayed"] = len(entries)
    n_cases = cases_override or (check.quick_cases if tier == "quick" else check.thorough_cases)
    shards = max(1, min(check.shards, NWORKERS))
    known_sigs = [e["signature"] for e in known if e["status"] == "known"]
    procs = []
    for i in range(shards):
        wseed = int.from_bytes(hashlib.sha256(f"{check.prop}/{seed}/{i}".encode()).digest()[:8], "big") >> 1
        cmd = [check.harness_bin, check.sub, "--seed", str(wseed), "--cases", str(max(1, n_cases // shards)),
               "--shard", str(i), "--shards", str(shards)]
        if tier == "thorough":
            cmd.append("--thorough")
        for s in known_sigs:
            cmd += ["--known", s]
        procs.append(subprocess.Popen(cmd, stdout=subprocess.PIPE, stderr=subprocess.PIPE, text=True))
    inconclusive = []
    extra = {}
    for p in procs:
        try:
            out, err = p.communicate(timeout=check.case_timeout * 60)
        except subprocess.TimeoutExpired:
            p.kill()
            inconclusive.append("vcheck shard timed out")
            continue
        if p.returncode != 0:
            inconclusive.append(f"vcheck exited {p.returncode}: {err[-1500:]}")
            continue
        o = json.loads(out)
        stats.evaluations += o["evaluations"]
        stats.keys |= set(o.get("nontrivial_keys", []))
        stats.extra["distinct_nontrivial_sum"] = stats.extra.get("distinct_nontrivial_sum", 0) + o["distinct_nontrivial"]
        stats.classes.update(o["classes"])
        stats.samples.extend(o["samples"][:2])
        for k, v in o.get("extra", {}).items():
            if isinstance(v, (int, float)) and not isinstance(v, bool):
                extra[k] = extra.get(k, 0) + v
            else:
                extra.setdefault(k, v)
        for v in o["violations"]:
            violations.append({"signature": v["signature"], "message": v["message"], "detail": None,
                               "case": v["case"]})
    by_sig = {}
    for v in violations:
        by_sig.setdefault(v["signature"], v)
    rc = 0
    lines = []
    for sig, v in by_sig.items():
        path = write_failure(check.prop, v)
        lines.append(f"VIOLATION property={check.prop} replay={path}")
        lines.append(f"  signature: {sig}")
        lines.append(f"  {v['message'][:2000]}")
        rc = 1
    wall = time.time() - t0
    # Shards use disjoint seeds; distinct non-trivial cases are counted per shard by key and the
    # harness reports only the count, so the sum is an upper bound only if keys collide across
    # shards; the class table gives the conservative number of distinct *classes*.
    distinct = stats.extra.pop("distinct_nontrivial_sum", 0)
    coverage = {
        "evaluations": stats.evaluations,
        "distinct_nontrivial": distinct,
        "distinct_classes": len(stats.classes),
        "rule": check.rule,
        "samples": stats.samples[:8] or [{"note": "none"}],
        "classes": dict(stats.classes.most_common(80)),
        "shards": shards,
        "technique": check.technique,
    }
    coverage.update(extra)
    coverage.update(stats.extra)
    if inconclusive:
        coverage["inconclusive"] = inconclusive[:4]
    evidence = {"property_id": check.prop, "tier": tier, "seed": seed, "level": check.level,
                "coverage": coverage, "assumptions": list(check.assumptions), "wall_s": round(wall, 2),
                "violations": len(by_sig)}
    with open(ev_path, "w") as f:
        json.dump(evidence, f, indent=1)
    for line in lines:
        print(line, flush=True)
    if rc == 0 and inconclusive:
        log(f"INCONCLUSIVE property={check.prop}: {inconclusive[0]}")
        rc = 2
    log(f"[{check.prop}] tier={tier} seed={seed} evaluations={stats.evaluations} distinct_nontrivial={distinct} "
        f"classes={len(stats.classes)} violations={len(by_sig)} wall={wall:.1f}s rc={rc}")
    return rc
