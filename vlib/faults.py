"""Fault-injection helpers shared by the crash/pause/history checks (C17, C18, C20, C35)."""
import os
import select
import signal
import subprocess
import time

from . import core
from .core import Inconclusive

# Named points in link order (see libwild/src/verif.rs and HARNESS_GUIDE.md). `opened=<file>` points
# are per input and handled separately.
POINTS_BEFORE_DONE = ["inputs-loaded", "symbols-loaded", "symbols-resolved", "sections-resolved",
                      "layout-done", "output-created", "sections-written", "output-flushed",
                      "output-unmapped", "output-written", "before-verify-inputs", "after-verify-inputs"]
FORK_ONLY_POINTS = ["before-inform-parent"]
NOFORK_ONLY_POINTS = ["link-returned"]
AFTER_DONE_POINTS = ["after-inform-parent"]
# Phase classes: has the output file been created when the fault hits?
OUTPUT_EXISTS_FROM = "output-created"


def points_for(fork):
    pts = list(POINTS_BEFORE_DONE)
    pts += FORK_ONLY_POINTS if fork else NOFORK_ONLY_POINTS
    return pts


def output_created_at(point):
    order = POINTS_BEFORE_DONE + FORK_ONLY_POINTS + NOFORK_ONLY_POINTS + AFTER_DONE_POINTS
    if point.startswith("opened="):
        return False
    return order.index(point) >= order.index(OUTPUT_EXISTS_FROM)


class Run:
    def __init__(self, rc, out, err, timed_out, descendants_gone):
        self.rc, self.out, self.err, self.timed_out, self.descendants_gone = rc, out, err, timed_out, descendants_gone

    def __repr__(self):
        return f"Run(rc={self.rc}, to={self.timed_out}, err={self.err[-300:]!r})"


def run_and_reap(cmd, cwd, env=None, timeout=60, pass_fds=(), on_started=None, preexec_fn=None):
    """Runs cmd, waits for the main process, then waits until every descendant that inherited our
    sentinel pipe has exited (EOF). Returns Run. `on_started(popen)` is called right after spawn."""
    r, w = os.pipe()
    os.set_inheritable(w, True)
    e = dict(os.environ)
    e.setdefault("WILD_VALIDATE_OUTPUT", "0")
    if env:
        e.update(env)
    p = subprocess.Popen(cmd, cwd=cwd, env=e, stdout=subprocess.PIPE, stderr=subprocess.PIPE,
                         stdin=subprocess.DEVNULL, pass_fds=(w, *pass_fds), start_new_session=True, preexec_fn=preexec_fn)
    os.close(w)
    try:
        if on_started:
            on_started(p)
        try:
            out, err = p.communicate(timeout=timeout)
            to = False
        except subprocess.TimeoutExpired:
            try:
                os.killpg(p.pid, signal.SIGKILL)
            except ProcessLookupError:
                pass
            out, err = p.communicate()
            to = True
        # Wait for EOF on the sentinel: all descendants gone.
        gone = False
        deadline = time.time() + timeout
        while time.time() < deadline:
            rl, _, _ = select.select([r], [], [], 0.5)
            if rl:
                if os.read(r, 1) == b"":
                    gone = True
                    break
        if not gone:
            try:
                os.killpg(p.pid, signal.SIGKILL)
            except ProcessLookupError:
                pass
    finally:
        os.close(r)
    return Run(p.returncode, out.decode("utf-8", "replace"), err.decode("utf-8", "replace"), to, gone)


def children_of(pid):
    out = []
    try:
        for t in os.listdir(f"/proc/{pid}/task"):
            with open(f"/proc/{pid}/task/{t}/children") as f:
                out += [int(x) for x in f.read().split()]
    except OSError:
        pass
    return out


class Pause:
    """Drives WILD_VERIF_PAUSE: `env()` gives the variables; `wait_paused(timeout)` blocks until the
    link reaches the point (returns False on timeout/EOF); `release()` lets it continue."""

    def __init__(self, dirpath, point):
        self.point = point
        self.out = os.path.join(dirpath, ".verif_fifo_out")
        self.inp = os.path.join(dirpath, ".verif_fifo_in")
        for p in (self.out, self.inp):
            if os.path.exists(p):
                os.unlink(p)
            os.mkfifo(p)
        # Open read end non-blocking so that wild's open-for-write does not block forever and we
        # can poll with a timeout.
        self.rfd = os.open(self.out, os.O_RDONLY | os.O_NONBLOCK)
        self.wfd = None

    def env(self):
        return {"WILD_VERIF_PAUSE": f"{self.point}:{self.out}:{self.inp}"}

    def wait_paused(self, timeout=30, alive=None):
        deadline = time.time() + timeout
        buf = b""
        while time.time() < deadline:
            rl, _, _ = select.select([self.rfd], [], [], 0.1)
            if rl:
                try:
                    chunk = os.read(self.rfd, 256)
                except BlockingIOError:
                    chunk = b""
                if chunk:
                    buf += chunk
                    if b"\n" in buf:
                        return True
            if alive is not None and not alive():
                # process ended without reaching the point
                # drain once more
                try:
                    chunk = os.read(self.rfd, 256)
                    if chunk and b"\n" in chunk:
                        return True
                except (BlockingIOError, OSError):
                    pass
                return False
        return False

    def release(self, timeout=10):
        deadline = time.time() + timeout
        while self.wfd is None:
            try:
                self.wfd = os.open(self.inp, os.O_WRONLY | os.O_NONBLOCK)
            except OSError:
                # wild has not opened its read end yet (ENXIO); retry briefly.
                if time.time() > deadline:
                    return
                time.sleep(0.005)
        try:
            os.write(self.wfd, b"g")
        except OSError:
            pass

    def close(self):
        for fd in (self.rfd, self.wfd):
            if fd is not None:
                try:
                    os.close(fd)
                except OSError:
                    pass
        for p in (self.out, self.inp):
            try:
                os.unlink(p)
            except OSError:
                pass
