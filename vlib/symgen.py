"""Shared generation helpers for the symbol-resolution family of checks (C02, C03, C33, C37).

Everything is built from tiny assembly objects whose *definitions carry unique IDs* (a data word
holding the ID, or a function returning it) and whose *references are observable*: every reference
is an entry `(site, kind, &symbol)` in the registry section `vreg`; a freestanding runtime (`rt.o`,
no libc: write/exit syscalls only) walks `__start_vreg..__stop_vreg` and prints, per entry,
`<site:8 hex> <value:16 hex>` (or `null` when the address is 0, i.e. an undefined weak reference).

A *file spec* is a JSON-able dict:
    {"defs": [{"name", "kind": "data"|"func", "strength": "strong"|"weak"|"common"|"unique",
               "vis": "default"|"hidden"|"protected", "id": int, "size": int (common), "comdat": bool}],
     "refs": [{"name", "kind", "weak": bool, "site": int}],
     "markers": [names]}     # extra never-referenced global data symbols (archive-member markers)
"""
import hashlib
import os
import shutil

from . import tools
from .core import Inconclusive

DYNLINKER = "/lib64/ld-linux-x86-64.so.2"

K_DATA, K_FUNC, K_SKIP = 0x11, 0x12, 0x13

RUNTIME_C = r"""
typedef unsigned long u64;
struct ent { u64 site; u64 kind; void *p; };
extern struct ent __start_vreg[] __attribute__((visibility("hidden")));
extern struct ent __stop_vreg[] __attribute__((visibility("hidden")));
static char buf[1 << 15];
static u64 pos;
static void put(char c) { if (pos < sizeof buf) buf[pos++] = c; }
static void hex(u64 v, int digits) {
    const char *h = "0123456789abcdef";
    for (int i = (digits - 1) * 4; i >= 0; i -= 4) put(h[(v >> i) & 15]);
}
static long sys3(long n, long a, long b, long c) {
    long r;
    __asm__ volatile("syscall" : "=a"(r) : "a"(n), "D"(a), "S"(b), "d"(c) : "rcx", "r11", "memory");
    return r;
}
__attribute__((used, aligned(8), section("vreg"))) static struct ent vreg_anchor = { 0xffffffffUL, 0x13, 0 };
void vmain_c(void) {
    for (struct ent *e = __start_vreg; e < __stop_vreg; e++) {
        if (e->kind != 0x11 && e->kind != 0x12) continue;  /* anchor / padding */
        hex(e->site, 8);
        put(' ');
        if (!e->p) { put('n'); put('u'); put('l'); put('l'); }
        else if (e->kind == 0x11) hex(*(volatile u64 *)e->p, 16);
        else hex(((u64 (*)(void))e->p)(), 16);
        put('\n');
    }
    u64 off = 0;
    while (off < pos) {
        long r = sys3(1, 1, (long)(buf + off), (long)(pos - off));
        if (r <= 0) break;
        off += r;
    }
    sys3(60, 0, 0, 0);
}
__asm__(".globl _start\n.section .text._start,\"ax\",@progbits\n_start:\n"
        "  xorl %ebp,%ebp\n  andq $-16,%rsp\n  call vmain_c\n  hlt\n");
"""

RT_FLAGS = ["-O1", "-fPIC", "-ffreestanding", "-fno-stack-protector", "-fno-asynchronous-unwind-tables",
            "-fcf-protection=none", "-fno-builtin", "-fvisibility=hidden"]


def runtime_obj(cwd, name="rt.o"):
    """Copies the (process-cached, content-addressed) runtime object into cwd; returns its name."""
    h = hashlib.sha1((RUNTIME_C + " ".join(RT_FLAGS)).encode()).hexdigest()[:12]
    cache = os.path.join(os.environ.get("VERIF_SCRATCH", "/dev/shm"), f"verif-symgen-rt-{h}.o")
    if not os.path.exists(cache):
        tmpd = f"{cache}.{os.getpid()}.d"
        os.makedirs(tmpd, exist_ok=True)
        try:
            _retrying(tools.cc, RUNTIME_C, "rt.o", flags=RT_FLAGS, cwd=tmpd)
            os.replace(os.path.join(tmpd, "rt.o"), cache)
        finally:
            shutil.rmtree(tmpd, ignore_errors=True)
    shutil.copyfile(cache, os.path.join(cwd, name))
    return name


COMMON_ALIGN = {1: 64, 4: 32, 8: 8, 16: 128, 24: 8, 64: 16}


def file_asm(spec):
    """Assembly text of one file spec (deterministic)."""
    out = ['.section .note.GNU-stack,"",@progbits']
    defined = set()
    for d in spec.get("defs", []):
        n, kind, strength = d["name"], d.get("kind", "data"), d.get("strength", "strong")
        defined.add(n)
        vis = d.get("vis", "default")
        if strength == "common":
            # Alignment varies with the size so that a smaller common can carry the larger alignment
            # (size and alignment-padded size must not be confused when picking the largest common).
            size = d.get('size', 8)
            out.append(f".comm {n},{size},{COMMON_ALIGN.get(size, 8)}")
            if vis != "default":
                out.append(f".{vis} {n}")
            continue
        out.append(f".weak {n}" if strength == "weak" else f".globl {n}")
        if strength == "unique":
            out.append(f".type {n},@gnu_unique_object")
        else:
            out.append(f".type {n},@{'function' if kind == 'func' else 'object'}")
        if vis != "default":
            out.append(f".{vis} {n}")
        comdat = f',{n},comdat' if d.get("comdat") else ""
        g = "G" if d.get("comdat") else ""
        if kind == "func":
            out.append(f'.section .text.{n},"ax{g}",@progbits{comdat}')
            out.append(f"{n}:\n  movl ${d['id']},%eax\n  ret")
            out.append(f".size {n},.-{n}")
        else:
            out.append(f'.section .data.{n},"aw{g}",@progbits{comdat}')
            out.append(f".balign 8\n{n}:\n  .quad {d['id']}")
            out.append(f".size {n},8")
    if spec.get("filler_syms"):
        # Many local symbols: pushes the object's symbol count across the linker's internal chunk sizes,
        # with the undefined references (emitted below) at the very end of the symbol table.
        out.append('.section .data.fill,"aw",@progbits')
        out.append("\n".join(f"fill_{i}:" for i in range(spec["filler_syms"])))
        out.append("  .quad 0")
    for m in spec.get("markers", []):
        out.append(f'.globl {m}\n.type {m},@object\n.section .data.{m},"aw",@progbits\n{m}:\n  .quad 0x6d61726b\n.size {m},8')
    for r in spec.get("refs", []):
        n = r["name"]
        if r.get("weak") and n not in defined:
            out.append(f".weak {n}")
        if "site" in r:
            out.append('.section vreg,"aw",@progbits')
            out.append(f".balign 8\n  .quad {r['site']}\n  .quad {K_FUNC if r.get('kind') == 'func' else K_DATA}\n  .quad {n}")
        else:
            # Unobserved reference (e.g. inside a shared library): just a relocation.
            out.append('.section .data.refs,"aw",@progbits')
            out.append(f".balign 8\n  .quad {n}")
    return "\n".join(out) + "\n"


def _retrying(fn, *a, **kw):
    """Tool steps (as, ar, gcc) only fail here when the shared machine is grossly overloaded
    (60 s timeout -> SIGKILL); try up to three times before giving up as Inconclusive."""
    for attempt in range(3):
        try:
            return fn(*a, **kw)
        except Inconclusive:
            if attempt == 2:
                raise


def build_obj(spec, out, cwd):
    return _retrying(tools.asm, file_asm(spec), out, cwd=cwd)


def ar(archive, members, cwd, thin=False):
    path = os.path.join(cwd, archive)
    for attempt in range(3):
        try:
            if os.path.exists(path):
                os.unlink(path)
            return tools.ar(archive, members, cwd=cwd, thin=thin)
        except Inconclusive:
            if attempt == 2:
                raise


def build_shared(spec, out, cwd, soname=None, extra=()):
    """Builds a shared library from a file spec with GNU ld (same input for every linker under test)."""
    o = out + ".o"
    build_obj(spec, o, cwd)
    args = ["-shared", "-o", out, o, *extra]
    if soname:
        args += ["-soname", soname]
    tools.must(link("ld", args, cwd), f"building {out}")
    return out


def parse_output(text):
    """{site: value|None}; raises Inconclusive on garbage."""
    res = {}
    for line in text.splitlines():
        parts = line.split()
        if len(parts) != 2:
            raise Inconclusive(f"unparseable program output line {line!r}")
        site = int(parts[0], 16)
        res[site] = None if parts[1] == "null" else int(parts[1], 16)
    return res


class RunResult:
    def __init__(self, ok, values, why=""):
        self.ok = ok          # program ran to completion with exit 0
        self.values = values  # {site: value|None}
        self.why = why


def run_program(path, cwd):
    r = tools.run_exe(path, cwd=cwd, env={"LD_LIBRARY_PATH": cwd}, timeout=30)
    if r.timed_out:
        r = tools.run_exe(path, cwd=cwd, env={"LD_LIBRARY_PATH": cwd}, timeout=120)
    if r.timed_out:
        raise Inconclusive(f"linked program {path} timed out (machine overloaded?)")
    if r.rc != 0:
        return RunResult(False, {}, f"rc={r.rc} {r.err[:200]}")
    return RunResult(True, parse_output(r.out))


def wild_crashed(res):
    return res.rc < 0 or "panicked at" in res.err or res.rc == 101 or res.rc == 97 or "VERIF-INVARIANT" in res.err


def wild_unsupported(res):
    e = res.err.lower()
    return "not supported" in e or "unsupported" in e or "not yet implemented" in e or "unrecognised" in e \
        or "unrecognized" in e


def memo_run_case(fn):
    """run_case is a pure function of the (normalised) case, and many raw draws normalise to the
    same case (especially while Hypothesis shrinks): remember the outcome per case within a worker
    process and replay it instead of re-linking."""
    import copy
    import functools
    import json as _json
    cache = {}

    @functools.wraps(fn)
    def wrapper(self, case, ctx):
        if getattr(ctx, "strict", False):
            return fn(self, case, ctx)
        key = hashlib.sha1(_json.dumps(case, sort_keys=True).encode()).hexdigest()
        hit = cache.get(key)
        if hit is None:
            try:
                hit = ("ok", fn(self, case, ctx))
            except Inconclusive:
                raise
            except Exception as e:  # Violation / Discard / OracleSplit: deterministic outcomes
                from .core import Discard, OracleSplit, Violation
                if not isinstance(e, (Violation, Discard, OracleSplit)):
                    raise
                hit = ("exc", e)
            if len(cache) < 20000:
                cache[key] = hit
        if hit[0] == "exc":
            raise hit[1]
        return copy.deepcopy(hit[1])
    return wrapper


def link(linker, args, cwd, env=None, timeout=240):
    """tools.link with a generous timeout and one retry (tiny links only time out when the shared
    machine is grossly overloaded; termination is not what these checks are about)."""
    r = tools.link(linker, args, cwd=cwd, env=env, timeout=timeout)
    if r.timed_out:
        r = tools.link(linker, args, cwd=cwd, env=env, timeout=timeout)
    return r
