"""Process helpers: assemble, compile, link with wild / GNU ld / lld, run programs."""
import os
import signal
import subprocess

from . import core
from .core import Inconclusive

LINKERS = {"wild": None, "ld": core.LD, "lld": core.LLD}


def linker_path(name):
    if name == "wild":
        return core.WILD
    return LINKERS[name]


def bdir(name):
    """Directory containing an `ld` symlink to the named linker, for gcc/clang -B."""
    key = {"wild": "wild", "ld": "ld.bfd", "lld": "lld"}[name]
    return os.path.join(core.TARGET, "bdir", key)


class Result:
    def __init__(self, rc, out, err, timed_out=False):
        self.rc = rc
        self.out = out
        self.err = err
        self.timed_out = timed_out

    @property
    def signaled(self):
        return self.rc < 0

    def __repr__(self):
        return f"Result(rc={self.rc}, out={self.out[:200]!r}, err={self.err[:400]!r})"


def run(cmd, cwd=None, env=None, timeout=60, stdin=None, binary=False):
    """Runs a command in its own process group; kills the group on timeout."""
    e = None
    if env is not None:
        e = dict(os.environ)
        e.update(env)
    p = subprocess.Popen(cmd, cwd=cwd, env=e, stdout=subprocess.PIPE, stderr=subprocess.PIPE,
                         stdin=subprocess.PIPE if stdin is not None else subprocess.DEVNULL,
                         start_new_session=True)
    try:
        out, err = p.communicate(stdin, timeout=timeout)
        to = False
    except subprocess.TimeoutExpired:
        try:
            os.killpg(p.pid, signal.SIGKILL)
        except ProcessLookupError:
            pass
        out, err = p.communicate()
        to = True
    if not binary:
        out = out.decode("utf-8", "replace")
        err = err.decode("utf-8", "replace")
    return Result(p.returncode, out, err, to)


def must(res, what):
    if res.rc != 0 or res.timed_out:
        raise Inconclusive(f"{what} failed: rc={res.rc} {res.err[:1500]}")
    return res


def write(path, text):
    mode = "wb" if isinstance(text, (bytes, bytearray)) else "w"
    with open(path, mode) as f:
        f.write(text)
    return path


def asm(src_text, out, arch="x86_64", cwd=None):
    """Assemble GNU-as text into an object. Raises Inconclusive if the assembler rejects it."""
    spath = out[:-2] + ".s" if out.endswith(".o") else out + ".s"
    write(spath if os.path.isabs(spath) else os.path.join(cwd, spath), src_text)
    if arch == "x86_64":
        r = run(["as", "--64", "-o", out, spath], cwd=cwd)
    elif arch == "aarch64":
        r = run(["clang", "--target=aarch64-linux-gnu", "-c", "-o", out, spath], cwd=cwd)
    else:
        raise ValueError(arch)
    must(r, f"assembling {spath}")
    return out


def cc(src_text, out, flags=(), cwd=None, compiler="gcc", lang="c"):
    ext = {"c": ".c", "c++": ".cc"}[lang]
    spath = os.path.splitext(out)[0] + ext
    write(spath if os.path.isabs(spath) else os.path.join(cwd, spath), src_text)
    r = run([compiler, "-c", "-o", out, spath, *flags], cwd=cwd)
    must(r, f"compiling {spath}")
    return out


def ar(archive, members, cwd=None, thin=False):
    flags = "rcsT" if thin else "rcs"
    must(run(["ar", flags, archive, *members], cwd=cwd), "ar")
    return archive


def link(linker, args, cwd=None, env=None, timeout=60):
    """Runs a linker directly (`ld`-style arguments). Returns Result."""
    exe = linker_path(linker)
    e = dict(env or {})
    if linker == "wild":
        e.setdefault("WILD_VALIDATE_OUTPUT", "0")
    return run([exe, *args], cwd=cwd, env=e or None, timeout=timeout)


def cc_link(linker, args, cwd=None, env=None, timeout=120, compiler="gcc"):
    """Links through the compiler driver (libc start files etc.) with the named linker."""
    return run([compiler, "-B" + bdir(linker), *args], cwd=cwd, env=env, timeout=timeout)


def run_exe(path, cwd=None, timeout=20, env=None, args=()):
    return run([path, *args], cwd=cwd, env=env, timeout=timeout)


FREESTANDING_START = r"""
    .globl _start
    .section .text._start,"ax",@progbits
_start:
    xorl %ebp, %ebp
    andq $-16, %rsp
    call vmain
    movl %eax, %edi
    movl $60, %eax
    syscall
"""

# Tiny freestanding runtime for x86-64: emit(u64) appends a hex line to a buffer; flush at exit.
RUNTIME_C = r"""
typedef unsigned long u64;
static char buf[1 << 16];
static u64 pos;
static void put(char c) { if (pos < sizeof buf) buf[pos++] = c; }
void emit2(u64 site, u64 v) {
    const char *h = "0123456789abcdef";
    for (int i = 28; i >= 0; i -= 4) put(h[(site >> i) & 15]);
    put(' ');
    for (int i = 60; i >= 0; i -= 4) put(h[(v >> i) & 15]);
    put('\n');
}
void flush_out(void) {
    u64 off = 0;
    while (off < pos) {
        long r;
        __asm__ volatile("syscall" : "=a"(r) : "a"(1), "D"(1), "S"(buf + off), "d"(pos - off)
                         : "rcx", "r11", "memory");
        if (r <= 0) break;
        off += r;
    }
    pos = 0;
}
"""
