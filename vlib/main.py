"""Entry point: check <ID> [--tier quick|thorough] [--replay PATH] [--cases N]"""
import argparse
import importlib
import os
import sys

sys.path.insert(0, os.path.dirname(os.path.dirname(os.path.abspath(__file__))))

from vlib import core  # noqa: E402


def main():
    ap = argparse.ArgumentParser()
    ap.add_argument("prop")
    ap.add_argument("--tier", default=os.environ.get("VERIF_TIER") or "quick", choices=["quick", "thorough"])
    ap.add_argument("--replay")
    ap.add_argument("--cases", type=int)
    ap.add_argument("--seed", type=int)
    a = ap.parse_args()
    seed = a.seed if a.seed is not None else int(os.environ.get("VERIF_SEED") or "1")
    prop = a.prop.upper()
    try:
        mod = importlib.import_module(f"checks.{prop.lower()}")
    except ModuleNotFoundError as e:
        print(f"no check for {prop}: {e}", file=sys.stderr)
        return 2
    check = mod.CHECK
    runner = core.run_rust_check if isinstance(check, core.RustCheck) else core.run_check
    rc = runner(check, a.tier, seed, replay_path=a.replay, cases_override=a.cases)
    return rc


if __name__ == "__main__":
    sys.exit(main())
