"""Variants of tools.asm / tools.link with generous timeouts (the machine is shared; a 60 s limit on
`as` or on a reference linker turns load spikes into spurious Inconclusive results)."""
import os

from . import tools


def asm(src_text, out, cwd=None, timeout=400):
    spath = out[:-2] + ".s" if out.endswith(".o") else out + ".s"
    tools.write(spath if os.path.isabs(spath) else os.path.join(cwd, spath), src_text)
    r = tools.run(["as", "--64", "-o", out, spath], cwd=cwd, timeout=timeout)
    tools.must(r, f"assembling {spath}")
    return out


def link(linker, args, cwd=None, env=None, timeout=400):
    return tools.link(linker, args, cwd=cwd, env=env, timeout=timeout)


def cc(src_text, out, flags=(), cwd=None, compiler="gcc", lang="c", timeout=400):
    ext = {"c": ".c", "c++": ".cc"}[lang]
    spath = os.path.splitext(out)[0] + ext
    tools.write(spath if os.path.isabs(spath) else os.path.join(cwd, spath), src_text)
    r = tools.run([compiler, "-c", "-o", out, spath, *flags], cwd=cwd, timeout=timeout)
    tools.must(r, f"compiling {spath}")
    return out
