"""Same helpers as vlib.tools with generous timeouts, for checks whose cases compile C and run
programs on a machine shared with other checks (a tool killed by its timeout would make the whole
run inconclusive although nothing is wrong)."""
import os

from . import tools
from .tools import must, run, write

T = int(os.environ.get("VERIF_TOOL_TIMEOUT", "600"))


def asm(src_text, out, cwd=None):
    spath = out[:-2] + ".s"
    write(os.path.join(cwd, spath), src_text)
    must(run(["as", "--64", "-o", out, spath], cwd=cwd, timeout=T), f"assembling {spath}")
    return out


def cc(src_text, out, flags=(), cwd=None, compiler="gcc"):
    spath = os.path.splitext(out)[0] + ".c"
    write(os.path.join(cwd, spath), src_text)
    must(run([compiler, "-c", "-o", out, spath, *flags], cwd=cwd, timeout=T), f"compiling {spath}")
    return out


def ar(archive, members, cwd=None):
    must(run(["ar", "rcs", archive, *members], cwd=cwd, timeout=T), "ar")
    return archive


def link(linker, args, cwd=None):
    return tools.link(linker, args, cwd=cwd, timeout=T)


def cc_link(linker, args, cwd=None):
    return tools.cc_link(linker, args, cwd=cwd, timeout=T)


def run_exe(path, cwd=None, env=None):
    return tools.run_exe(path, cwd=cwd, env=env, timeout=T // 4)
