"""GNU symbol-versioning tables (.gnu.version, .gnu.version_d, .gnu.version_r) decoded from an
`Elf` (vlib.elf), independent of wild.  Used by C32 (and usable by C31/C38)."""
import struct

from . import elf as E

VER_FLG_BASE, VER_FLG_WEAK = 1, 2
VERSYM_HIDDEN = 0x8000


def elf_hash(name):
    h = 0
    for c in name.encode("latin-1"):
        h = ((h << 4) + c) & 0xffffffff
        g = h & 0xf0000000
        if g:
            h ^= g >> 24
        h &= ~g & 0xffffffff
    return h


class Verdef:
    __slots__ = ("version", "flags", "ndx", "cnt", "hash", "names", "off")

    def __repr__(self):
        return f"<verdef ndx={self.ndx} flags={self.flags} names={self.names} hash={self.hash:#x}>"


class Verneed:
    __slots__ = ("version", "file", "aux")      # aux: [(name, hash, flags, other)]

    def __repr__(self):
        return f"<verneed {self.file} {self.aux}>"


class Versions:
    """Decoded version information plus a list of internal-consistency problems."""

    def __init__(self, elf):
        self.elf = elf
        self.problems = []
        self.versym = []
        self.verdefs = []
        self.verneeds = []
        self._parse()

    def _sec(self, typ):
        return next((s for s in self.elf.sections if s.type == typ), None)

    def _parse(self):
        elf = self.elf
        d = elf.data
        dyn = dict()
        for t, v in elf.dynamic():
            dyn.setdefault(t, v)
        dynsym = self._sec(E.SHT_DYNSYM)
        vs = self._sec(E.SHT_GNU_VERSYM)
        vd = self._sec(E.SHT_GNU_VERDEF)
        vn = self._sec(E.SHT_GNU_VERNEED)
        nsyms = dynsym.size // 24 if dynsym else 0
        if vs is not None:
            self.versym = list(struct.unpack_from(f"<{vs.size // 2}H", d, vs.offset))
            if len(self.versym) != nsyms:
                self.problems.append(f".gnu.version has {len(self.versym)} entries, .dynsym {nsyms}")
            if dyn.get(E.DT_VERSYM) != vs.addr:
                self.problems.append("DT_VERSYM does not point at .gnu.version")
            if dynsym is not None and vs.link != dynsym.index:
                self.problems.append(".gnu.version sh_link is not .dynsym")
        elif E.DT_VERSYM in dyn:
            self.problems.append("DT_VERSYM without .gnu.version")
        if vd is not None:
            strs = elf.section_data(elf.sections[vd.link])
            off = vd.offset
            n = 0
            end = vd.offset + vd.size
            while True:
                if off + 20 > end:
                    self.problems.append("verdef chain leaves the section")
                    break
                v = Verdef()
                v.version, v.flags, v.ndx, v.cnt, v.hash, aux, nxt = struct.unpack_from("<HHHHIII", d, off)
                v.off = off
                v.names = []
                a = off + aux
                for _ in range(v.cnt):
                    if a + 8 > end:
                        self.problems.append("verdaux chain leaves the section")
                        break
                    name_off, anext = struct.unpack_from("<II", d, a)
                    v.names.append(E.cstr(strs, name_off) if name_off < len(strs) else "<bad>")
                    if anext == 0:
                        break
                    a += anext
                if len(v.names) != v.cnt:
                    self.problems.append(f"verdef {v.ndx}: vd_cnt={v.cnt} but {len(v.names)} aux entries")
                self.verdefs.append(v)
                n += 1
                if nxt == 0:
                    break
                off += nxt
            if vd.info != n:
                self.problems.append(f".gnu.version_d sh_info={vd.info}, {n} definitions")
            if dyn.get(E.DT_VERDEFNUM) != n:
                self.problems.append(f"DT_VERDEFNUM={dyn.get(E.DT_VERDEFNUM)}, {n} definitions")
            if dyn.get(E.DT_VERDEF) != vd.addr:
                self.problems.append("DT_VERDEF does not point at .gnu.version_d")
            for v in self.verdefs:
                if v.version != 1:
                    self.problems.append(f"verdef {v.ndx}: vd_version={v.version}")
                if v.names and v.hash != elf_hash(v.names[0]):
                    self.problems.append(f"verdef {v.ndx}: vd_hash {v.hash:#x} != hash({v.names[0]})")
            idx = [v.ndx for v in self.verdefs]
            if len(set(idx)) != len(idx):
                self.problems.append(f"duplicate verdef indices {idx}")
            base = [v for v in self.verdefs if v.flags & VER_FLG_BASE]
            if len(base) != 1 or base[0].ndx != 1:
                self.problems.append("VER_FLG_BASE is not exactly on index 1")
        elif E.DT_VERDEF in dyn or E.DT_VERDEFNUM in dyn:
            self.problems.append("DT_VERDEF(NUM) without .gnu.version_d")
        if vn is not None:
            strs = elf.section_data(elf.sections[vn.link])
            off = vn.offset
            end = vn.offset + vn.size
            n = 0
            while True:
                if off + 16 > end:
                    self.problems.append("verneed chain leaves the section")
                    break
                ver, cnt, file_off, aux, nxt = struct.unpack_from("<HHIII", d, off)
                r = Verneed()
                r.version = ver
                r.file = E.cstr(strs, file_off) if file_off < len(strs) else "<bad>"
                r.aux = []
                a = off + aux
                for _ in range(cnt):
                    if a + 16 > end:
                        self.problems.append("vernaux chain leaves the section")
                        break
                    h, flags, other, name_off, anext = struct.unpack_from("<IHHII", d, a)
                    nm = E.cstr(strs, name_off) if name_off < len(strs) else "<bad>"
                    r.aux.append((nm, h, flags, other))
                    if h != elf_hash(nm):
                        self.problems.append(f"verneed {r.file}:{nm}: vna_hash {h:#x} != hash")
                    if anext == 0:
                        break
                    a += anext
                if len(r.aux) != cnt:
                    self.problems.append(f"verneed {r.file}: vn_cnt={cnt} but {len(r.aux)} aux entries")
                self.verneeds.append(r)
                n += 1
                if nxt == 0:
                    break
                off += nxt
            if vn.info != n:
                self.problems.append(f".gnu.version_r sh_info={vn.info}, {n} entries")
            if dyn.get(E.DT_VERNEEDNUM) != n:
                self.problems.append(f"DT_VERNEEDNUM={dyn.get(E.DT_VERNEEDNUM)}, {n} entries")
            if dyn.get(E.DT_VERNEED) != vn.addr:
                self.problems.append("DT_VERNEED does not point at .gnu.version_r")
        elif E.DT_VERNEED in dyn or E.DT_VERNEEDNUM in dyn:
            self.problems.append("DT_VERNEED(NUM) without .gnu.version_r")
        # every versym index must be defined
        known = {0: None, 1: None}
        for v in self.verdefs:
            known[v.ndx] = v.names[0] if v.names else None
        for r in self.verneeds:
            for nm, _h, _f, other in r.aux:
                if other in known and other > 1:
                    self.problems.append(f"version index {other} used twice ({known[other]}, {nm})")
                known[other] = nm
        self.index_names = known
        for i, x in enumerate(self.versym):
            if (x & 0x7fff) not in known:
                self.problems.append(f"versym[{i}] = {x:#x}: index not defined")

    def version_of(self, i):
        """(version name or None for unversioned, hidden bit, raw index) of dynsym entry i."""
        if not self.versym or i >= len(self.versym):
            return (None, False, 1)
        x = self.versym[i]
        idx = x & 0x7fff
        name = self.index_names.get(idx) if idx > 1 else None
        return (name, bool(x & VERSYM_HIDDEN), idx)
