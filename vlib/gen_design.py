"""Regenerates the machine-derived tables of DESIGN.md section 8 (between the markers
<!-- GEN:BEGIN --> and <!-- GEN:END -->) from known_findings.jsonl, seeded/*/meta.json, the check
modules and `git log` of /repo.  Run: python3-vt vlib/gen_design.py"""
import importlib
import json
import os
import subprocess
import sys

sys.path.insert(0, os.path.dirname(os.path.dirname(os.path.abspath(__file__))))
VERIF = os.path.dirname(os.path.dirname(os.path.abspath(__file__)))


def cell(s, n=400):
    s = " ".join(str(s).split())
    s = s.replace("|", "\\|")
    return s if len(s) <= n else s[: n - 1] + "…"


def main():
    findings = [json.loads(l) for l in open(os.path.join(VERIF, "known_findings.jsonl")) if l.startswith("{")]
    out = []
    # --- fixes ---------------------------------------------------------------------------------
    log = subprocess.run(["git", "-C", "/repo", "log", "--format=%h %s", "d9a18dc..HEAD"], stdout=subprocess.PIPE, text=True).stdout
    fixes = [l.split(" ", 1) for l in log.strip().split("\n") if l.split(" ", 1)[1].startswith("fix:")]
    by_commit = {}
    for f in findings:
        if f["status"] == "fixed":
            by_commit.setdefault(f.get("commit", "?"), []).append(f)
    out.append("### 8.3 Genuine defects repaired (`fix:` commits in /repo, oldest first)\n")
    out.append("Each is one unguarded commit; the pinned suite still gives 401 passes / 4 expected failures with all of them applied. "
               "The third column lists the finding signatures (`property: signature`) whose stored case is replayed strictly on every run.\n")
    out.append("| commit | what was wrong / what the commit does | findings it closes |")
    out.append("|---|---|---|")
    for h, subj in reversed(fixes):
        fs = by_commit.get(h, [])
        out.append(f"| {h} | {cell(subj[5:], 200)} | {cell('; '.join(sorted(set(f['property'] + ': ' + f['signature'] for f in fs))) or '(found while triaging; see text)', 300)} |")
    # --- known findings ------------------------------------------------------------------------
    out.append("\n### 8.5 Known findings (genuine defects recorded, not repaired)\n")
    out.append("Listed in `known_findings.jsonl` with an exact signature and a minimal stored case; each check prints one "
               "`KNOWN-FINDING:` line per entry while it reproduces, excludes exactly that domain from generation (counted in "
               "`excluded_known`), and alarms on anything else.\n")
    out.append("| property | signature | what fails |")
    out.append("|---|---|---|")
    for f in sorted((f for f in findings if f["status"] == "known"), key=lambda f: (f["property"], f["signature"])):
        out.append(f"| {f['property']} | `{cell(f['signature'], 90)}` | {cell(f['what'], 330)} |")
    # --- seeded changes ------------------------------------------------------------------------
    out.append("\n### 8.6 Seeded changes (independent sub-agents; property text only) and which checks catch them\n")
    out.append("`seeded/<ID>/` holds patch.diff, the demonstration, notes.md, verify.log (my confirmation: builds, pinned suite, demo "
               "passes without / fails with the change) and meta.json.\n")
    out.append("| seed | breaks / needs | caught by (signature) | notes |")
    out.append("|---|---|---|---|")
    sd = os.path.join(VERIF, "seeded")
    for sid in sorted(os.listdir(sd)):
        mp = os.path.join(sd, sid, "meta.json")
        if not os.path.exists(mp):
            continue
        m = json.load(open(mp))
        det = m.get("detected_by", {})
        caught = f"{det.get('check', '')} `{cell(det.get('signature', ''), 80)}`" if det.get("signature") else cell(det.get("status", "pending"))
        out.append(f"| {sid} | {cell(m['breaks_and_needs'], 260)} | {caught} | {cell(det.get('note', ''), 220)} |")
    # --- checks --------------------------------------------------------------------------------
    out.append("\n### 8.7 Checks as built\n")
    out.append("| id | engine | level | quick / thorough cases | deciding technique |")
    out.append("|---|---|---|---|---|")
    claimed = set(open(os.path.join(VERIF, "claimed.txt")).read().split())
    for pid in sorted(claimed):
        try:
            c = importlib.import_module(f"checks.{pid.lower()}").CHECK
        except Exception as e:  # pragma: no cover
            out.append(f"| {pid} | import error {e} | | | |")
            continue
        eng = "Rust/proptest in-process" if getattr(c, "sub", None) else ("Python/Hypothesis" + (" + Rust shards" if getattr(c, "needs_harness", False) else ""))
        out.append(f"| {pid} | {eng} | {c.level} | {c.quick_cases} / {c.thorough_cases} | {cell(c.technique, 260)} |")
    text = "\n".join(out) + "\n"
    p = os.path.join(VERIF, "DESIGN.md")
    s = open(p).read()
    b, e = "<!-- GEN:BEGIN -->", "<!-- GEN:END -->"
    if b in s:
        s = s[: s.index(b) + len(b)] + "\n" + text + s[s.index(e):]
    else:
        s += f"\n{b}\n{text}{e}\n"
    open(p, "w").write(s)
    print("DESIGN.md tables regenerated:", len(fixes), "fixes,", sum(1 for f in findings if f['status'] == 'known'), "known findings")


if __name__ == "__main__":
    main()
