"""Generates /verif/MANIFEST.json from the check modules present in /verif/checks (run: python3-vt vlib/manifest.py)."""
import importlib
import json
import os
import sys

sys.path.insert(0, os.path.dirname(os.path.dirname(os.path.abspath(__file__))))
VERIF = os.path.dirname(os.path.dirname(os.path.abspath(__file__)))

# Reasons for properties that are (currently) not claimed. Keys are property ids.
NOT_APPLICABLE = {}
try:
    NOT_APPLICABLE.update(json.load(open(os.path.join(VERIF, "not_applicable.json"))))
except OSError:
    pass


def main():
    props = [json.loads(l) for l in open(os.path.join(VERIF, "properties.jsonl"))]
    # Only checks that the lead has validated on the unchanged tree are claimed.
    claimed = set(open(os.path.join(VERIF, "claimed.txt")).read().split())
    checks = []
    na = []
    for p in props:
        pid = p["id"]
        modpath = os.path.join(VERIF, "checks", pid.lower() + ".py")
        if not os.path.exists(modpath) or pid in NOT_APPLICABLE or pid not in claimed:
            na.append({"property_id": pid, "reason": NOT_APPLICABLE.get(
                pid, "check not built yet in this round (design in DESIGN.md section 3); not claimed until it exists")})
            continue
        c = importlib.import_module(f"checks.{pid.lower()}").CHECK
        entry = {
            "property_id": pid,
            "quick_cmd": f"./check {pid} --tier quick",
            "thorough_cmd": f"./check {pid} --tier thorough",
            "evidence_file": f"/verif/evidence/{pid}.json",
            "replay_cmd_template": f"./check {pid} --replay {{path}}",
            "engine": "vcheck (Rust/proptest, in-process)" if getattr(c, "sub", None) else "vlib (Python/Hypothesis, process-level)",
            "level_claimed": {
                "category": c.level,
                "text": getattr(c, "level_text", "") or (
                    f"Generated-input search with an explicit oracle: {c.technique}. Holds on N generated cases of the stated "
                    f"distribution (N, non-trivial count and samples in the evidence file); never establishes absence."),
                "design_ref": f"DESIGN.md section 3, {pid}",
            },
            "level_note": "; ".join(c.assumptions) or "reference tools installed in the sandbox are trusted",
            "technique": c.technique,
        }
        checks.append(entry)
    manifest = {
        "version": 1,
        "setup_cmd": "./setup.sh",
        "hooks": {
            "guard": "--cfg wild_verif (rustc cfg; declared in [workspace.lints.rust] check-cfg)",
            "enable": "RUSTFLAGS='--cfg wild_verif' CARGO_TARGET_DIR=/verif/target/wild cargo build --offline -p wild-linker -p linker-diff (done by ./check and ./setup.sh)",
            "baseline_off_cmd": "cd /repo && cargo nextest run --workspace --no-fail-fast --tool-config-file pb:/w/lib/nextest.toml --profile pb --test-threads 8 --offline || cargo test --workspace --no-fail-fast --offline",
            "source_commits": json.load(open(os.path.join(VERIF, "hook_commits.json"))),
            "add_only": True,
        },
        "engines": [
            {"name": "vlib", "path": "/verif/vlib", "kind_free_text": "Python/Hypothesis process-level property-based testing: 16 seeded worker processes, shrinking, replay files, differential/metamorphic/model oracles against GNU ld, lld and an independent ELF reader",
             "serves_properties": [c["property_id"] for c in checks if c["engine"].startswith("vlib")]},
            {"name": "vcheck", "path": "/verif/harness", "kind_free_text": "Rust/proptest in-process property-based testing linked against the repository's libwild/linker-utils (hooks on)",
             "serves_properties": [c["property_id"] for c in checks if c["engine"].startswith("vcheck")]},
        ],
        "checks": checks,
        "not_applicable": na,
        "notes": "VERIF_SEED seeds every generator; exit 2 = inconclusive (build/tool failure), never reported as violation. Known findings: /verif/known_findings.jsonl.",
    }
    with open(os.path.join(VERIF, "MANIFEST.json"), "w") as f:
        json.dump(manifest, f, indent=1)
    print(f"MANIFEST.json: {len(checks)} checks, {len(na)} not_applicable")


if __name__ == "__main__":
    main()
